"""Affine-space typing of terms (DESIGN 3.7): points and displacements of *time*.

Types: 'P' point (an absolute time), 'D' displacement (a difference of times, a
window), 'S' scalar/count/index/label, 'B' boolean, 'U' unknown (no claim),
and a list of *problems*: constructs that are not invariant under adding one
constant to every time point (point * scalar, point + point, point compared
with an absolute constant, point passed where a displacement is expected ...).
Containers (tuples/lists of points) are typed by their element type.
"""

from __future__ import annotations

from . import terms as tm
from .rules.common import call_name

POINT_PRESERVING = {
    "np.min",
    "np.max",
    "np.median",
    "np.mean",
    "np.unique",
    "np.sort",
    "np.concatenate",
    "np.hstack",
    "np.vstack",
    "np.ravel",
    "np.flatten",
    "np.round",
    "np.array",
    "np.asarray",
    "np.copy",
    "np.transpose",
    "np.squeeze",
    "np.atleast_1d",
    "np.append",
    "np.insert",
    "builtins.min",
    "builtins.max",
    "builtins.sorted",
    "builtins.list",
    "builtins.tuple",
    "builtins.set",
    "builtins.zip",
    "builtins.enumerate",
    "itertools.chain",
    "np.reshape",
    "astype",
    "builtins.float",
}
DISP_PRESERVING = {"np.abs", "np.round", "np.min", "np.max", "np.median", "np.mean", "np.sum", "np.std", "np.ravel", "np.flatten", "np.array", "np.reshape", "astype", "np.maximum", "np.minimum", "np.append", "np.concatenate", "np.hstack", "builtins.max", "builtins.min", "builtins.abs", "builtins.float", "np.transpose", "np.sort", "np.unique"}
SCALAR_RESULT = {"builtins.len", "np.argsort", "np.argmin", "np.argmax", "np.searchsorted", "np.flatnonzero", "np.nonzero", "np.where", "np.arange", "np.zeros", "np.ones", "np.empty", "builtins.range", "builtins.int", "np.int64", "np.histogram", "np.linspace", "np.log2", "np.log", "np.exp", "np.sqrt", "np.floor", "np.ceil"}

# repo helpers: name -> result type given that time arguments are points
REPO_RESULT = {
    "util.intervals_to_boundaries": "P",
    "util.boundaries_to_intervals": "P",
    "util.intervals_to_durations": "D",
    "beat.trim_beats": "P",
    "beat._get_reference_beat_variations": "P",
    "util.match_events": "S",
    "util._fast_hit_windows": "S",
    "util._bipartite_match": "S",
    "transcription.match_notes": "S",
    "transcription.match_note_onsets": "S",
    "transcription.match_note_offsets": "S",
    "transcription_velocity.match_notes": "S",
    "util.f_measure": "S",
    "util.adjust_intervals": "P",
    "util.merge_labeled_intervals": "P",
    "chord.merge_chord_intervals": "P",
    "util.sort_labeled_intervals": "P",
}


class Affine(object):
    def __init__(self, func, point_params, disp_params, exempt_calls=()):
        self.func = func
        self.pp = set(point_params)
        self.dp = set(disp_params)
        self.memo = {}
        self.problems = []
        self.exempt_calls = set(exempt_calls)
        self.nodes = 0

    def bad(self, t, why):
        self.problems.append((why, tm.show(t, 3)))

    def ty(self, t):
        r = self.memo.get(t.id)
        if r is not None:
            return r
        self.memo[t.id] = "U"
        r = self._ty(t)
        self.memo[t.id] = r
        self.nodes += 1
        return r

    def _ty(self, t):
        op = t.op
        if op == "param":
            n = t.a[0]
            if n in self.pp:
                return "P"
            if n in self.dp:
                return "D"
            return "S"
        if op == "const":
            return "S"
        if op in ("glob", "func", "ext", "builtin", "mod", "localfunc", "idx", "meth", "closure", "unk", "undef", "lambda", "fstr", "nondet"):
            return "S"
        if op == "bin":
            o, l, r = t.a
            a, b = self.ty(l), self.ty(r)
            if o == "-":
                if a == "P" and b == "P":
                    return "D"
                if a == "P" and b == "D":
                    return "P"
                if a == "D" and b == "D":
                    return "D"
                if a == "D" and b == "P":
                    self.bad(t, "displacement minus point")
                    return "U"
                if a == "P" and b == "S":
                    if tm.is_const(r, 0):
                        return "P"
                    self.bad(t, "point minus an absolute number")
                    return "U"
                if a == "S" and b == "P":
                    self.bad(t, "absolute number minus point")
                    return "U"
                if a == "D" or b == "D":
                    return "D"
                return "S" if (a == "S" and b == "S") else "U"
            if o == "+":
                if a == "P" and b == "P":
                    self.bad(t, "sum of two time points")
                    return "U"
                if (a, b) in (("P", "D"), ("D", "P")):
                    return "P"
                if a == "D" and b == "D":
                    return "D"
                if (a == "P" and b == "S") or (a == "S" and b == "P"):
                    other = r if a == "P" else l
                    if tm.is_const(other, 0):
                        return "P"
                    self.bad(t, "time point plus an absolute number")
                    return "U"
                if a == "D" or b == "D":
                    return "D"
                return "S" if (a == "S" and b == "S") else "U"
            if o in ("*", "/", "//", "%", "**"):
                if a == "P" or b == "P":
                    self.bad(t, "time point under `%s` (scaling an absolute time)" % o)
                    return "U"
                if o == "/" and a == "D" and b == "D":
                    return "S"
                if a == "D" or b == "D":
                    return "D"
                return "S" if (a == "S" and b == "S") else "U"
            return "U"
        if op == "un":
            x = self.ty(t.a[1])
            if x == "P" and t.a[0] == "-":
                self.bad(t, "negated time point")
                return "U"
            return x if t.a[0] == "-" else ("B" if t.a[0] in ("not", "~") else x)
        if op == "cmp":
            o, l, r = t.a
            a, b = self.ty(l), self.ty(r)
            if o in ("is", "isnot", "in", "notin"):
                return "B"
            if (a == "P") != (b == "P"):
                if not (a == "U" or b == "U"):
                    other = r if a == "P" else l
                    if not (other.op == "const" and other.a[0] is None):
                        self.bad(t, "time point compared with a %s" % ("displacement" if "D" in (a, b) else "absolute number"))
            return "B"
        if op == "bool":
            for x in t.a[1:]:
                self.ty(x)
            return "B"
        if op == "ite":
            self.ty(t.a[0])
            a, b = self.ty(t.a[1]), self.ty(t.a[2])
            return a if a == b else ("U" if "U" in (a, b) else (a if b == "S" and _is_none(t.a[2]) else (b if a == "S" and _is_none(t.a[1]) else "U")))
        if op in ("tuple", "list", "set"):
            tys = {self.ty(x) for x in t.a}
            tys.discard("S") if len(tys) > 1 and tys <= {"S", "P"} and False else None
            if len(tys) == 1:
                return next(iter(tys))
            if tys <= {"P", "S"} and "P" in tys:
                # [0] + points, (points, labels): keep as mixed; treat constants 0 next to points as suspicious elsewhere
                return "M"
            return "U"
        if op == "sub":
            b = self.ty(t.a[0])
            self.ty(t.a[1])
            if b == "M":
                return "U"
            return b
        if op == "slice":
            for x in t.a:
                self.ty(x)
            return "S"
        if op == "attr":
            self.ty(t.a[0])
            return "S" if t.a[1] in ("shape", "size", "ndim", "dtype") else self.ty(t.a[0])
        if op in ("iter",):
            b = self.ty(t.a[0])
            return "U" if b == "M" else b
        if op == "upd":
            b = self.ty(t.a[0])
            v = self.ty(t.a[3])
            self.ty(t.a[2]) if isinstance(t.a[2], tm.T) else None
            if b in ("P", "D") and v not in (b, "U") and not (v == "S" and b == "D"):
                if not (t.a[1].startswith("method:")):
                    self.bad(t, "a %s is stored into an array of %s" % (_name(v), _name(b)))
            return b if b != "S" else (v if t.a[1].startswith("method:") else b)
        if op in ("loop",):
            a = self.ty(t.a[2])
            b = self.ty(t.a[3])
            return b if a in ("S", "U") else a
        if op == "loopvar":
            return self.ty(t.a[2])
        if op == "comp":
            for x in t.a[2]:
                self.ty(x)
            for x in t.a[3]:
                self.ty(x)
            return self.ty(t.a[1])
        if op == "call":
            return self._call(t)
        if op in ("star", "with", "yield"):
            return self.ty(t.a[0]) if t.a and isinstance(t.a[0], tm.T) else "U"
        if op == "dict":
            return "U"
        return "U"

    def _call(self, t):
        fn, args, kw = t.a
        name = tm.callee_name(fn)
        tys = [self.ty(a) for a in args]
        for _, v in kw:
            self.ty(v)
        if name in self.exempt_calls:
            return "U"
        if fn.op in ("func", "localfunc"):
            if name in REPO_RESULT:
                return REPO_RESULT[name]
            return "U"
        if name is None:
            return "U"
        if name == "np.subtract.outer":
            if tys[:2] == ["P", "P"]:
                return "D"
            if tys[:2] == ["D", "D"] or tys[:2] == ["S", "S"]:
                return tys[0]
            self.bad(t, "outer difference of %s and %s" % (_name(tys[0]), _name(tys[1])))
            return "U"
        if name == "np.diff":
            return "D" if tys and tys[0] == "P" else (tys[0] if tys else "U")
        if name == "np.interp" and len(tys) >= 3:
            return tys[2]
        if name in SCALAR_RESULT:
            return "S"
        if tys and tys[0] == "P" and name in POINT_PRESERVING:
            return "P"
        if tys and tys[0] == "D" and name in DISP_PRESERVING:
            return "D"
        if tys and tys[0] == "M":
            # np.min([np.min(a), np.min(b)]), np.hstack([start, pts, end]) ...
            return "P"
        if "P" in tys:
            if name in ("np.maximum", "np.minimum") and set(tys[:2]) == {"P"}:
                return "P"
            if name in ("np.logical_and", "np.logical_or"):
                return "B"
            if name in ("np.allclose", "np.isclose"):
                # |a - b| <= atol + rtol * |b|: the relative part scales with the absolute position of b
                rt = dict(t.a[2]).get("rtol", t.a[1][2] if len(t.a[1]) > 2 else None)
                if tys[:2] == ["P", "P"] and not (rt is not None and rt.op == "const" and rt.a[0] == 0):
                    self.bad(t, "%s on two absolute times with a relative tolerance (rtol defaults to 1e-5 and scales with the time origin)" % name)
                return "S" if name == "np.allclose" else "B"
            if name in ("warnings.warn", "builtins.ValueError", ".format", "builtins.str", "builtins.isinstance", "np.all", "np.any", "np.isfinite"):
                return "S"
            if name in ("np.exp", "np.log", "np.log2", "np.sqrt", "np.ceil", "np.floor", "np.sum", "np.cumsum", "np.histogram", "np.correlate", "np.dot"):
                self.bad(t, "absolute time passed to %s" % name)
            return "U"
        if "D" in tys and name in DISP_PRESERVING:
            return "D"
        if all(x in ("S", "B") for x in tys):
            return "S"
        return "U"


def _is_none(t):
    return t.op == "const" and t.a[0] is None


def _name(x):
    return {"P": "time points", "D": "time differences", "S": "plain numbers", "B": "booleans"}.get(x, "unknown")
