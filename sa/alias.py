"""AliasMod (DESIGN 3.5): which caller-owned objects can a function write?

Storage roots of a term are computed structurally: a term aliases a parameter
(or a module-level object) when it is that parameter, a view of it, an element
of it, or the result of a repo call whose RET summary says so.  Mutation sites
recorded by the summariser carry the term of the object *as it was at that
statement*, so the analysis is flow-sensitive on the mutated name.

Library model (trusted base): callables in VIEW return storage shared with
their first argument; everything else from NumPy/SciPy/builtins returns fresh
storage and does not write its arguments, except the in-place forms the
summariser records as mutation sites (out=, third-positional out, np.place...).
"""

from __future__ import annotations

import re

from . import terms as tm

VIEW_CALLS = {
    "np.ravel",
    "np.reshape",
    "np.squeeze",
    "np.transpose",
    "np.atleast_1d",
    "np.atleast_2d",
    "np.atleast_3d",
    "np.real",
    "np.imag",
    "np.expand_dims",
    "np.swapaxes",
    "np.broadcast_to",
    "numpy.lib.stride_tricks.as_strided",
    "np.lib.stride_tricks.as_strided",
    "np.asanyarray",
    "np.asarray",
    "np.ascontiguousarray",
    "np.moveaxis",
    "np.rollaxis",
    "np.diagonal",
    "np.split",
    "np.array_split",
    "np.hsplit",
    "np.vsplit",
    "np.nditer",
    "np.flipud",
    "np.fliplr",
    "np.flip",
    "np.rot90",
    "np.view",
}
# builtins / itertools whose result yields the *elements* of their arguments
ELEMENT_CALLS = {"builtins.zip", "builtins.enumerate", "builtins.reversed", "builtins.iter", "itertools.chain", "builtins.map", "builtins.filter", "itertools.tee", "builtins.next"}
ELEMENT_METHODS = {".items", ".values", ".get", ".pop", ".setdefault", ".view", ".swapaxes", ".__getitem__"}
COPY_FALSE_CALLS = {"np.array", "astype", "np.nan_to_num", "scipy.interpolate.interp1d"}
SCALAR_ATTRS = {"shape", "size", "ndim", "dtype", "itemsize", "nbytes", "__name__", "__code__", "co_varnames", "co_argcount", "args", "strides"}

IMMUTABLE_DOC = re.compile(r"\b(str|string|float|int|bool|number|scalar|function|callable)\b")
MUTABLE_DOC = re.compile(r"(ndarray|array|list|dict|sequence|matrix|tuple of|set\b)", re.I)


class AliasMod(object):
    def __init__(self, ctx):
        self.ctx = ctx
        self.P = ctx.program
        self.S = ctx.S
        self.mod = {}  # qual -> {param: witness}
        self.ret = {}  # qual -> set of roots ('p', name) | ('g', qual)
        self._memo = {}
        self._open = set()
        self._heads = set()
        self._loops = {}
        self._cur = None
        self.rounds = 0
        self.solve()

    # -------------------------------------------------------------- typing
    def param_kind(self, f, p):
        """'immutable' | 'list' | 'array' | 'unknown' from numpydoc / default."""
        for n, ty, _ in f.docinfo["params"]:
            names = [x.strip() for x in n.split(",")]
            if p in names:
                if re.search(r"\blist\b", ty) and "ndarray" not in ty:
                    return "list"
                if MUTABLE_DOC.search(ty):
                    return "array"
                if IMMUTABLE_DOC.search(ty):
                    return "immutable"
        ok, dv = f.default_value(p)
        if ok and dv is not None and isinstance(dv, (str, int, float, bool)):
            return "immutable"
        return "unknown"

    # --------------------------------------------------------------- roots
    def roots(self, t, f):
        key = (t.id, f.qual)
        r = self._memo.get(key)
        if r is not None:
            if key in self._open:
                self._heads.add(key)  # a cycle through a loop variable: what is computed below this point is partial
            return r
        self._memo[key] = frozenset()  # cycle guard
        self._open.add(key)
        r = frozenset(self._roots(t, f))
        self._open.discard(key)
        self._heads.discard(key)
        if self._heads & self._open:
            # computed while a cycle head above us was still open: valid for that computation (least fixpoint),
            # but not a complete answer for this term on its own - do not remember it
            del self._memo[key]
        else:
            self._memo[key] = r
        return r

    def ident(self, t, f, _seen=None):
        """Caller-owned objects the value of ``t`` may *be* (as opposed to hold): a freshly built list, dict or
        comprehension is nobody's object whatever is put into it, and an element of a list display that is only
        ever filled through `xs[k].append(..)` is that element."""
        if _seen is None:
            _seen = set()
        if t.id in _seen:
            return frozenset()
        _seen.add(t.id)
        op = t.op
        if op in ("list", "dict", "set", "tuple", "comp"):
            return frozenset()
        if op == "upd":
            return self.ident(t.a[0], f, _seen)
        if op == "loop":
            return self.ident(t.a[2], f, _seen) | self.ident(t.a[3], f, _seen)
        if op == "loopvar":
            out = self.ident(t.a[2], f, _seen)
            body = self._loop_body(f, t.a[0], t.a[1])
            if body is not None:
                out = out | self.ident(body, f, _seen)
            return out
        if op == "ite":
            c, a, b = t.a
            if c.op == "cmp" and c.a[0] in ("is", "isnot") and (tm.is_const(c.a[1], None) or tm.is_const(c.a[2], None)):
                # `X if X is not None else ...`: in the branch where X is None, X is nothing
                x = c.a[2] if tm.is_const(c.a[1], None) else c.a[1]
                none_branch_is_a = c.a[0] == "is"
                ra = frozenset() if (none_branch_is_a and a is x) else self.ident(a, f, _seen)
                rb = frozenset() if ((not none_branch_is_a) and b is x) else self.ident(b, f, _seen)
                return ra | rb
            return self.ident(a, f, _seen) | self.ident(b, f, _seen)
        if op == "sub":
            base, idx = t.a
            if idx.op == "const" and isinstance(idx.a[0], (int, float)) and not isinstance(idx.a[0], bool) and idx.a[0] == int(idx.a[0]):
                er = self._element_roots(base, int(idx.a[0]), f, contents=False)
                if er is not None:
                    return frozenset(er)
        return self.roots(t, f)

    def _roots(self, t, f):
        op = t.op
        if op == "param":
            p = t.a[0]
            if p == f.kwarg or p == f.vararg:
                return set()  # fresh container built per call
            if self.param_kind(f, p) == "immutable":
                return set()
            return {("p", p)}
        if op in ("const", "func", "ext", "builtin", "mod", "localfunc", "class", "unk", "undef", "idx", "meth", "lambda", "fstr", "exc", "with", "lparam", "nondet", "bin", "un", "cmp", "bool", "slice", "yield"):
            return set()
        if op == "glob":
            q = t.a[0]
            mname, name = q.split(".", 1)
            m = self.P.modules.get(mname)
            if m is not None and name in m.const_values and isinstance(m.const_values[name], (int, float, str, bool, type(None), tuple)):
                v = m.const_values[name]
                if not isinstance(v, tuple):
                    return set()
            return {("g", q)}
        if op == "closure":
            return set()
        if op == "ite":
            c, a, b = t.a
            # `X if X is not None else ...`: in the branch where X is None, X aliases nothing
            if c.op == "cmp" and c.a[0] in ("is", "isnot") and (tm.is_const(c.a[1], None) or tm.is_const(c.a[2], None)):
                x = c.a[2] if tm.is_const(c.a[1], None) else c.a[1]
                none_branch_is_a = c.a[0] == "is"
                ra = set() if (none_branch_is_a and a is x) else self.roots(a, f)
                rb = set() if ((not none_branch_is_a) and b is x) else self.roots(b, f)
                return ra | rb
            return self.roots(a, f) | self.roots(b, f)
        if op == "loop":
            return self.roots(t.a[2], f) | self.roots(t.a[3], f)
        if op == "loopvar":
            # the variable at the top of an iteration: its initial value or what an earlier iteration left in it
            out = set(self.roots(t.a[2], f))
            body = self._loop_body(f, t.a[0], t.a[1])
            if body is not None:
                out |= self.roots(body, f)
            return out
        if op == "upd":
            out = set(self.roots(t.a[0], f))
            # a Python list / dict keeps references: what is appended to or stored in it stays reachable through it
            if t.a[1] in ("method:append", "method:insert", "method:extend", "setitem", "method:setdefault") and self._is_list(t.a[0], f):
                out |= self.roots(t.a[3], f)
            return out
        if op == "iter":
            if self.ndim(t.a[0], f) == 1:
                return set()  # the elements of a 1-d array are scalars
            return self.roots(t.a[0], f)
        if op in ("tuple", "list", "set", "star"):
            out = set()
            for x in t.a:
                out |= self.roots(x, f)
            return out
        if op == "dict":
            out = set()
            for kv in t.a:
                out |= self.roots(kv, f)
            return out
        if op == "comp":
            return set(self.roots(t.a[1], f))
        if op == "attr":
            if t.a[1] in SCALAR_ATTRS:
                return set()
            return self.roots(t.a[0], f)
        if op == "sub":
            base, idx = t.a
            if self._is_fancy(idx):
                return set()
            if idx.op == "slice" and self._is_list(base, f):
                return set()
            if idx.op == "const" and isinstance(idx.a[0], (int, float)) and not isinstance(idx.a[0], bool) and idx.a[0] == int(idx.a[0]):
                er = self._element_roots(base, int(idx.a[0]), f)
                if er is not None:
                    return er
            return self.roots(base, f)
        if op == "call":
            return self._call_roots(t, f)
        return set()

    def _element_roots(self, base, k, f, contents=True):
        """`xs[k]` where xs was created as a list display and is only ever updated *through* its elements
        (`xs[j].append(v)`): the k-th element and what was put into it, not what the sibling elements hold.
        None when the container itself is stored into or its origin is not a display."""
        out = set()
        seen = set()
        stack = [base]
        origin = None
        stored = []
        while stack:
            t = stack.pop()
            if t.id in seen:
                continue
            seen.add(t.id)
            if t.op == "upd":
                key = t.a[2]
                if key.op != "at" or key.a[0].op != "sub":
                    return None
                j = key.a[0].a[1]
                if not (j.op == "const" and isinstance(j.a[0], (int, float)) and not isinstance(j.a[0], bool)):
                    return None
                stored.append((int(j.a[0]), t.a[3]))
                stack.append(t.a[0])
            elif t.op == "loopvar":
                stack.append(t.a[2])
                body = self._loop_body(f, t.a[0], t.a[1])
                if body is not None:
                    stack.append(body)
            elif t.op == "loop":
                stack.append(t.a[2])
                stack.append(t.a[3])
            elif t.op == "ite":
                stack.append(t.a[1])
                stack.append(t.a[2])
            elif t.op == "list":
                if origin is not None and origin is not t:
                    return None
                if not (-len(t.a) <= k < len(t.a)) or any(x.op == "star" for x in t.a):
                    return None
                origin = t
            else:
                return None
        if origin is None:
            return None
        n = len(origin.a)
        for j, v in stored:
            if not (-n <= j < n):
                return None
            if j % n == k % n and contents:
                out |= self.roots(v, f)
        if not contents:
            return set(self.ident(origin.a[k], f))
        return out | set(self.roots(origin.a[k], f))

    def _loop_body(self, f, lid, name):
        key = f.qual
        tab = self._loops.get(key)
        if tab is None:
            tab = {}
            s = self.S.get(f.qual)
            seen = set()
            stack = [r.term for r in s.returns]
            for x in s.sites:
                for v in x.d.values():
                    if hasattr(v, "op") and hasattr(v, "id"):
                        stack.append(v)
            if s.final_env:
                stack.extend(v for v in s.final_env.values() if hasattr(v, "op") and hasattr(v, "id"))
            for t0 in stack:
                for x in tm.walk(t0):
                    if x.id in seen:
                        continue
                    seen.add(x.id)
                    if x.op == "loop":
                        tab[(x.a[0], x.a[1])] = x.a[3]
            self._loops[key] = tab
        return tab.get((lid, name))

    def ndim(self, t, f, depth=0):
        """number of array dimensions where the numpydoc shape of a parameter and the indexing say so, else None"""
        if depth > 20:
            return None
        if t.op == "param":
            for n, ty, _ in f.docinfo["params"]:
                if t.a[0] in [x.strip() for x in n.split(",")]:
                    m = re.search(r"shape\s*=\s*\(([^)]*)\)", ty)
                    if m and "ndarray" in ty:
                        dims = [d for d in m.group(1).split(",") if d.strip()]
                        return len(dims)
            return None
        if t.op == "sub":
            b = self.ndim(t.a[0], f, depth + 1)
            if b is None:
                return None
            idx = t.a[1]
            items = list(idx.a) if idx.op == "tuple" else [idx]
            for it in items:
                if it.op == "slice":
                    continue
                if it.op == "const" and isinstance(it.a[0], (int, float)) and not isinstance(it.a[0], bool):
                    b -= 1
                elif it.op == "idx":
                    b -= 1
                else:
                    return None
            return b if b >= 0 else None
        if t.op == "iter":
            b = self.ndim(t.a[0], f, depth + 1)
            return None if b is None or b < 1 else b - 1
        return None

    def _is_fancy(self, idx):
        """Boolean-mask / integer-array indexing copies; slices, ints, newaxis view."""
        if idx.op == "tuple":
            return any(self._is_fancy(x) for x in idx.a)
        if idx.op in ("cmp", "bool", "list", "comp"):
            return True
        if idx.op in ("upd", "loop", "loopvar"):
            # a mask built up by stores: what it was created as decides (np.ones(n, dtype=bool), a comparison, ...)
            o = idx
            for _ in range(40):
                if o.op == "upd":
                    o = o.a[0]
                elif o.op in ("loop", "loopvar"):
                    o = o.a[2]
                else:
                    break
            if o.op == "call" and tm.callee_name(o.a[0]) in ("np.ones", "np.zeros", "np.empty", "np.full", "np.ones_like", "np.zeros_like"):
                dt = dict(o.a[2]).get("dtype")
                if dt is not None and ((dt.op == "builtin" and dt.a[0] == "bool") or (dt.op == "ext" and dt.a[0] in ("np.bool_", "np.bool")) or (dt.op == "const" and dt.a[0] in ("bool",))):
                    return True
            return o is not idx and self._is_fancy(o)
        if idx.op == "call":
            n = tm.callee_name(idx.a[0])
            if n in ("np.where", "np.flatnonzero", "np.nonzero", "np.argsort", "np.logical_and", "np.logical_or", "np.logical_not", "np.ix_", "np.array", "np.arange", "astype", "np.any", "np.all", "np.isnan", "np.isfinite", "np.argwhere"):
                return True
        if idx.op == "un" and idx.a[0] == "~":
            return True
        if idx.op == "ite":
            return self._is_fancy(idx.a[1]) and self._is_fancy(idx.a[2])
        return False

    def _is_list(self, base, f):
        b = base
        while b.op in ("upd", "loopvar", "loop"):
            b = b.a[0] if b.op == "upd" else b.a[2]
        if b.op == "list" or (b.op == "comp" and b.a[0] == "list"):
            return True
        if b.op == "call" and tm.callee_name(b.a[0]) in ("builtins.list", "builtins.sorted"):
            return True
        if b.op == "sub" and b.a[1].op == "slice":
            return self._is_list(b.a[0], f)
        if b.op == "ite":
            return self._is_list(b.a[1], f) and self._is_list(b.a[2], f)
        if b.op == "param":
            return self.param_kind(f, b.a[0]) == "list"
        return False

    def _call_roots(self, t, f):
        fn, args, kw = t.a
        name = tm.callee_name(fn)
        if fn.op in ("func", "localfunc"):
            if name == "util.filter_kwargs":
                return set()
            rs = self.ret.get(name, set())
            out = set()
            if not rs:
                return out
            g = self.P.func(name) if self.P.has_func(name) else None
            if g is None:
                return out
            for r in rs:
                if r[0] == "g":
                    out.add(r)
                else:
                    a = self._bound(g, r[1], args, kw)
                    if a is not None:
                        out |= self.roots(a, f)
            return out
        if name is None:
            return set()
        if name in VIEW_CALLS and args:
            return set(self.roots(args[0], f))
        if name in ELEMENT_CALLS:
            out = set()
            for a in args:
                out |= self.roots(a, f)
            return out
        if name in ELEMENT_METHODS and args:
            return set(self.roots(args[0], f))
        if name in COPY_FALSE_CALLS and args:
            for k, v in kw:
                if k == "copy" and tm.is_const(v, False):
                    return set(self.roots(args[0], f))
            return set()
        return set()

    def _bound(self, g, pname, args, kw):
        for k, v in kw:
            if k == pname:
                return v
        if pname in g.params:
            i = g.params.index(pname)
            if i < len(args) and not any(a.op == "star" for a in args[: i + 1]):
                return args[i]
        return None

    # --------------------------------------------------------------- solve
    def direct_mutations(self, f):
        """[(site, roots)] of mutation sites in f that may write a param/global."""
        out = []
        s = self.S.get(f.qual)
        for m in s.by_kind("mutate"):
            old = m.old
            if m.how == "aug":
                # name += v rebinding for immutable values: only arrays/lists are written in place
                if self._is_value_typed(old, f):
                    continue
            rs = self.ident(old, f)
            if rs:
                out.append((m, rs))
        return out

    def _is_value_typed(self, old, f):
        # numeric accumulators and strings: built from constants / arithmetic / formatting
        for x in self._alts(old):
            if x.op in ("const", "bin", "un", "cmp", "fstr", "idx"):
                continue
            if x.op == "param" and self.param_kind(f, x.a[0]) == "immutable":
                continue
            if x.op == "call" and tm.callee_name(x.a[0]) in ("builtins.len", "builtins.float", "builtins.int", "builtins.str", "np.sum", "np.max", "np.min", "np.mean"):
                continue
            if self._scalar_table_element(x):
                continue
            return False
        return True

    def _scalar_table_element(self, x):
        """TABLE[k] / TABLE.get(k[, d]) of a module-level table whose values are all numbers, strings or None:
        `v = TABLE.get(k); v += 1` re-binds v, it does not write the table"""
        tab = None
        if x.op == "sub":
            tab = x.a[0]
        elif x.op == "call" and tm.callee_name(x.a[0]) == ".get" and x.a[1]:
            tab = x.a[1][0]
        if tab is None or tab.op != "glob":
            return False
        try:
            from .constfold import fold

            v = fold(self.S.glob_terms.get(tab.a[0]), self.ctx, {"__module__": tab.a[0].split(".")[0]})
        except Exception:
            return False
        if not isinstance(v, dict) or not v:
            return False
        return all(z is None or isinstance(z, (int, float, str, bool)) for z in v.values())

    def _alts(self, t):
        out = []
        seen = set()

        def rec(x):
            if x.id in seen:
                return
            seen.add(x.id)
            if x.op == "ite":
                rec(x.a[1])
                rec(x.a[2])
            elif x.op == "loop":
                rec(x.a[2])
                rec(x.a[3])
            elif x.op == "loopvar":
                rec(x.a[2])
            else:
                out.append(x)

        rec(t)
        return out

    def solve(self):
        funcs = self.P.all_funcs(include_new=True)
        for f in funcs:
            self.mod[f.qual] = {}
            self.ret[f.qual] = set()
        changed = True
        while changed and self.rounds < 40:
            changed = False
            self.rounds += 1
            self._memo = {}
            for f in funcs:
                s = self.S.get(f.qual)
                # RET
                rs = set()
                for r in s.returns:
                    rs |= self.roots(r.term, f)
                for y in s.by_kind("yield"):
                    rs |= self.roots(y.term, f)
                if rs != self.ret[f.qual]:
                    self.ret[f.qual] = rs
                    changed = True
                # MOD: direct
                mod = dict(self.mod[f.qual])
                for m, roots in self.direct_mutations(f):
                    for r in roots:
                        mod.setdefault(r, ("direct", m, None))
                # MOD: through calls
                for c in s.calls():
                    if c.fn is None or c.fn.op not in ("func", "localfunc"):
                        continue
                    callee = tm.callee_name(c.fn)
                    cm = self.mod.get(callee)
                    if not cm:
                        continue
                    g = self.P.func(callee)
                    for r, wit in list(cm.items()):
                        if r[0] == "g":
                            mod.setdefault(r, ("call", c, callee))
                            continue
                        a = self._bound(g, r[1], c.args, c.kw)
                        if a is None:
                            # via **kwargs / star: not modelled
                            continue
                        for rr in self.roots(a, f):
                            mod.setdefault(rr, ("call", c, callee))
                if set(mod) != set(self.mod[f.qual]):
                    self.mod[f.qual] = mod
                    changed = True
        return self
