"""Abstract arity of returned values (C03.ARITY / C19.ARITY).

Lattice: ('tuple', n) | ('list', n) | 'scalar' | None (unknown).  Only *known*
arities are ever compared, so an expression outside the table can never cause a
report."""

from __future__ import annotations

from . import terms as tm

SCALAR_CALLS = {
    "np.sum",
    "np.mean",
    "np.median",
    "np.max",
    "np.min",
    "np.std",
    "np.log2",
    "np.log",
    "np.log10",
    "np.sqrt",
    "np.exp",
    "builtins.float",
    "builtins.int",
    "builtins.bool",
    "builtins.len",
    "builtins.min",
    "builtins.max",
    "builtins.sum",
    "np.abs",
    "np.dot",
    "np.nanmean",
    "np.array",
    "np.asarray",
    "np.zeros",
    "np.ones",
    "np.empty",
    "np.arange",
    "np.expand_dims",
    "np.unique",
}

# flag-correlated returns: reviewed table (DESIGN C03.ARITY)
FLAG_CORRELATED = {
    "separation._bss_decomp_mtifilt_images": "6 values iff Gj and G are passed, else 4",
    "separation._project_images": "2 values iff G is passed, else 1",
    "util.sort_labeled_intervals": "2 values iff labels is passed, else 1",
}


class Arity(object):
    def __init__(self, ctx):
        self.ctx = ctx
        self.memo = {}
        self.stack = set()

    def of_term(self, t, depth=0):
        if depth > 40:
            return None
        op = t.op
        if op == "tuple":
            if any(x.op == "star" for x in t.a):
                return None
            return ("tuple", len(t.a))
        if op == "list" and not t.a:
            return None  # an empty list literal: nothing to unpack, no arity claim
        if op == "list":
            if any(x.op == "star" for x in t.a):
                return None
            return ("list", len(t.a))
        if op == "const":
            return "scalar"
        if op in ("bin", "un", "cmp", "bool"):
            return "scalar"
        if op == "ite":
            a = self.of_term(t.a[1], depth + 1)
            b = self.of_term(t.a[2], depth + 1)
            return a if a == b else None
        if op == "glob":
            g = self.ctx.S.glob_terms.get(t.a[0])
            if g is not None and g is not t:
                return self.of_term(g, depth + 1)
            return None
        if op == "call":
            name = tm.callee_name(t.a[0])
            if name is None:
                return None
            if name in SCALAR_CALLS:
                return "scalar"
            if t.a[0].op in ("func", "localfunc"):
                return self.of_func(name)
            return None
        if op == "sub":
            # component k of a callee's tuple
            base, idx = t.a
            if base.op == "call" and t.a[1].op == "const" and base.a[0].op in ("func", "localfunc"):
                name = tm.callee_name(base.a[0])
                k = idx.a[0]
                if isinstance(k, float):
                    comps = self.components(name)
                    if comps is not None and -len(comps) <= int(k) < len(comps):
                        return comps[int(k)]
            return None
        if op == "comp":
            # [f(x) for x in <value of known length>] keeps the length
            kind, elt, iters, conds = t.a[0], t.a[1], t.a[2], t.a[3]
            if kind == "list" and len(iters) == 1 and not conds:
                a = self.of_term(iters[0], depth + 1)
                if isinstance(a, tuple):
                    return ("list", a[1])
            return None
        return None

    def returns_of(self, qual):
        """[(return site, arity)] for a repo function."""
        if not self.ctx.program.has_func(qual):
            return None
        s = self.ctx.S.get(qual)
        out = []
        for r in s.returns:
            out.append((r, self.of_term(r.term)))
        return out

    def of_func(self, qual):
        if qual in self.memo:
            return self.memo[qual]
        if qual in self.stack:
            return None
        self.stack.add(qual)
        try:
            rets = self.returns_of(qual)
            res = None
            if rets:
                ars = {a for _, a in rets}
                if len(ars) == 1:
                    res = next(iter(ars))
            self.memo[qual] = res
            return res
        finally:
            self.stack.discard(qual)

    def components(self, qual):
        """Arity of each component when the function returns an n-tuple on every path."""
        rets = self.returns_of(qual)
        if not rets:
            return None
        n = None
        comps = None
        for r, a in rets:
            if not (isinstance(a, tuple) and a[0] == "tuple"):
                return None
            cur = self._comps_of_term(r.term)
            if cur is None or len(cur) != a[1]:
                cur = [None] * a[1]
            if n is None:
                n = a[1]
                comps = cur
            elif n != a[1]:
                return None
            else:
                comps = [c if c == d else None for c, d in zip(comps, cur)]
        return comps

    def _comps_of_term(self, t, depth=0):
        if depth > 20:
            return None
        if t.op == "tuple":
            return [self.of_term(x) for x in t.a]
        if t.op == "call" and t.a[0].op in ("func", "localfunc"):
            name = tm.callee_name(t.a[0])
            if name in self.stack:
                return None
            self.stack.add(name)
            try:
                return self.components(name)
            finally:
                self.stack.discard(name)
        if t.op == "ite":
            a = self._comps_of_term(t.a[1], depth + 1)
            b = self._comps_of_term(t.a[2], depth + 1)
            if a is None or b is None or len(a) != len(b):
                return None
            return [x if x == y else None for x, y in zip(a, b)]
        return None


def length(a):
    """Comparable length class of an arity: n for tuple/list of n, 0 for scalar, None unknown."""
    if a == "scalar":
        return 0
    if isinstance(a, tuple):
        return a[1]
    return None
