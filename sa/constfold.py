"""Constant folding of module-level table expressions (a tiny concrete evaluator over
*terms*, for literals, list/dict/set/tuple constructors, zip, dict(), set(), list
comprehensions over constant lists, ``[x] * n`` and np.array of a literal).  Used to read
tables such as chord.SCALE_DEGREES = _scale_degrees() without importing the module."""

from __future__ import annotations

from . import terms as tm


class NotConstant(Exception):
    pass


class NpArray(object):
    def __init__(self, data):
        self.data = data

    def __eq__(self, other):
        return isinstance(other, NpArray) and self.data == other.data

    def __repr__(self):
        return "array(%r)" % (self.data,)


def fold(t, ctx, env=None, depth=0):
    if depth > 60:
        raise NotConstant("too deep")
    env = env or {}
    op = t.op
    if op == "const":
        v = t.a[0]
        if isinstance(v, float) and v == int(v) and abs(v) < 1e15:
            return int(v)
        return v
    if op == "un" and t.a[0] == "-":
        return -fold(t.a[1], ctx, env, depth + 1)
    if op in ("tuple", "list", "set"):
        items = [fold(x, ctx, env, depth + 1) for x in t.a]
        if op == "tuple":
            return tuple(items)
        if op == "list":
            return items
        return set(items)
    if op == "dict":
        out = {}
        for kv in t.a:
            k, v = kv.a
            out[fold(k, ctx, env, depth + 1)] = fold(v, ctx, env, depth + 1)
        return out
    if op == "glob":
        g = ctx.S.glob_terms.get(t.a[0])
        if g is None or g is t:
            raise NotConstant(t.a[0])
        e2 = dict(env)
        e2["__module__"] = t.a[0].split(".")[0]
        return fold(g, ctx, e2, depth + 1)
    if op == "loop":
        # a module-level `for` that fills a table: run it on the folded iterable
        lid, name, init, body = t.a
        it = getattr(ctx.S, "_modloops", {}).get((env.get("__module__"), lid))
        if it is None:
            raise NotConstant("loop %s outside module level" % lid)
        cur = fold(init, ctx, env, depth + 1)
        seq = fold(it, ctx, env, depth + 1)
        n = 0
        for v in seq:
            n += 1
            if n > 5000:
                raise NotConstant("loop too long")
            e2 = dict(env)
            e2[tm.mk("iter", it, lid).id] = v
            e2[("lv", lid, name)] = cur
            cur = fold(body, ctx, e2, depth + 1)
        return cur
    if op == "loopvar":
        k = ("lv", t.a[0], t.a[1])
        if k in env:
            return env[k]
        raise NotConstant("loop variable outside its loop")
    if op == "upd":
        base, how, key, val = t.a
        b = fold(base, ctx, env, depth + 1)
        if how == "setitem" and isinstance(b, dict):
            out = dict(b)
            out[fold(key, ctx, env, depth + 1)] = fold(val, ctx, env, depth + 1)
            return out
        if how == "setitem" and isinstance(b, list):
            out = list(b)
            out[fold(key, ctx, env, depth + 1)] = fold(val, ctx, env, depth + 1)
            return out
        if how == "method:append" and isinstance(b, list):
            v = fold(val, ctx, env, depth + 1)
            return list(b) + [v[0] if isinstance(v, tuple) and len(v) == 1 else v]
        if how == "method:update" and isinstance(b, dict):
            v = fold(val, ctx, env, depth + 1)
            out = dict(b)
            out.update(v[0] if isinstance(v, tuple) and len(v) == 1 else v)
            return out
        if how == "method:setdefault" and isinstance(b, dict):
            v = fold(val, ctx, env, depth + 1)
            if isinstance(v, tuple) and len(v) == 2:
                out = dict(b)
                out.setdefault(v[0], v[1])
                return out
        raise NotConstant("update %s" % how)
    if op == "param":
        k = ("param", t.a[0])
        if k in env:
            return env[k]
        raise NotConstant("parameter %s" % t.a[0])
    if op == "cmp":
        o, l, r = t.a
        lv, rv = fold(l, ctx, env, depth + 1), fold(r, ctx, env, depth + 1)
        if isinstance(lv, NpArray) or isinstance(rv, NpArray):
            raise NotConstant("array comparison")
        if o == "in":
            return lv in rv
        if o == "notin":
            return lv not in rv
        if o == "==":
            return lv == rv
        if o == "!=":
            return lv != rv
        if o == "<":
            return lv < rv
        if o == "<=":
            return lv <= rv
        if o == "is":
            return lv is rv or (lv is None and rv is None)
        if o == "isnot":
            return not (lv is rv or (lv is None and rv is None))
        raise NotConstant("comparison " + o)
    if op == "ite":
        return fold(t.a[1], ctx, env, depth + 1) if fold(t.a[0], ctx, env, depth + 1) else fold(t.a[2], ctx, env, depth + 1)
    if op in ("iter", "idx"):
        key = t.id
        if key in env:
            return env[key]
        raise NotConstant("unbound iteration variable")
    if op == "sub":
        base = fold(t.a[0], ctx, env, depth + 1)
        idx = t.a[1]
        if idx.op == "slice":
            lo, hi, st = [None if (x.op == "const" and x.a[0] is None) else fold(x, ctx, env, depth + 1) for x in idx.a]
            if isinstance(base, NpArray):
                return NpArray(base.data[lo:hi:st])
            return base[lo:hi:st]
        k = fold(idx, ctx, env, depth + 1)
        if isinstance(base, NpArray):
            return base.data[k]
        return base[k]
    if op == "bin":
        o, l, r = t.a
        lv, rv = fold(l, ctx, env, depth + 1), fold(r, ctx, env, depth + 1)
        if o == "*":
            return lv * rv
        if o == "+":
            return lv + rv
        if o == "-":
            return lv - rv
        if o == "%":
            return lv % rv
        if o == "//":
            return lv // rv
        if o == "**":
            return lv**rv
        raise NotConstant("operator " + o)
    if op == "call":
        name = tm.callee_name(t.a[0])
        args, kw = t.a[1], t.a[2]
        if t.a[0].op == "func" and not kw:
            # inline a table builder: a helper with one return whose arguments fold
            s = ctx.S.get(name)
            if len(s.returns) == 1 and len(args) == len(s.func.params) and not s.func.kwarg and not s.func.vararg:
                e2 = {"__module__": name.split(".")[0]}
                for pn, a_ in zip(s.func.params, args):
                    e2[("param", pn)] = fold(a_, ctx, env, depth + 1)
                return fold(s.returns[0].term, ctx, e2, depth + 1)
            raise NotConstant("call of " + name)
        if name in ("builtins.int", "builtins.float", "builtins.bool", "builtins.abs") and len(args) == 1 and not kw:
            v = fold(args[0], ctx, env, depth + 1)
            if isinstance(v, NpArray):
                raise NotConstant("array conversion")
            return {"builtins.int": int, "builtins.float": float, "builtins.bool": bool, "builtins.abs": abs}[name](v)
        if name in (".items", ".keys", ".values") and len(args) == 1 and not kw:
            d = fold(args[0], ctx, env, depth + 1)
            if isinstance(d, dict):
                return list(getattr(d, name[1:])())
            raise NotConstant("method %s of a non-dict" % name)
        if name == ".get" and len(args) in (2, 3) and not kw:
            d = fold(args[0], ctx, env, depth + 1)
            if isinstance(d, dict):
                return d.get(fold(args[1], ctx, env, depth + 1), fold(args[2], ctx, env, depth + 1) if len(args) == 3 else None)
        if name == "builtins.sorted" and len(args) == 1 and not kw:
            return sorted(fold(args[0], ctx, env, depth + 1))
        if name == "builtins.enumerate" and len(args) in (1, 2) and not kw:
            return list(enumerate(fold(args[0], ctx, env, depth + 1), *( [fold(args[1], ctx, env, depth + 1)] if len(args) == 2 else [])))
        if name == "builtins.dict" and len(args) == 1 and not kw:
            return dict(fold(args[0], ctx, env, depth + 1))
        if name == "builtins.dict" and not args:
            return {k: fold(v, ctx, env, depth + 1) for k, v in kw}
        if name in ("builtins.set", "builtins.frozenset"):
            if not args:
                return set()
            return set(fold(args[0], ctx, env, depth + 1))
        if name == "builtins.list" and len(args) <= 1:
            return list(fold(args[0], ctx, env, depth + 1)) if args else []
        if name == "builtins.tuple" and len(args) <= 1:
            return tuple(fold(args[0], ctx, env, depth + 1)) if args else ()
        if name == "builtins.zip":
            return list(zip(*[fold(a, ctx, env, depth + 1) for a in args]))
        if name == "builtins.range":
            return list(range(*[fold(a, ctx, env, depth + 1) for a in args]))
        if name == "builtins.len" and len(args) == 1:
            return len(fold(args[0], ctx, env, depth + 1))
        if name == "builtins.str" and len(args) == 1:
            return str(fold(args[0], ctx, env, depth + 1))
        if name == "np.array" and len(args) == 1:
            v = fold(args[0], ctx, env, depth + 1)
            if isinstance(v, NpArray):
                return v
            return NpArray(list(v))
        if name in ("np.zeros", "np.ones") and len(args) == 1:
            n = fold(args[0], ctx, env, depth + 1)
            if isinstance(n, (tuple, list)) and len(n) == 1:
                n = n[0]
            if isinstance(n, float) and n.is_integer():
                n = int(n)
            if isinstance(n, int):
                return NpArray([0 if name == "np.zeros" else 1] * n)
        if name == "np.full" and len(args) == 2:
            n = fold(args[0], ctx, env, depth + 1)
            v = fold(args[1], ctx, env, depth + 1)
            if isinstance(n, (tuple, list)) and len(n) == 1:
                n = n[0]
            if isinstance(n, float) and n.is_integer():
                n = int(n)
            if isinstance(v, float) and v.is_integer():
                v = int(v)
            if isinstance(n, int) and isinstance(v, (int, float)):
                return NpArray([v] * n)
        raise NotConstant("call of %s" % name)
    if op == "comp":
        kind, elt, iters, conds, cid = t.a
        if not 1 <= len(iters) <= 3:
            raise NotConstant("comprehension with %d for clauses" % len(iters))
        out = []

        def rec(k, e):
            if k == len(iters):
                if all(fold(c, ctx, e, depth + 1) for c in conds):
                    out.append(fold(elt, ctx, e, depth + 1))
                return
            it = iters[k]
            if it.op == "call" and tm.callee_name(it.a[0]) == "builtins.enumerate" and it.a[1]:
                # enumerate(X[, start]): the counter is the term idx(cid), the element iter(X, cid)
                X = it.a[1][0]
                st_t = it.a[1][1] if len(it.a[1]) > 1 else dict(it.a[2]).get("start")
                st_v = fold(st_t, ctx, e, depth + 1) if st_t is not None else 0
                for i_, v in enumerate(fold(X, ctx, e, depth + 1), int(st_v)):
                    e2 = dict(e)
                    e2[tm.mk("idx", cid).id] = i_
                    e2[tm.mk("iter", X, cid).id] = v
                    rec(k + 1, e2)
                return
            # elements: zip of constant lists -> the comprehension binds iter(zarg_k, cid); plain iterables bind iter(it, cid)
            if it.op == "call" and tm.callee_name(it.a[0]) == "builtins.zip":
                cols = [fold(a, ctx, e, depth + 1) for a in it.a[1]]
                for row in zip(*cols):
                    e2 = dict(e)
                    for a, v in zip(it.a[1], row):
                        e2[tm.mk("iter", a, cid).id] = v
                    rec(k + 1, e2)
            else:
                seq = fold(it, ctx, e, depth + 1)
                for v in seq:
                    e2 = dict(e)
                    e2[tm.mk("iter", it, cid).id] = v
                    rec(k + 1, e2)

        rec(0, dict(env))
        if kind == "list" or kind == "gen":
            return out
        if kind == "set":
            return set(out)
        if kind == "dict":
            return dict(out)
    raise NotConstant(op)


def table(ctx, qual, rule):
    """Folded value of a module-level name, AnalysisError if it is not a constant table."""
    from .model import AnalysisError

    t = ctx.S.glob_terms.get(qual)
    if t is None:
        raise AnalysisError(rule, "module constant %s vanished" % qual)
    try:
        return fold(t, ctx, {"__module__": qual.split(".")[0]})
    except NotConstant as e:
        raise AnalysisError(rule, "module constant %s is not a foldable table (%s)" % (qual, e))
    except (KeyError, IndexError, TypeError, ValueError, ZeroDivisionError) as e:
        raise AnalysisError(rule, "module constant %s does not fold (%r)" % (qual, e))
