"""Replay of the recorded corpora in the thorough tier (DESIGN section 6), in memory.

seeded/<Cnn>-<k>/patch.diff : independently written changes that break property Cnn - the check must report a violation;
refactors/<Rnn>-<k>/patch.diff : independently written behaviour-preserving rewrites - the check must stay silent.

Each unified diff is applied to the *current* sources of /repo in memory (hunks are located by their removed /
context lines; a patch whose lines no longer occur is skipped and counted).  Nothing is written, mir_eval is not
imported.  Like the mutant self-test the result is evidence only: it never decides the exit status of a check."""

from __future__ import annotations

import importlib
import os
import re
import time

from . import report

VERIF = os.path.dirname(os.path.dirname(os.path.abspath(__file__)))


def parse_patch(text):
    """{module name: [(old block, new block)]} for files mir_eval/<module>.py"""
    files = {}
    cur = None
    hunk = None
    for line in text.split("\n"):
        if line.startswith("diff --git"):
            cur = None
            hunk = None
            continue
        if line.startswith("+++ "):
            m = re.match(r"\+\+\+ b/mir_eval/(\w+)\.py", line)
            cur = m.group(1) if m else None
            if cur is not None:
                files.setdefault(cur, [])
            hunk = None
            continue
        if line.startswith("--- ") or line.startswith("index ") or line.startswith("new file") or line.startswith("deleted file"):
            continue
        if line.startswith("@@"):
            if cur is not None:
                m = re.match(r"@@ -(\d+)", line)
                hunk = ([], [], int(m.group(1)) if m else 1)
                files[cur].append(hunk)
            continue
        if hunk is None or cur is None:
            continue
        if line.startswith("+"):
            hunk[1].append(line[1:])
        elif line.startswith("-"):
            hunk[0].append(line[1:])
        elif line.startswith(" ") or line == "":
            hunk[0].append(line[1:] if line else "")
            hunk[1].append(line[1:] if line else "")
        elif line.startswith("\\"):
            continue
    return files


def apply_patch(text, sources):
    """-> {module: new source} or None when some hunk does not apply to the current source"""
    out = {}
    for modname, hunks in parse_patch(text).items():
        if modname not in sources:
            return None
        lines = out.get(modname, sources[modname]).split("\n")
        for old, new, at in hunks:
            old, new = list(old), list(new)
            # trailing empty context produced by the split of the patch text
            while old and new and old[-1] == "" and new[-1] == "" and len(old) > 1 and len(new) > 1 and False:
                old.pop()
                new.pop()
            pos = [i for i in range(len(lines) - len(old) + 1) if lines[i : i + len(old)] == old] if old else []
            if len(pos) > 1:
                pos = [min(pos, key=lambda i: abs(i - (at - 1)))]  # several identical blocks: the one the hunk header points at
            if len(pos) != 1:
                # tolerate a trailing blank context line at end of hunk
                o2, n2 = list(old), list(new)
                while o2 and n2 and o2[-1] == "" and n2[-1] == "":
                    o2.pop()
                    n2.pop()
                pos = [i for i in range(len(lines) - len(o2) + 1) if lines[i : i + len(o2)] == o2] if o2 else []
                if len(pos) > 1:
                    pos = [min(pos, key=lambda i: abs(i - (at - 1)))]
                if len(pos) != 1:
                    return None
                old, new = o2, n2
            i = pos[0]
            lines[i : i + len(old)] = new
        src = "\n".join(lines)
        try:
            compile(src, modname, "exec")
        except SyntaxError:
            return None
        out[modname] = src
    return out or None


def _run(prop, mod, overrides, base_viol):
    ctx = report.Ctx(overrides=overrides)
    obs, errors = report.run_rules(prop, mod.RULES, ctx)
    viol = sorted({(o.rule, o.construct) for o in obs if not o.ok} - set(base_viol))
    if viol:
        return "fired", viol[:3]
    if errors:
        return "error", [e[0] for e in errors][:3]
    return "silent", None


def _meta(d):
    import json

    try:
        with open(os.path.join(d, "meta.json")) as fh:
            return json.load(fh)
    except Exception:
        return {}


def run_for_property(prop, mod, ctx, max_seconds=900):
    t0 = time.time()
    base = {n: m.source for n, m in ctx.program.modules.items()}
    bobs, _ = report.run_rules(prop, mod.RULES, ctx)
    base_viol = frozenset((o.rule, o.construct) for o in bobs if not o.ok)
    res = {"seeds_total": 0, "seeds_fired": 0, "seeds_skipped": 0, "seeds_not_fired": [], "refactors_total": 0, "refactors_silent": 0, "refactors_skipped": 0, "refactors_alarmed": []}
    sd = os.path.join(VERIF, "seeded")
    for name in sorted(os.listdir(sd)) if os.path.isdir(sd) else []:
        if not name.startswith(prop + "-"):
            continue
        p = os.path.join(sd, name, "patch.diff")
        if not os.path.exists(p):
            continue
        res["seeds_total"] += 1
        ov = apply_patch(open(p).read(), base)
        if ov is None:
            res["seeds_skipped"] += 1
            continue
        st, det = _run(prop, mod, ov, base_viol)
        if st == "fired":
            res["seeds_fired"] += 1
        elif st == "error" and _meta(os.path.join(sd, name)).get("unreadable"):
            res["seeds_unreadable"] = res.get("seeds_unreadable", 0) + 1  # documented: the check answers "cannot read"
        else:
            res["seeds_not_fired"].append({"id": name, "got": st, "detail": str(det)[:200]})
    rd = os.path.join(VERIF, "refactors")
    for name in sorted(os.listdir(rd)) if os.path.isdir(rd) else []:
        p = os.path.join(rd, name, "patch.diff")
        if not os.path.exists(p):
            continue
        if time.time() - t0 > max_seconds:
            break
        res["refactors_total"] += 1
        ov = apply_patch(open(p).read(), base)
        if ov is None:
            res["refactors_skipped"] += 1
            continue
        st, det = _run(prop, mod, ov, base_viol)
        if st == "silent":
            res["refactors_silent"] += 1
        elif st == "error" and prop in (_meta(os.path.join(rd, name)).get("unreadable_by") or {}):
            res["refactors_unreadable"] = res.get("refactors_unreadable", 0) + 1  # documented "cannot read"
        else:
            res["refactors_alarmed"].append({"id": name, "got": st, "detail": str(det)[:200]})
    res["wall_s"] = round(time.time() - t0, 2)
    return res


if __name__ == "__main__":
    import sys

    for prop in sys.argv[1:]:
        mod = importlib.import_module("sa.rules.%s" % prop.lower())
        print(prop, run_for_property(prop, mod, report.Ctx()))
