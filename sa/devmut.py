"""Developer helper: run a property's rules on an in-memory edited copy of one module.

usage: python -m sa.devmut C03 module 'old text' 'new text' [occurrence]
"""
import importlib
import sys

from . import report
from .model import Program


def run(prop, overrides, quiet=False):
    mod = importlib.import_module("sa.rules.%s" % prop.lower())
    ctx = report.Ctx(overrides=overrides)
    obs, errors = report.run_rules(prop, mod.RULES, ctx)
    viol = sorted({(o.rule, o.construct, o.what, o.loc) for o in obs if not o.ok})
    return viol, errors


def edit(modname, old, new, occ=None):
    src = Program().modules[modname].source
    n = src.count(old)
    if n == 0:
        raise SystemExit("pattern not found")
    if occ is None:
        if n != 1:
            raise SystemExit("pattern occurs %d times; give an occurrence index" % n)
        return src.replace(old, new)
    parts = src.split(old)
    return old.join(parts[: occ + 1]) + new + old.join(parts[occ + 1 :])


if __name__ == "__main__":
    prop, modname, old, new = sys.argv[1:5]
    occ = int(sys.argv[5]) if len(sys.argv) > 5 else None
    src = edit(modname, old, new, occ)
    compile(src, modname, "exec")
    for p in prop.split(","):
        viol, errors = run(p, {modname: src})
        print(p, "violations:", len(viol), "errors:", len(errors))
        for v in viol:
            print("  VIOL", v[0], v[1], v[3], "-", v[2][:160])
        for e in errors:
            print("  ERR", e)
