"""Finite models of guards (DESIGN 3.9).

A guard that touches its operands only through comparisons (==, !=, <, <=, in, is) with constants and with
each other is a Boolean function of a *finite* set of orderings.  `Model` collects the compared operand
terms ("variables") and the constants they are compared with, builds a small domain that contains every
constant, a point between / beside them and a fresh "other" value, and evaluates terms in three-valued
logic over the cross product.  Two guards are equivalent iff they agree on every valuation on which both
are defined; a fact set entails a condition iff the condition is true on every valuation satisfying the
facts.  Nothing of the analysed program is executed: the evaluator interprets *terms*.
"""

from __future__ import annotations

import itertools

from . import terms as tm

_OTHER = "\0other"


def _is_num(v):
    return isinstance(v, (int, float)) and not isinstance(v, bool)


class Model(object):
    def __init__(self, terms, max_vars=5, max_points=4096):
        self.vars = []  # operand terms
        self.consts = set()
        self.ok = True
        self.max_points = max_points
        seen = set()
        for t in terms:
            self._collect(t, seen)
        if len(self.vars) > max_vars:
            self.ok = False

    # ------------------------------------------------------------ collection
    def _collect(self, t, seen):
        if t.id in seen:
            return
        seen.add(t.id)
        if t.op == "bool":
            for x in t.a[1:]:
                self._collect(x, seen)
        elif t.op == "un" and t.a[0] == "not":
            self._collect(t.a[1], seen)
        elif t.op == "ite":
            for x in t.a:
                self._collect(x, seen)
        elif t.op == "cmp":
            for x in t.a[1:]:
                self._operand(x)
        elif t.op == "const" or t.op == "undef":
            pass
        else:
            # a bare truth-tested operand
            self._operand(t)

    def _operand(self, x):
        if x.op == "const":
            self.consts.add(_key(x.a[0]))
            return
        if x.op in ("tuple", "list", "set"):
            # membership in a literal collection: its elements are constants or further operands
            for z in x.a:
                self._operand(z)
            return
        if not any(v is x for v in self.vars):
            self.vars.append(x)

    # ---------------------------------------------------------------- domain
    def domain(self):
        nums = sorted({c[1] for c in self.consts if c[0] == "n"})
        pts = []
        if nums:
            pts.append(nums[0] - 1)
            for i, c in enumerate(nums):
                pts.append(c)
                nxt = nums[i + 1] if i + 1 < len(nums) else c + 2
                pts.append((c + nxt) / 2.0)
            pts.append(nums[-1] + 2)
        else:
            pts = [0, 1, 2]
        others = [c[1] for c in self.consts if c[0] != "n"]
        if not others and nums:
            # purely numeric guard: the points beside and between the constants already stand for "any other number"
            return pts
        return pts + others + [_OTHER]

    def valuations(self):
        dom = self.domain()
        n = len(self.vars)
        if not self.ok or len(dom) ** max(n, 1) > self.max_points:
            self.ok = False
            return
        for combo in itertools.product(dom, repeat=n):
            yield dict((self.vars[i].id, combo[i]) for i in range(n))

    # ------------------------------------------------------------ evaluation
    def value(self, t, val):
        """('v', python value) | ('u',) unknown"""
        if t.op == "const":
            return ("v", t.a[0])
        if t.id in val:
            return ("v", val[t.id])
        if t.op in ("tuple", "list", "set"):
            xs = [self.value(z, val) for z in t.a]
            if all(x[0] == "v" for x in xs):
                return ("v", tuple(x[1] for x in xs))
            return ("u",)
        return ("u",)

    def truth(self, t, val):
        """True / False / None (unknown)"""
        if t.op == "const":
            return bool(t.a[0])
        if t.op == "un" and t.a[0] == "not":
            r = self.truth(t.a[1], val)
            return None if r is None else (not r)
        if t.op == "bool":
            rs = [self.truth(x, val) for x in t.a[1:]]
            if t.a[0] == "and":
                if any(r is False for r in rs):
                    return False
                return None if any(r is None for r in rs) else True
            if any(r is True for r in rs):
                return True
            return None if any(r is None for r in rs) else False
        if t.op == "ite":
            c = self.truth(t.a[0], val)
            if c is None:
                a, b = self.truth(t.a[1], val), self.truth(t.a[2], val)
                return a if a == b else None
            return self.truth(t.a[1] if c else t.a[2], val)
        if t.op == "cmp":
            op = t.a[0]
            l, r = self.value(t.a[1], val), self.value(t.a[2], val)
            if l[0] != "v" or r[0] != "v":
                return None
            a, b = l[1], r[1]
            try:
                if op in ("==", "is"):
                    return _eq(a, b)
                if op in ("!=", "isnot"):
                    e = _eq(a, b)
                    return None if e is None else (not e)
                if op in ("in", "notin"):
                    if not isinstance(b, tuple):
                        return None
                    es = [_eq(a, z) for z in b]
                    if any(e is True for e in es):
                        res = True
                    elif any(e is None for e in es):
                        return None
                    else:
                        res = False
                    return res if op == "in" else (not res)
                if op in ("<", "<="):
                    if not (_is_num(a) and _is_num(b)):
                        return None
                    return a < b if op == "<" else a <= b
            except Exception:
                return None
            return None
        v = self.value(t, val)
        if v[0] == "v":
            if v[1] == _OTHER:
                return None
            return bool(v[1])
        return None


def _key(v):
    if _is_num(v):
        return ("n", v)
    return ("o", v)


def _eq(a, b):
    if a == _OTHER or b == _OTHER:
        if a == _OTHER and b == _OTHER:
            return None  # two unknown "other" values may or may not coincide
        return False
    if _is_num(a) != _is_num(b):
        return False if (a is not None and b is not None) or (a is None) != (b is None) else a == b
    return a == b


def equivalent(g1, g2, extra_terms=()):
    """True / False / None (could not decide): do two guards agree on every valuation?"""
    m = Model([g1, g2] + list(extra_terms))
    n = 0
    for val in m.valuations():
        a, b = m.truth(g1, val), m.truth(g2, val)
        if a is None or b is None:
            continue
        n += 1
        if a != b:
            return False
    if not m.ok or n == 0:
        return None
    return True


def entails(facts, cond):
    """facts: [(term, polarity)].  True iff cond holds on every valuation that satisfies all evaluable facts
    (facts that cannot be evaluated are ignored - a weaker premise, so a True answer is still sound)."""
    m = Model([f for f, _ in facts] + [cond])
    n = 0
    for val in m.valuations():
        sat = True
        for f, pol in facts:
            r = m.truth(f, val)
            if r is None:
                continue
            if r != pol:
                sat = False
                break
        if not sat:
            continue
        n += 1
        r = m.truth(cond, val)
        if r is not True:
            return False
    if not m.ok or n == 0:
        return None
    return True


def may_be_undef(t, facts):
    """Can the ite-term ``t`` evaluate to its `undef` leaf on a valuation satisfying the facts?
    True / False / None."""
    conds = []

    def leaves(x, path):
        if x.op == "ite":
            leaves(x.a[1], path + [(x.a[0], True)])
            leaves(x.a[2], path + [(x.a[0], False)])
        elif x.op == "undef":
            conds.append(path)

    leaves(t, [])
    if not conds:
        return False
    allterms = [f for f, _ in facts] + [c for p in conds for c, _ in p]
    m = Model(allterms)
    n = 0
    for val in m.valuations():
        sat = True
        for f, pol in facts:
            r = m.truth(f, val)
            if r is not None and r != pol:
                sat = False
                break
        if not sat:
            continue
        n += 1
        for p in conds:
            reach = True
            for c, pol in p:
                r = m.truth(c, val)
                if r is None:
                    reach = None
                elif r != pol:
                    reach = False
                    break
            if reach is True:
                return True
            if reach is None:
                return None
    if not m.ok or n == 0:
        return None
    return False


class Interp(object):
    """Evaluate terms on *given* values of a few operand terms (a decision function over a finite input domain):
    arithmetic (+ - * % //), comparisons, Boolean connectives, conditionals, tuples and `.get` / subscript on
    module-level dict tables (folded by constfold).  Returns UNKNOWN for anything else."""

    UNKNOWN = object()
    RAISES = "\0raises"  # the evaluated expression raises (KeyError / IndexError on a table)

    def __init__(self, ctx=None):
        self.ctx = ctx

    def val(self, t, env):
        U = self.UNKNOWN
        if t.id in env:
            return env[t.id]
        op = t.op
        if op == "const":
            return t.a[0]
        if op in ("tuple", "list", "set"):
            xs = [self.val(z, env) for z in t.a]
            return U if any(x is U for x in xs) else tuple(xs)
        if op == "dict":
            out = {}
            for kv in t.a:
                k, v = self.val(kv.a[0], env), self.val(kv.a[1], env)
                if k is U or v is U:
                    return U
                try:
                    out[k] = v
                except TypeError:
                    return U
            return out
        if op == "glob":
            return self._table(t)
        if op == "bin":
            a, b = self.val(t.a[1], env), self.val(t.a[2], env)
            if a is U or b is U:
                return U
            try:
                o = t.a[0]
                if o == "+":
                    return a + b
                if o == "-":
                    return a - b
                if o == "*":
                    return a * b
                if o == "%":
                    return a % b
                if o == "//":
                    return a // b
                if o == "/":
                    return a / b
            except Exception:
                return U
            return U
        if op == "un":
            a = self.val(t.a[1], env)
            if a is U:
                return U
            if t.a[0] == "not":
                return not a
            if t.a[0] == "-":
                try:
                    return -a
                except Exception:
                    return U
            return U
        if op == "cmp":
            a, b = self.val(t.a[1], env), self.val(t.a[2], env)
            if a is U or b is U:
                return U
            o = t.a[0]
            try:
                if o == "==":
                    return a == b
                if o == "!=":
                    return a != b
                if o == "is":
                    return a is b or (a is None and b is None)
                if o == "isnot":
                    return not (a is b or (a is None and b is None))
                if o == "in":
                    return a in b
                if o == "notin":
                    return a not in b
                if o == "<":
                    return a < b
                if o == "<=":
                    return a <= b
            except Exception:
                return U
            return U
        if op == "bool":
            vals = []
            for x in t.a[1:]:
                v = self.val(x, env)
                if t.a[0] == "and":
                    if v is not U and not v:
                        return v
                else:
                    if v is not U and v:
                        return v
                vals.append(v)
            if any(v is U for v in vals):
                return U
            return vals[-1]
        if op == "ite":
            c = self.val(t.a[0], env)
            if c is U:
                return U
            return self.val(t.a[1] if c else t.a[2], env)
        if op == "call":
            from .rules.common import call_name

            n = call_name(t)
            if n == ".get" and len(t.a[1]) in (2, 3):
                tab = self.val(t.a[1][0], env)
                k = self.val(t.a[1][1], env)
                if tab is U or k is U or not isinstance(tab, dict):
                    return U
                d = self.val(t.a[1][2], env) if len(t.a[1]) == 3 else None
                try:
                    return tab.get(k, d)
                except Exception:
                    return U
            if n in ("builtins.float", "builtins.int", "builtins.bool", "builtins.abs") and len(t.a[1]) == 1:
                a = self.val(t.a[1][0], env)
                if a is U:
                    return U
                try:
                    return {"builtins.float": float, "builtins.int": int, "builtins.bool": bool, "builtins.abs": abs}[n](a)
                except Exception:
                    return U
            return U
        if op == "sub":
            tab = self.val(t.a[0], env)
            if tab is not U and isinstance(tab, (dict, tuple)):
                k = self.val(t.a[1], env)
                if k is U:
                    return U
                try:
                    return tab[int(k) if isinstance(tab, tuple) and isinstance(k, float) else k]
                except Exception:
                    return self.RAISES
            return U
        return U

    def _table(self, t):
        if t.op == "dict":
            return self.val(t, {})
        if t.op == "glob" and self.ctx is not None:
            try:
                from .constfold import fold

                v = fold(self.ctx.S.glob_terms.get(t.a[0]), self.ctx)
                return v if isinstance(v, dict) else self.UNKNOWN
            except Exception:
                return self.UNKNOWN
        return self.UNKNOWN


def decide(returns_with_pc, env, interp):
    """value of the first return whose path condition holds under ``env``: (value,) | None (undecided)"""
    U = interp.UNKNOWN
    for term, conds in returns_with_pc:
        ok = True
        for c, pol in conds:
            v = interp.val(c, env)
            if v is U:
                return None
            if bool(v) != bool(pol):
                ok = False
                break
        if ok:
            v = interp.val(term, env)
            return None if v is U else (v,)
    return None
