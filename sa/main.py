"""./vcheck entry point."""

from __future__ import annotations

import argparse
import importlib
import json
import os
import sys
import time

from . import report
from .model import AnalysisError

PROPS = ["C%02d" % i for i in range(1, 21)]


def main(argv=None):
    ap = argparse.ArgumentParser(prog="vcheck")
    ap.add_argument("prop")
    ap.add_argument("--tier", default=os.environ.get("VERIF_TIER") or "quick", choices=["quick", "thorough"])
    ap.add_argument("--replay", default=None)
    ap.add_argument("--repo", default=None)
    ap.add_argument("--list", action="store_true")
    ap.add_argument("--no-evidence", action="store_true", help="scratch analysis of another tree: write evidence/replay files to a temporary directory instead of /verif/evidence")
    a = ap.parse_args(argv)
    if a.no_evidence:
        import tempfile

        d = tempfile.mkdtemp(prefix="vcheck-scratch-")
        if not os.environ.get("VERIF_KEEP_SCRATCH"):
            import atexit
            import shutil

            atexit.register(shutil.rmtree, d, True)  # scratch analyses leave nothing under /tmp
        report.EVIDENCE_DIR = d
        report.REPLAY_DIR = os.path.join(d, "replay")
    t0 = time.time()
    prop = a.prop
    if prop not in PROPS:
        print("ANALYSIS-ERROR property=%s unknown property" % prop)
        return 2
    try:
        mod = importlib.import_module("sa.rules.%s" % prop.lower())
    except ImportError as e:
        print("ANALYSIS-ERROR property=%s no rule module: %s" % (prop, e))
        return 2
    only = None
    if a.replay:
        try:
            with open(a.replay) as fh:
                only = json.load(fh)["construct"]
        except Exception as e:
            print("ANALYSIS-ERROR property=%s cannot read replay file: %s" % (prop, e))
            return 2
    try:
        ctx = report.Ctx(repo=a.repo, tier=a.tier)
    except AnalysisError as e:
        # the program model itself could not be built: analysis broken, not a violation
        return report.finish(prop, a.tier, [], [(e.rule, e.why)], t0, mod.EXPLANATION, mod.RULE_TEXT)
    except Exception as e:
        return report.finish(prop, a.tier, [], [("PM", "internal error building the program model: %r" % (e,))], t0, mod.EXPLANATION, mod.RULE_TEXT)
    obs, errors = report.run_rules(prop, mod.RULES, ctx, only_construct=only)
    if a.list:
        for o in obs:
            print("%-5s %-22s %-60s %s  %s" % ("ok" if o.ok else "VIOL", o.rule, o.construct, o.loc, o.what))
    extra = {
        "analysed": {
            "modules": sorted(ctx.program.modules),
            "functions": len(ctx.program.all_funcs()),
            "module_digest": ctx.program.digest(),
            "repo": ctx.program.repo,
        }
    }
    selftest = None
    if a.tier == "thorough" and not a.replay:
        try:
            from . import selftest as st

            selftest = st.run_for_property(prop, mod, ctx)
            try:
                from . import corpus_replay as cr

                selftest["corpus_replay"] = cr.run_for_property(prop, mod, ctx)
            except Exception as e:
                selftest["corpus_replay"] = {"error": repr(e)}
        except Exception as e:  # the self-test never decides the exit status
            selftest = {"error": repr(e)}
    return report.finish(prop, a.tier, obs, errors, t0, mod.EXPLANATION, mod.RULE_TEXT, extra=extra, selftest=selftest)


if __name__ == "__main__":
    sys.exit(main())
