"""Role swap with a small transpose algebra (DESIGN 3.3 'swap').

``Mirror(func).norm(t)`` puts a term into the algebra's normal form;
``Mirror(func).swap(t)`` exchanges every reference parameter with its estimate
counterpart and normalises.  Two-sided constructors built with the sides in
(E, R) order are rewritten to the transpose ``T(.)`` of the (R, E) form, and T
is pushed outwards through element-wise operations and absorbed by reductions
(axis k <-> 1-k), ``.T``, ``shape[k]``, column-wise ``scipy.stats.entropy`` and
Boolean-mask gathers (which become a fixed permutation ``P`` absorbed by full
reductions).  ``swap(a) is norm(b)`` is then a *sufficient* syntactic condition
for "a with roles exchanged equals b"."""

from __future__ import annotations

from . import terms as tm
from .rules.common import counterpart, role_of, call_name

REDUCTIONS = {"np.sum", "np.min", "np.max", "np.mean", "np.any", "np.all", "np.median", "np.std", "np.prod"}
ELEMENTWISE = {"astype", "np.log", "np.log2", "np.round", "np.abs", "np.exp", "np.sqrt", "np.logical_not", "np.array", "np.floor", "np.ceil"}
TWO_SIDED = {"segment._contingency_matrix"}
COMMUTATIVE_FUNCS = {"pattern._occurrence_intersection", "np.dot", ".intersection", ".union"}
SYM_WITH_TABLE = {"segment._mutual_info_score": "contingency"}


def T(x):
    if x.op == "T":
        return x.a[0]
    return tm.mk("T", x)


def isT(x):
    return x.op == "T"


def P(mask, v):
    return tm.mk("P", mask, v)


class Mirror(object):
    def __init__(self, func, equal_counts=False, subst=None):
        self.func = func
        self.names = set(func.all_params)
        self.equal_counts = equal_counts
        self.subst = subst or {}
        self._memo = {False: {}, True: {}}
        self._roles = {}

    def roles(self, t):
        r = self._roles.get(t.id)
        if r is None:
            r = frozenset(x for x in (role_of(p) for p in tm.params_of(t)) if x)
            self._roles[t.id] = r
        return r

    def norm(self, t):
        return self._go(t, False)

    def swap(self, t):
        return self._go(t, True)

    # ------------------------------------------------------------------
    def _go(self, t, swap):
        memo = self._memo[swap]
        r = memo.get(t.id)
        if r is not None:
            return r
        r = self._node(t, swap)
        memo[t.id] = r
        return r

    def _kids(self, x, swap):
        if isinstance(x, tm.T):
            return self._go(x, swap)
        if isinstance(x, tuple):
            return tuple(self._kids(y, swap) for y in x)
        return x

    def _node(self, t, swap):
        op = t.op
        if op == "param":
            name = t.a[0]
            if name in self.subst:
                return self.subst[name]
            if swap:
                c = counterpart(name)
                if c is not None and c in self.names:
                    return tm.param(c)
            return t
        if not t.a or op in ("const", "glob", "func", "ext", "builtin", "mod", "localfunc", "meth", "idx"):
            return t
        a = tuple(self._kids(y, swap) for y in t.a)
        return self.build(op, a)

    # ------------------------------------------------------------------
    def build(self, op, a):
        if op == "bin":
            return self.b_bin(a[0], a[1], a[2])
        if op == "un":
            if isT(a[1]):
                return T(tm.unop(a[0], a[1].a[0]))
            if a[1].op == "P":
                return P(a[1].a[0], tm.unop(a[0], a[1].a[1]))
            return tm.unop(a[0], a[1])
        if op == "cmp":
            if a[0] in ("is", "isnot") and a[1].op == "const" and a[2].op == "const":
                same = a[1] is a[2]
                return tm.const(same if a[0] == "is" else not same)
            return self.b_elem2(lambda x, y: tm.cmp(a[0], x, y), a[1], a[2])
        if op == "call":
            return self.b_call(a[0], a[1], a[2])
        if op == "sub":
            return self.b_sub(a[0], a[1])
        if op == "attr":
            return tm.attr(a[0], a[1]) if not isT(a[0]) or a[1] != "T" else a[0].a[0]
        if op == "bool":
            return self.b_bool(a[0], list(a[1:]))
        if op == "ite":
            c = a[0]
            if c.op == "const" and isinstance(c.a[0], bool):
                return a[1] if c.a[0] else a[2]
            return tm.ite(a[0], a[1], a[2])
        if op == "comp":
            return self.b_comp(a)
        return tm.mk(op, *a)

    def b_bool(self, o, items):
        if o == "and" and items and all(x.op == "cmp" and x.a[0] == "==" for x in items):
            # chained equalities a == b == c: one equivalence class if connected
            groups = []
            for x in items:
                pair = {x.a[1], x.a[2]}
                hit = [g for g in groups if g & pair]
                for g in hit:
                    pair |= g
                    groups.remove(g)
                groups.append(pair)
            if len(groups) == 1:
                return tm.mk("alleq", *sorted(groups[0], key=lambda z: z.id))
        flat = tm.boolop(o, items)
        if flat.op == "bool":
            its = sorted(set(flat.a[1:]), key=lambda z: z.id)
            return tm.mk("bool", o, *its)
        return flat

    def b_comp(self, a):
        kind, elt, iters, conds, cid = a
        new = "K" + "_".join(str(i.id) for i in iters)
        if new == cid:
            return tm.mk("comp", *a)

        def ren(z):
            if z.op == "iter" and z.a[1] == cid:
                return tm.mk("iter", z.a[0], new)
            if z.op == "idx" and z.a[0] == cid:
                return tm.mk("idx", new)
            return None

        elt2 = tm.rebuild(elt, ren)
        conds2 = tuple(tm.rebuild(c, ren) for c in conds)
        return tm.mk("comp", kind, elt2, iters, conds2, new)

    def b_elem2(self, mkf, x, y):
        """Element-wise binary construct with T / P pushed outwards."""
        if isT(x) and isT(y):
            return T(mkf(x.a[0], y.a[0]))
        if isT(x) and not isT(y) and y.op != "P":
            return T(mkf(x.a[0], y))
        if isT(y) and not isT(x) and x.op != "P":
            return T(mkf(x, y.a[0]))
        if x.op == "P" and y.op == "P" and x.a[0] is y.a[0]:
            return P(x.a[0], mkf(x.a[1], y.a[1]))
        if x.op == "P" and y.op not in ("P", "T"):
            return P(x.a[0], mkf(x.a[1], y))
        if y.op == "P" and x.op not in ("P", "T"):
            return P(y.a[0], mkf(x, y.a[1]))
        return mkf(x, y)

    def b_bin(self, o, l, r):
        # constant folding (used after substituting beta = 1)
        if l.op == "const" and r.op == "const" and isinstance(l.a[0], float) and isinstance(r.a[0], float):
            try:
                v = {"+": l.a[0] + r.a[0], "-": l.a[0] - r.a[0], "*": l.a[0] * r.a[0], "**": l.a[0] ** r.a[0], "/": l.a[0] / r.a[0] if r.a[0] else None}.get(o)
            except Exception:
                v = None
            if v is not None:
                return tm.const(v)
        # -T(.) (an outer difference built in (E, R) order) scaled by a constant
        if o in ("*", "/"):
            if l.op == "NT" and r.op not in ("T", "NT", "P"):
                return tm.mk("NT", self.b_bin(o, l.a[0], r))
            if o == "*" and r.op == "NT" and l.op not in ("T", "NT", "P"):
                return tm.mk("NT", self.b_bin(o, l, r.a[0]))
        if o in ("+", "*") and l.op not in ("T", "P", "NT") and r.op not in ("T", "P", "NT"):
            # associative-commutative normal form: flatten and sort
            items = []

            def flat(z):
                if z.op == "bin" and z.a[0] == o:
                    flat(z.a[1])
                    flat(z.a[2])
                else:
                    items.append(z)

            flat(l)
            flat(r)
            if len(items) > 2:
                items.sort(key=lambda z: z.id)
                # fold constants together
                consts = [z for z in items if z.op == "const" and isinstance(z.a[0], float)]
                rest = [z for z in items if not (z.op == "const" and isinstance(z.a[0], float))]
                if len(consts) > 1:
                    v = consts[0].a[0]
                    for c in consts[1:]:
                        v = v + c.a[0] if o == "+" else v * c.a[0]
                    consts = [tm.const(v)]
                items = consts + rest
                acc = items[0]
                for z in items[1:]:
                    acc = tm.binop(o, acc, z)
                return acc
        if any(z.op in ("T", "P", "NT") for z in (l, r)):
            # push the wrapper outwards and normalise the inner expression recursively
            return self.b_elem2(lambda x, y: self.b_bin(o, x, y), l, r)
        return tm.binop(o, l, r)

    def _axis(self, args, kw):
        for n, v in kw:
            if n == "axis":
                return v, "kw"
        if len(args) > 1:
            return args[1], "pos"
        return None, None

    def b_call(self, fn, args, kw):
        name = tm.callee_name(fn)
        args = tuple(args)
        kw = tuple(kw)
        if name is None or not args:
            return tm.call(fn, args, kw)
        x = args[0]
        # outer difference built in (E, R) order = -T(the (R, E) form); |.| absorbs the sign
        if name == "np.subtract.outer" and len(args) == 2 and self.roles(args[0]) == {"E"} and self.roles(args[1]) == {"R"}:
            return tm.mk("NT", tm.call(fn, (args[1], args[0]), kw))
        if name == "np.abs" and x.op == "NT":
            return T(tm.call(fn, (x.a[0],) + args[1:], kw))
        if name in TWO_SIDED and len(args) == 2 and self.roles(args[0]) == {"E"} and self.roles(args[1]) == {"R"}:
            return T(tm.call(fn, (args[1], args[0]), kw))
        if name == "np.outer" and len(args) == 2:
            p, q = args
            # canonical orientation: (row sums, column sums) of one table
            ap = self._axis(p.a[1], p.a[2])[0] if p.op == "call" and call_name(p) in REDUCTIONS else None
            aq = self._axis(q.a[1], q.a[2])[0] if q.op == "call" and call_name(q) in REDUCTIONS else None
            if ap is not None and aq is not None and tm.is_const(ap, 0) and tm.is_const(aq, 1) and p.a[1][0] is q.a[1][0]:
                return T(tm.call(fn, (q, p), kw))
            return tm.call(fn, args, kw)
        if name in COMMUTATIVE_FUNCS and len(args) == 2 and not kw:
            if args[1].id < args[0].id:
                args = (args[1], args[0])
            return tm.call(fn, args, kw)
        if name in SYM_WITH_TABLE and len(args) >= 2 and self.roles(args[0]) == {"E"} and self.roles(args[1]) == {"R"}:
            tk = SYM_WITH_TABLE[name]
            kw2 = []
            okk = True
            if len(args) == 3 and not kw:
                # the table passed positionally (third parameter)
                if isT(args[2]):
                    return tm.call(fn, (args[1], args[0], args[2].a[0]), kw)
                okk = False
            for n, v in kw:
                if n == tk:
                    if isT(v):
                        v = v.a[0]
                    else:
                        okk = False
                kw2.append((n, v))
            if okk:
                return tm.call(fn, (args[1], args[0]) + args[2:], tuple(kw2))
        if name == "np.transpose" and len(args) == 1 and not kw:
            return T(x)
        if name == "scipy.stats.entropy" and isT(x):
            return tm.call(fn, (tm.call(tm.ext("np.transpose"), (x.a[0],)),) + args[1:], kw)
        if name in REDUCTIONS:
            ax, where = self._axis(args, kw)
            if isT(x):
                if ax is None:
                    return tm.call(fn, (x.a[0],) + args[1:], kw)
                if ax.op == "const" and ax.a[0] in (0.0, 1.0):
                    nax = tm.const(1.0 - ax.a[0])
                    if where == "kw":
                        return tm.call(fn, (x.a[0],) + args[1:], tuple((n, nax if n == "axis" else v) for n, v in kw))
                    return tm.call(fn, (x.a[0], nax) + args[2:], kw)
            if x.op == "P" and ax is None:
                return tm.call(fn, (x.a[1],) + args[1:], kw)
            # sum of a partial sum is the total
            if name == "np.sum" and ax is None and x.op == "call" and call_name(x) == "np.sum" and self._axis(x.a[1], x.a[2])[0] is not None:
                return tm.call(fn, (x.a[1][0],), ())
            # reductions over an explicit 2-element list are order-free
            if name in ("np.max", "np.min") and x.op == "list" and len(x.a) == 2 and ax is None:
                items = sorted(x.a, key=lambda z: z.id)
                return tm.call(fn, (tm.lst(tuple(items)),) + args[1:], kw)
            return tm.call(fn, args, kw)
        if name in ("builtins.max", "builtins.min") and len(args) == 2 and not kw:
            items = sorted(args, key=lambda z: z.id)
            return tm.call(fn, tuple(items), kw)
        if name in ELEMENTWISE:
            if isT(x):
                return T(tm.call(fn, (x.a[0],) + args[1:], kw))
            if x.op == "P":
                return P(x.a[0], tm.call(fn, (x.a[1],) + args[1:], kw))
        if name == "builtins.len" and len(args) == 1 and isT(x):
            # len(T(x)) is T(x).shape[0], i.e. x.shape[1]
            return tm.sub(tm.attr(x.a[0], "shape"), tm.const(1.0))
        if name == "builtins.len" and self.equal_counts and len(args) == 1 and self.roles(x) == {"E"} and not any(z.op == "call" and call_name(z) in ("np.unique", "builtins.set", "builtins.frozenset", "np.where", "np.flatnonzero") for z in tm.walk(x)):
            # frame-label sequences of both sides have equal length (validate_structure: common end time); the number
            # of *distinct* labels of a side is its own quantity
            back = Mirror(self.func, equal_counts=False).swap(x)
            return tm.call(fn, (back,), kw)
        if name == "builtins.sum" and len(args) == 1 and x.op == "comp":
            kind, elt, iters, conds, cid = x.a
            if len(iters) == 1 and iters[0].op == "call" and call_name(iters[0]) in ("np.flatten", "np.ravel") and isT(iters[0].a[1][0]):
                old_it = iters[0]
                new_it = tm.call(old_it.a[0], (old_it.a[1][0].a[0],))
                old_var = tm.mk("iter", old_it, cid)
                new_var = tm.mk("iter", new_it, cid)
                elt2 = tm.rebuild(elt, lambda z: new_var if z is old_var else None)
                return tm.call(fn, (self.b_comp((kind, elt2, (new_it,), conds, cid)),), kw)
        return tm.call(fn, args, kw)

    def b_sub(self, base, idx):
        # T(x).shape[k] -> x.shape[1-k]
        if base.op == "attr" and base.a[1] == "shape" and isT(base.a[0]) and idx.op == "const" and idx.a[0] in (0.0, 1.0):
            return tm.sub(tm.attr(base.a[0].a[0], "shape"), tm.const(1.0 - idx.a[0]))  # (tm.sub spells x.shape[0] as len(x))
        # Boolean-mask gather of a transposed matrix by the transposed mask: a permutation of the plain gather
        if isT(base) and isT(idx):
            return P(idx.a[0], tm.sub(base.a[0], idx.a[0]))
        return tm.sub(base, idx)
