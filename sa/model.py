"""Program model (DESIGN 3.1): parse /repo/mir_eval, function table, imports,
numpydoc sections, module constants.  Nothing is imported or executed."""

from __future__ import annotations

import ast
import hashlib
import os
import re

REPO = os.environ.get("VERIF_REPO", "/repo")
PKG = "mir_eval"

ANALYSED = [
    "alignment",
    "beat",
    "chord",
    "hierarchy",
    "io",
    "key",
    "melody",
    "multipitch",
    "onset",
    "pattern",
    "segment",
    "separation",
    "sonify",
    "tempo",
    "transcription",
    "transcription_velocity",
    "util",
]


class AnalysisError(Exception):
    """An anchor vanished or a construct is outside the idioms a rule understands."""

    def __init__(self, rule, why):
        Exception.__init__(self, "%s: %s" % (rule, why))
        self.rule = rule
        self.why = why


class Func(object):
    def __init__(self, module, qual, node, parent=None):
        self.module = module  # Module
        self.qual = qual  # 'beat.f_measure' / 'pattern.three_layer_FPR.compute_layer'
        self.name = node.name
        self.node = node
        self.parent = parent
        self.lineno = node.lineno
        a = node.args
        self.posonly = [x.arg for x in a.posonlyargs]
        self.params = [x.arg for x in a.posonlyargs + a.args]
        self.kwonly = [x.arg for x in a.kwonlyargs]
        self.vararg = a.vararg.arg if a.vararg else None
        self.kwarg = a.kwarg.arg if a.kwarg else None
        self.defaults = {}  # name -> ast node
        nd = len(a.defaults)
        for p, d in zip(self.params[len(self.params) - nd :], a.defaults):
            self.defaults[p] = d
        for p, d in zip(a.kwonlyargs, a.kw_defaults):
            if d is not None:
                self.defaults[p.arg] = d
        self.doc = ast.get_docstring(node) or ""
        self.decorators = [ast.unparse(d) for d in node.decorator_list]
        self.nested = {}
        self._docinfo = None

    @property
    def public(self):
        return not self.name.startswith("_") and self.parent is None

    @property
    def all_params(self):
        out = list(self.params)
        if self.vararg:
            out.append(self.vararg)
        out += self.kwonly
        if self.kwarg:
            out.append(self.kwarg)
        return out

    def default_value(self, p):
        """Literal value of a default, or (False, None)."""
        d = self.defaults.get(p)
        if d is None:
            return (False, None)
        try:
            return (True, ast.literal_eval(d))
        except Exception:
            pass
        # constant expression of module constants, e.g. 30 * 44100, BITMAP_LENGTH
        try:
            v = _const_eval(d, self.module)
            return (True, v)
        except Exception:
            return (False, None)

    @property
    def docinfo(self):
        if self._docinfo is None:
            self._docinfo = parse_numpydoc(self.doc)
        return self._docinfo

    def loc(self, node=None):
        ln = getattr(node, "lineno", None) or self.lineno
        return "%s/%s.py:%d" % (PKG, self.module.name, ln)


def _const_eval(node, module):
    if isinstance(node, ast.Constant):
        return node.value
    if isinstance(node, ast.Name):
        if node.id in module.const_values:
            return module.const_values[node.id]
        raise ValueError(node.id)
    if isinstance(node, ast.BinOp):
        l = _const_eval(node.left, module)
        r = _const_eval(node.right, module)
        if isinstance(node.op, ast.Mult):
            return l * r
        if isinstance(node.op, ast.Add):
            return l + r
        if isinstance(node.op, ast.Sub):
            return l - r
        if isinstance(node.op, ast.Div):
            return l / r
        if isinstance(node.op, ast.Pow):
            return l**r
    if isinstance(node, ast.UnaryOp) and isinstance(node.op, ast.USub):
        return -_const_eval(node.operand, module)
    if isinstance(node, ast.BinOp) and isinstance(node.op, ast.Mod):
        l = _const_eval(node.left, module)
        r = _const_eval(node.right, module)
        if isinstance(l, str):
            return l % r
    if isinstance(node, ast.Tuple):
        return tuple(_const_eval(e, module) for e in node.elts)
    if isinstance(node, ast.JoinedStr):
        out = []
        for v in node.values:
            if isinstance(v, ast.Constant):
                out.append(str(v.value))
            elif isinstance(v, ast.FormattedValue) and v.conversion == -1 and v.format_spec is None:
                out.append(str(_const_eval(v.value, module)))
            else:
                raise ValueError("f-string part")
        return "".join(out)
    if isinstance(node, ast.Call) and isinstance(node.func, ast.Attribute) and node.func.attr == "format" and not node.keywords:
        base = _const_eval(node.func.value, module)
        if isinstance(base, str):
            return base.format(*[_const_eval(a, module) for a in node.args])
    if isinstance(node, ast.Call) and isinstance(node.func, ast.Attribute) and node.func.attr == "join" and len(node.args) == 1 and isinstance(node.args[0], (ast.List, ast.Tuple)):
        base = _const_eval(node.func.value, module)
        if isinstance(base, str):
            return base.join(_const_eval(e, module) for e in node.args[0].elts)
    raise ValueError(ast.dump(node))


class Module(object):
    def __init__(self, name, path, source=None):
        self.name = name
        self.path = path
        if source is not None:
            raw = source.encode("utf-8")
        else:
            with open(path, "rb") as fh:
                raw = fh.read()
        self.digest = hashlib.sha256(raw).hexdigest()
        self.source = raw.decode("utf-8")
        self.lines = self.source.split("\n")
        self.tree = ast.parse(self.source, filename=path)
        self.doc = ast.get_docstring(self.tree) or ""
        self.imports = {}  # local alias -> ('mod', dotted) | ('name', dotted_module, name)
        self.funcs = {}  # top-level name -> Func
        self.classes = {}
        self.const_nodes = {}  # NAME -> ast value node (last top-level simple assignment)
        self.const_values = {}  # NAME -> literal value where literal-evaluable
        self.toplevel_stmts = []
        self._scan()

    def _scan(self):
        for st in self.tree.body:
            if isinstance(st, ast.Import):
                for al in st.names:
                    if al.asname:
                        self.imports[al.asname] = ("mod", al.name)
                    else:
                        self.imports[al.name.split(".")[0]] = ("mod", al.name.split(".")[0])
            elif isinstance(st, ast.ImportFrom):
                base = st.module or ""
                if st.level:
                    base = PKG + ("." + base if base else "")
                for al in st.names:
                    self.imports[al.asname or al.name] = ("name", base, al.name)
            elif isinstance(st, ast.FunctionDef):
                self.funcs[st.name] = Func(self, "%s.%s" % (self.name, st.name), st)
            elif isinstance(st, ast.ClassDef):
                self.classes[st.name] = st
            elif isinstance(st, ast.AnnAssign) and st.value is not None and isinstance(st.target, ast.Name):
                # NAME: type = value  is the assignment NAME = value
                nm = st.target.id
                self.const_nodes[nm] = st.value
                try:
                    self.const_values[nm] = ast.literal_eval(st.value)
                except Exception:
                    try:
                        self.const_values[nm] = _const_eval(st.value, self)
                    except Exception:
                        pass
                self.toplevel_stmts.append(st)
            elif isinstance(st, ast.Assign):
                if len(st.targets) == 1 and isinstance(st.targets[0], ast.Name):
                    nm = st.targets[0].id
                    self.const_nodes[nm] = st.value
                    try:
                        self.const_values[nm] = ast.literal_eval(st.value)
                    except Exception:
                        try:
                            self.const_values[nm] = _const_eval(st.value, self)
                        except Exception:
                            pass
                self.toplevel_stmts.append(st)
            else:
                self.toplevel_stmts.append(st)
        # nested functions
        for f in list(self.funcs.values()):
            self._nest(f)

    def _nest(self, f):
        for st in ast.walk(f.node):
            if isinstance(st, ast.FunctionDef) and st is not f.node:
                # only direct children (walk finds all; register by owner chain)
                pass
        for st in _direct_defs(f.node):
            g = Func(self, "%s.%s" % (f.qual, st.name), st, parent=f)
            f.nested[st.name] = g
            self._nest(g)

    def all_funcs(self):
        out = []

        def rec(f):
            out.append(f)
            for g in f.nested.values():
                rec(g)

        for f in self.funcs.values():
            rec(f)
        return out


def _direct_defs(fnode):
    """FunctionDefs nested directly in fnode's body (any statement depth, not inside another def)."""
    out = []

    def rec(stmts):
        for st in stmts:
            if isinstance(st, ast.FunctionDef):
                out.append(st)
                continue
            for fld in ("body", "orelse", "finalbody", "handlers"):
                sub = getattr(st, fld, None)
                if isinstance(sub, list):
                    if fld == "handlers":
                        for h in sub:
                            rec(h.body)
                    else:
                        rec(sub)

    rec(fnode.body)
    return out


class Program(object):
    def __init__(self, repo=None, overrides=None):
        self.repo = repo or REPO
        self.modules = {}
        overrides = overrides or {}
        pkgdir = os.path.join(self.repo, PKG)
        if not os.path.isdir(pkgdir):
            raise AnalysisError("PM", "package directory %s not found" % pkgdir)
        for name in ANALYSED:
            p = os.path.join(pkgdir, name + ".py")
            if not os.path.exists(p):
                raise AnalysisError("PM", "module %s.py vanished" % name)
            try:
                self.modules[name] = Module(name, p, overrides.get(name))
            except SyntaxError as e:
                raise AnalysisError("PM", "module %s.py does not parse: %s" % (name, e))
        self.extra_files = sorted(
            f[:-3]
            for f in os.listdir(pkgdir)
            if f.endswith(".py") and f[:-3] not in ANALYSED and f not in ("__init__.py", "display.py")
        )

    def digest(self):
        h = hashlib.sha256()
        for n in sorted(self.modules):
            h.update(self.modules[n].digest.encode())
        return h.hexdigest()

    def resigned(self, qual):
        """a private helper of the inventory whose parameter list is no longer the recorded one (sa/known.py)"""
        from .known import KNOWN_SIGNATURES

        want = KNOWN_SIGNATURES.get(qual)
        if want is None:
            return False
        try:
            g = self.func(qual)
        except AnalysisError:
            return False
        return list(g.params) + ["*" + k for k in getattr(g, "kwonly", [])] != want

    def func(self, qual, rule="PM", resigned_ok=False):
        if rule != "PM" and not resigned_ok and self.resigned(qual):
            # the helper is evaluated inside its callers (like any new helper); a rule that reads it as a free-standing
            # function with the recorded parameters has lost its anchor
            raise AnalysisError(rule, "private helper %s no longer has the recorded parameters: it is judged as part of its callers, and this rule reads it on its own" % qual)
        parts = qual.split(".")
        m = self.modules.get(parts[0])
        if m is None:
            raise AnalysisError(rule, "module %s not analysed" % parts[0])
        f = m.funcs.get(parts[1])
        if f is None:
            raise AnalysisError(rule, "function %s vanished" % qual)
        for p in parts[2:]:
            f = f.nested.get(p)
            if f is None:
                raise AnalysisError(rule, "nested function %s vanished" % qual)
        return f

    def has_func(self, qual):
        try:
            self.func(qual)
            return True
        except AnalysisError:
            return False

    def all_funcs(self, include_new=False):
        """Functions of the analysed tree.  By default only those of the reference inventory (sa/known.py): a function
        that is not listed there is new code, which the summariser evaluates *in place* at its call sites, so the rules
        judge it as part of its callers and not a second time as a free-standing function with unconstrained
        parameters.  Purity / dynamic-code rules pass include_new=True."""
        from .known import KNOWN_FUNCS

        out = []
        for n in sorted(self.modules):
            for f in self.modules[n].all_funcs():
                if include_new or (f.qual in KNOWN_FUNCS and not self.resigned(f.qual)):
                    out.append(f)
        return out

    def resolve_import(self, module, alias):
        """Resolve a module-level alias to ('repomod', name) | ('repofunc', qual) |
        ('repoglob', qual) | ('extmod', dotted) | ('ext', dotted) | None."""
        imp = module.imports.get(alias)
        if imp is None:
            return None
        if imp[0] == "mod":
            dotted = imp[1]
            if dotted == "numpy":
                return ("extmod", "np")
            if dotted.startswith(PKG + "."):
                return ("repomod", dotted[len(PKG) + 1 :])
            return ("extmod", dotted)
        _, base, name = imp
        if base == PKG:
            if name in self.modules:
                return ("repomod", name)
            return ("ext", PKG + "." + name)
        if base.startswith(PKG + "."):
            mod = base[len(PKG) + 1 :]
            m = self.modules.get(mod)
            if m is not None:
                if name in m.funcs:
                    return ("repofunc", "%s.%s" % (mod, name))
                return ("repoglob", "%s.%s" % (mod, name))
        if base == "numpy":
            return ("ext", "np." + name)
        return ("ext", base + "." + name)


# ------------------------------------------------------------------- numpydoc

_SEC_RE = re.compile(r"^\s*([A-Za-z ]+)\n\s*-{3,}\s*$", re.M)


def parse_numpydoc(doc):
    """Return {'params': [(name, type, text)], 'returns': [(name, type, text)], 'raises': [...]}."""
    out = {"params": [], "returns": [], "raises": [], "text": doc}
    if not doc:
        return out
    lines = doc.split("\n")
    # find section headers
    secs = []
    for i in range(len(lines) - 1):
        if re.match(r"^\s*-{3,}\s*$", lines[i + 1]) and lines[i].strip():
            secs.append((i, lines[i].strip()))
    secs.append((len(lines), None))
    for k in range(len(secs) - 1):
        start, title = secs[k]
        end = secs[k + 1][0]
        body = lines[start + 2 : end]
        key = {"Parameters": "params", "Returns": "returns", "Raises": "raises"}.get(title)
        if key is None:
            continue
        # entries start at minimal indentation
        indents = [len(l) - len(l.lstrip()) for l in body if l.strip()]
        if not indents:
            continue
        base = min(indents)
        cur = None
        for l in body:
            if not l.strip():
                continue
            ind = len(l) - len(l.lstrip())
            if ind == base:
                if cur:
                    out[key].append(tuple(cur))
                head = l.strip()
                if ":" in head:
                    nm, ty = head.split(":", 1)
                    cur = [nm.strip(), ty.strip(), ""]
                else:
                    cur = [head, "", ""]
            elif cur is not None:
                cur[2] += l.strip() + " "
        if cur:
            out[key].append(tuple(cur))
    return out


_DEF_RES = [
    re.compile(r"\(?\s*Default value\s*=\s*([^)\s]+)\s*\)?"),
    re.compile(r"[Dd]efault(?:s)?\s+(?:is|to|value is)\s+`{0,2}([-+0-9.eE]+|None|True|False)`{0,2}"),
    re.compile(r"\(\s*[Dd]efault\s*=\s*([^)\s]+)\s*\)"),
    re.compile(r"[Dd]efault\s*=\s*([-+0-9.eE]+|None|True|False)"),
]


def doc_default(text):
    """Parse a documented default from a parameter description; (found, value_or_rawtext)."""
    for rx in _DEF_RES:
        m = rx.search(text)
        if m:
            raw = m.group(1).strip().rstrip(".,;")
            if raw.endswith(".") and raw[:-1].replace("-", "").isdigit():
                raw = raw[:-1]
            try:
                return (True, ast.literal_eval(raw), raw)
            except Exception:
                # '5.' style handled above; keep raw
                try:
                    return (True, float(raw), raw)
                except Exception:
                    return (True, None, raw)
    return (False, None, None)
