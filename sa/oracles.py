"""Reference tables (DESIGN appendices A-C): what the checker knows independently
of the code.  Copied from the property text / module documentation, confirmed
by reading the reference tree."""

# task -> list of (score key, source function, tuple position or None for a scalar return, kind)
# kind: P proportion in [0,1]; B binary; U bounded above by 1 only; E error >= 0;
#       D deviation (NaN allowed when a side is empty); C conditional; M unbounded >= 0
SCORES = {
    "beat": [
        ("F-measure", "beat.f_measure", None, "P"),
        ("Cemgil", "beat.cemgil", 0, "P"),
        ("Cemgil Best Metric Level", "beat.cemgil", 1, "P"),
        ("Goto", "beat.goto", None, "B"),
        ("P-score", "beat.p_score", None, "C"),
        ("Correct Metric Level Continuous", "beat.continuity", 0, "P"),
        ("Correct Metric Level Total", "beat.continuity", 1, "P"),
        ("Any Metric Level Continuous", "beat.continuity", 2, "P"),
        ("Any Metric Level Total", "beat.continuity", 3, "P"),
        ("Information gain", "beat.information_gain", None, "P"),
    ],
    "onset": [
        ("F-measure", "onset.f_measure", 0, "P"),
        ("Precision", "onset.f_measure", 1, "P"),
        ("Recall", "onset.f_measure", 2, "P"),
    ],
    "segment": [
        ("Precision@0.5", "segment.detection", 0, "P"),
        ("Recall@0.5", "segment.detection", 1, "P"),
        ("F-measure@0.5", "segment.detection", 2, "P"),
        ("Precision@3.0", "segment.detection", 0, "P"),
        ("Recall@3.0", "segment.detection", 1, "P"),
        ("F-measure@3.0", "segment.detection", 2, "P"),
        ("Ref-to-est deviation", "segment.deviation", 0, "D"),
        ("Est-to-ref deviation", "segment.deviation", 1, "D"),
        ("Pairwise Precision", "segment.pairwise", 0, "P"),
        ("Pairwise Recall", "segment.pairwise", 1, "P"),
        ("Pairwise F-measure", "segment.pairwise", 2, "P"),
        ("Rand Index", "segment.rand_index", None, "P"),
        ("Adjusted Rand Index", "segment.ari", None, "U"),
        ("Mutual Information", "segment.mutual_information", 0, "M"),
        ("Adjusted Mutual Information", "segment.mutual_information", 1, "U"),
        ("Normalized Mutual Information", "segment.mutual_information", 2, "P"),
        ("NCE Over", "segment.nce", 0, "P"),
        ("NCE Under", "segment.nce", 1, "P"),
        ("NCE F-measure", "segment.nce", 2, "P"),
        ("V Precision", "segment.vmeasure", 0, "P"),
        ("V Recall", "segment.vmeasure", 1, "P"),
        ("V-measure", "segment.vmeasure", 2, "P"),
    ],
    "chord": [(k, "chord.weighted_accuracy", None, "P") for k in ("thirds", "thirds_inv", "triads", "triads_inv", "tetrads", "tetrads_inv", "root", "mirex", "majmin", "majmin_inv", "sevenths", "sevenths_inv")]
    + [("underseg", "chord.underseg", None, "P"), ("overseg", "chord.overseg", None, "P"), ("seg", None, None, "P")],
    "melody": [
        ("Voicing Recall", "melody.voicing_recall", None, "P"),
        ("Voicing False Alarm", "melody.voicing_false_alarm", None, "P"),
        ("Raw Pitch Accuracy", "melody.raw_pitch_accuracy", None, "P"),
        ("Raw Chroma Accuracy", "melody.raw_chroma_accuracy", None, "P"),
        ("Overall Accuracy", "melody.overall_accuracy", None, "P"),
    ],
    "multipitch": [
        (k, "multipitch.metrics", i, kind)
        for i, (k, kind) in enumerate(
            [
                ("Precision", "P"),
                ("Recall", "P"),
                ("Accuracy", "P"),
                ("Substitution Error", "E"),
                ("Miss Error", "E"),
                ("False Alarm Error", "E"),
                ("Total Error", "E"),
                ("Chroma Precision", "P"),
                ("Chroma Recall", "P"),
                ("Chroma Accuracy", "P"),
                ("Chroma Substitution Error", "E"),
                ("Chroma Miss Error", "E"),
                ("Chroma False Alarm Error", "E"),
                ("Chroma Total Error", "E"),
            ]
        )
    ],
    "transcription": [
        ("Precision", "transcription.precision_recall_f1_overlap", 0, "P"),
        ("Recall", "transcription.precision_recall_f1_overlap", 1, "P"),
        ("F-measure", "transcription.precision_recall_f1_overlap", 2, "P"),
        ("Average_Overlap_Ratio", "transcription.precision_recall_f1_overlap", 3, "U"),
        ("Precision_no_offset", "transcription.precision_recall_f1_overlap", 0, "P"),
        ("Recall_no_offset", "transcription.precision_recall_f1_overlap", 1, "P"),
        ("F-measure_no_offset", "transcription.precision_recall_f1_overlap", 2, "P"),
        ("Average_Overlap_Ratio_no_offset", "transcription.precision_recall_f1_overlap", 3, "U"),
        ("Onset_Precision", "transcription.onset_precision_recall_f1", 0, "P"),
        ("Onset_Recall", "transcription.onset_precision_recall_f1", 1, "P"),
        ("Onset_F-measure", "transcription.onset_precision_recall_f1", 2, "P"),
        ("Offset_Precision", "transcription.offset_precision_recall_f1", 0, "P"),
        ("Offset_Recall", "transcription.offset_precision_recall_f1", 1, "P"),
        ("Offset_F-measure", "transcription.offset_precision_recall_f1", 2, "P"),
    ],
    "transcription_velocity": [
        ("Precision", "transcription_velocity.precision_recall_f1_overlap", 0, "P"),
        ("Recall", "transcription_velocity.precision_recall_f1_overlap", 1, "P"),
        ("F-measure", "transcription_velocity.precision_recall_f1_overlap", 2, "P"),
        ("Average_Overlap_Ratio", "transcription_velocity.precision_recall_f1_overlap", 3, "U"),
        ("Precision_no_offset", "transcription_velocity.precision_recall_f1_overlap", 0, "P"),
        ("Recall_no_offset", "transcription_velocity.precision_recall_f1_overlap", 1, "P"),
        ("F-measure_no_offset", "transcription_velocity.precision_recall_f1_overlap", 2, "P"),
        ("Average_Overlap_Ratio_no_offset", "transcription_velocity.precision_recall_f1_overlap", 3, "U"),
    ],
    "tempo": [
        ("P-score", "tempo.detection", 0, "P"),
        ("One-correct", "tempo.detection", 1, "B"),
        ("Both-correct", "tempo.detection", 2, "B"),
    ],
    "key": [("Weighted Score", "key.weighted_score", None, "P")],
    "pattern": [
        ("F", "pattern.standard_FPR", 0, "P"),
        ("P", "pattern.standard_FPR", 1, "P"),
        ("R", "pattern.standard_FPR", 2, "P"),
        ("F_est", "pattern.establishment_FPR", 0, "P"),
        ("P_est", "pattern.establishment_FPR", 1, "P"),
        ("R_est", "pattern.establishment_FPR", 2, "P"),
        ("F_occ.5", "pattern.occurrence_FPR", 0, "P"),
        ("P_occ.5", "pattern.occurrence_FPR", 1, "P"),
        ("R_occ.5", "pattern.occurrence_FPR", 2, "P"),
        ("F_occ.75", "pattern.occurrence_FPR", 0, "P"),
        ("P_occ.75", "pattern.occurrence_FPR", 1, "P"),
        ("R_occ.75", "pattern.occurrence_FPR", 2, "P"),
        ("F_3", "pattern.three_layer_FPR", 0, "P"),
        ("P_3", "pattern.three_layer_FPR", 1, "P"),
        ("R_3", "pattern.three_layer_FPR", 2, "P"),
        ("FFP", "pattern.first_n_three_layer_P", None, "P"),
        ("FFTP_est", "pattern.first_n_target_proportion_R", None, "P"),
    ],
    "hierarchy": [
        ("T-Precision reduced", "hierarchy.tmeasure", 0, "P"),
        ("T-Recall reduced", "hierarchy.tmeasure", 1, "P"),
        ("T-Measure reduced", "hierarchy.tmeasure", 2, "P"),
        ("T-Precision full", "hierarchy.tmeasure", 0, "P"),
        ("T-Recall full", "hierarchy.tmeasure", 1, "P"),
        ("T-Measure full", "hierarchy.tmeasure", 2, "P"),
        ("L-Precision", "hierarchy.lmeasure", 0, "P"),
        ("L-Recall", "hierarchy.lmeasure", 1, "P"),
        ("L-Measure", "hierarchy.lmeasure", 2, "P"),
    ],
    "alignment": [
        ("pc", "alignment.percentage_correct", None, "P"),
        ("mae", "alignment.absolute_error", 0, "E"),
        ("aae", "alignment.absolute_error", 1, "E"),
        ("pcs", "alignment.percentage_correct_segments", None, "P"),
        ("perceptual", "alignment.karaoke_perceptual_metric", None, "P"),
    ],
}

# entries stored conditionally by design (reviewed): key -> reason
CONDITIONAL_KEYS = {
    "transcription": {
        "Precision": "omitted only when the caller passes offset_ratio=None",
        "Recall": "same",
        "F-measure": "same",
        "Average_Overlap_Ratio": "same",
        "Offset_Precision": "same",
        "Offset_Recall": "same",
        "Offset_F-measure": "same",
    },
    "transcription_velocity": {
        "Precision": "omitted only when the caller passes offset_ratio=None",
        "Recall": "same",
        "F-measure": "same",
        "Average_Overlap_Ratio": "same",
    },
}

SEPARATION_KEYS = (
    ["Images - " + x for x in ("Source to Distortion", "Image to Spatial", "Source to Interference", "Source to Artifact", "Source permutation")]
    + ["Images Frames - " + x for x in ("Source to Distortion", "Image to Spatial", "Source to Interference", "Source to Artifact", "Source permutation")]
    + ["Sources Frames - " + x for x in ("Source to Distortion", "Source to Interference", "Source to Artifact", "Source permutation")]
    + ["Sources - " + x for x in ("Source to Distortion", "Source to Interference", "Source to Artifact", "Source permutation")]
)

# C03.KEYPARAM naming conventions: (task, regex on key) -> (parameter, value-from-match)
KEYPARAM = [
    ("segment", r"@([0-9.]+)$", "window", lambda m: float(m.group(1))),
    ("pattern", r"_occ(\.[0-9]+)$", "thres", lambda m: float(m.group(1))),
    ("transcription", r"_no_offset$", "offset_ratio", lambda m: None),
    ("transcription_velocity", r"_no_offset$", "offset_ratio", lambda m: None),
    ("hierarchy", r" reduced$", "transitive", lambda m: False),
    ("hierarchy", r" full$", "transitive", lambda m: True),
]

# Documented pre-processing (C03.PREPROC): task -> (helper, which argument positions of metric calls must derive from it)
TASKS = sorted(SCORES)

# Harte shorthand -> scale degrees (Appendix C)
HARTE = {
    "maj": ["1", "3", "5"],
    "min": ["1", "b3", "5"],
    "dim": ["1", "b3", "b5"],
    "aug": ["1", "3", "#5"],
    "sus4": ["1", "4", "5"],
    "sus2": ["1", "2", "5"],
    "1": ["1"],
    "5": ["1", "5"],
    "maj6": ["1", "3", "5", "6"],
    "min6": ["1", "b3", "5", "6"],
    "7": ["1", "3", "5", "b7"],
    "maj7": ["1", "3", "5", "7"],
    "min7": ["1", "b3", "5", "b7"],
    "dim7": ["1", "b3", "b5", "bb7"],
    "hdim7": ["1", "b3", "b5", "b7"],
    "minmaj7": ["1", "b3", "5", "7"],
    "9": ["1", "3", "5", "b7", "9"],
    "maj9": ["1", "3", "5", "7", "9"],
    "min9": ["1", "b3", "5", "b7", "9"],
    "b9": ["1", "3", "5", "b7", "b9"],
    "#9": ["1", "3", "5", "b7", "#9"],
    "11": ["1", "3", "5", "b7", "9", "11"],
    "min11": ["1", "b3", "5", "b7", "9", "11"],
    "#11": ["1", "3", "5", "b7", "9", "#11"],
    "13": ["1", "3", "5", "b7", "9", "11", "13"],
    "maj13": ["1", "3", "5", "7", "9", "11", "13"],
    "min13": ["1", "b3", "5", "b7", "9", "11", "13"],
    "b13": ["1", "3", "5", "b7", "9", "11", "b13"],
    "": [],
}
# extended shorthand -> (base shorthand, added degrees)
HARTE_REDUX = {
    "minmaj7": ("min", {"7"}),
    "maj9": ("maj7", {"9"}),
    "min9": ("min7", {"9"}),
    "9": ("7", {"9"}),
    "b9": ("7", {"b9"}),
    "#9": ("7", {"#9"}),
    "11": ("7", {"9", "11"}),
    "#11": ("7", {"9", "#11"}),
    "13": ("7", {"9", "11", "13"}),
    "b13": ("7", {"9", "11", "b13"}),
    "min11": ("min7", {"9", "11"}),
    "maj13": ("maj7", {"9", "11", "13"}),
    "min13": ("min7", {"9", "11", "13"}),
}
MAJOR_SCALE = [0, 2, 4, 5, 7, 9, 11]
GRAMMAR_SHORTHANDS = ["maj", "min", "dim", "aug", "1", "5", "sus2", "sus4", "maj6", "min6", "7", "maj7", "min7", "dim7", "hdim7", "minmaj7", "aug7", "9", "maj9", "min9", "11", "maj11", "min11", "13", "maj13", "min13"]
ACCEPTED_UNSUPPORTED = {"aug7", "maj11"}

# MIREX key relations: (relation) -> (semitone interval est-ref mod 12, score)
KEY_SCORES = {"same": 1.0, "fifth": 0.5, "relative": 0.3, "parallel": 0.2, "other": 0.0}
