"""Exact rational functions over named indeterminates (DESIGN 3.9, "algebraic identity").

A formula clause ("ARI = (S - AB/N) / ((A+B)/2 - AB/N)") is decided by bringing the term the code computes and the
documented formula to the normal form  numerator / denominator  of multivariate polynomials with rational
coefficients and comparing by cross-multiplication.  Any algebraic re-arrangement of the code gives the same
normal form; a different formula does not.  (Floating-point re-association is outside the property; integer `//` on
products that are provably even is read as exact division by the caller.)"""

from __future__ import annotations

from fractions import Fraction


class Poly(object):
    __slots__ = ("m",)

    def __init__(self, m=None):
        self.m = {k: v for k, v in (m or {}).items() if v != 0}

    @staticmethod
    def const(c):
        return Poly({(): Fraction(c)})

    @staticmethod
    def var(name):
        return Poly({((name, 1),): Fraction(1)})

    def __add__(self, o):
        out = dict(self.m)
        for k, v in o.m.items():
            out[k] = out.get(k, 0) + v
        return Poly(out)

    def __neg__(self):
        return Poly({k: -v for k, v in self.m.items()})

    def __sub__(self, o):
        return self + (-o)

    def __mul__(self, o):
        out = {}
        for k1, v1 in self.m.items():
            for k2, v2 in o.m.items():
                d = dict(k1)
                for n, e in k2:
                    d[n] = d.get(n, 0) + e
                k = tuple(sorted(d.items()))
                out[k] = out.get(k, 0) + v1 * v2
        return Poly(out)

    def is_zero(self):
        return not self.m

    def __eq__(self, o):
        return isinstance(o, Poly) and self.m == o.m

    def __hash__(self):
        return hash(tuple(sorted(self.m.items())))


class Rat(object):
    """numerator / denominator"""

    __slots__ = ("n", "d")

    def __init__(self, n, d=None):
        self.n = n
        self.d = d if d is not None else Poly.const(1)

    @staticmethod
    def const(c):
        return Rat(Poly.const(c))

    @staticmethod
    def var(name):
        return Rat(Poly.var(name))

    def __add__(self, o):
        return Rat(self.n * o.d + o.n * self.d, self.d * o.d)

    def __sub__(self, o):
        return Rat(self.n * o.d - o.n * self.d, self.d * o.d)

    def __mul__(self, o):
        return Rat(self.n * o.n, self.d * o.d)

    def __truediv__(self, o):
        if o.n.is_zero():
            raise ZeroDivisionError("division by the zero polynomial")
        return Rat(self.n * o.d, self.d * o.n)

    def __neg__(self):
        return Rat(-self.n, self.d)

    def same(self, o):
        return (self.n * o.d - o.n * self.d).is_zero()

    def power(self, k):
        out = Rat.const(1)
        for _ in range(k):
            out = out * self
        return out
