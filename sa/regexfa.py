"""Regex syntax tree -> finite automaton (DESIGN 3.8).

The pattern *literal* is parsed with ``re._parser`` (the parser the repo's own
``re.compile`` uses); nothing is matched against anything.  Supported nodes are
the kinds CHORD_RE uses plus a few harmless ones; any other construct is an
AnalysisError, never a guess.  ``$`` is modelled exactly as Python does: end of
string or just before a final newline."""

from __future__ import annotations

from collections import deque

from .model import AnalysisError

try:  # Python >= 3.11
    import re._parser as sre_parse
    import re._constants as sre_c
except ImportError:  # pragma: no cover
    import sre_parse
    import sre_constants as sre_c

MAXREPEAT = sre_c.MAXREPEAT


class NFA(object):
    def __init__(self):
        self.n = 0
        self.eps = {}
        self.tr = {}  # state -> list of (frozenset(chars) | ('not', frozenset) , target)

    def new(self):
        self.n += 1
        return self.n - 1

    def add_eps(self, a, b):
        self.eps.setdefault(a, []).append(b)

    def add(self, a, label, b):
        self.tr.setdefault(a, []).append((label, b))


def _chars_of_in(items, rule):
    pos = set()
    negate = False
    for op, av in items:
        op = str(op)
        if op == "NEGATE":
            negate = True
        elif op == "LITERAL":
            pos.add(chr(av))
        elif op == "RANGE":
            lo, hi = av
            if hi - lo > 512:
                raise AnalysisError(rule, "character range too wide for the automaton")
            for c in range(lo, hi + 1):
                pos.add(chr(c))
        elif op == "CATEGORY":
            cat = str(av)
            if cat == "CATEGORY_DIGIT":
                pos.update("0123456789")
            elif cat == "CATEGORY_SPACE":
                pos.update(" \t\n\r\f\v")
            else:
                raise AnalysisError(rule, "unsupported regex category %s" % cat)
        else:
            raise AnalysisError(rule, "unsupported item %s in character class" % op)
    return ("not", frozenset(pos)) if negate else frozenset(pos)


class Builder(object):
    def __init__(self, rule="REGEX"):
        self.nfa = NFA()
        self.rule = rule
        self.literals = set()
        self.kinds = {}
        self.end_anchored = False

    def count(self, k):
        self.kinds[k] = self.kinds.get(k, 0) + 1

    def seq(self, items, start, top=False):
        cur = start
        items = list(items)
        for i, (op, av) in enumerate(items):
            ops = str(op)
            if ops == "AT":
                self.count("AT")
                at = str(av)
                if at == "AT_BEGINNING" or at == "AT_BEGINNING_STRING":
                    if not (top and i == 0):
                        raise AnalysisError(self.rule, "start anchor not at the beginning of the pattern")
                    continue
                if at in ("AT_END", "AT_END_STRING"):
                    if not (top and i == len(items) - 1):
                        raise AnalysisError(self.rule, "end anchor not at the end of the pattern")
                    self.end_anchored = True
                    if at == "AT_END":
                        # end of string, or before a trailing newline
                        nxt = self.nfa.new()
                        self.nfa.add_eps(cur, nxt)
                        self.nfa.add(cur, frozenset("\n"), nxt)
                        self.literals.add("\n")
                        cur = nxt
                    continue
                raise AnalysisError(self.rule, "unsupported anchor %s" % at)
            cur = self.node(op, av, cur)
        return cur

    def node(self, op, av, start):
        ops = str(op)
        n = self.nfa
        self.count(ops)
        if ops == "LITERAL":
            e = n.new()
            n.add(start, frozenset(chr(av)), e)
            self.literals.add(chr(av))
            return e
        if ops == "NOT_LITERAL":
            e = n.new()
            n.add(start, ("not", frozenset(chr(av))), e)
            self.literals.add(chr(av))
            return e
        if ops == "ANY":
            e = n.new()
            n.add(start, ("not", frozenset("\n")), e)
            self.literals.add("\n")
            return e
        if ops == "IN":
            lab = _chars_of_in(av, self.rule)
            e = n.new()
            n.add(start, lab, e)
            self.literals.update(lab[1] if isinstance(lab, tuple) else lab)
            return e
        if ops == "SUBPATTERN":
            group, add_flags, del_flags, p = av
            if add_flags or del_flags:
                raise AnalysisError(self.rule, "inline flags are not supported")
            return self.seq(p, start)
        if ops == "BRANCH":
            _, alts = av
            e = n.new()
            for alt in alts:
                s = n.new()
                n.add_eps(start, s)
                x = self.seq(alt, s)
                n.add_eps(x, e)
            return e
        if ops in ("MAX_REPEAT", "MIN_REPEAT", "POSSESSIVE_REPEAT"):
            if ops == "POSSESSIVE_REPEAT":
                raise AnalysisError(self.rule, "possessive repeat not supported")
            lo, hi, p = av
            cur = start
            for _ in range(lo):
                cur = self.seq(p, cur)
            if hi == MAXREPEAT:
                s = n.new()
                n.add_eps(cur, s)
                x = self.seq(p, s)
                n.add_eps(x, s)
                return s
            if hi - lo > 64:
                raise AnalysisError(self.rule, "bounded repeat too large")
            e = n.new()
            n.add_eps(cur, e)
            for _ in range(hi - lo):
                cur = self.seq(p, cur)
                n.add_eps(cur, e)
            return e
        raise AnalysisError(self.rule, "unsupported regex construct %s" % ops)


class Automaton(object):
    """Language of ``re.compile(pattern).match(s)`` succeeding *for the whole use as a validator*:
    strings s such that match(s) is not None."""

    def __init__(self, pattern, flags=0, rule="REGEX"):
        if flags:
            raise AnalysisError(rule, "regex flags are not supported")
        try:
            tree = sre_parse.parse(pattern)
        except Exception as e:
            raise AnalysisError(rule, "pattern does not parse: %s" % e)
        b = Builder(rule)
        s0 = b.nfa.new()
        end = b.seq(list(tree), s0, top=True)
        self.nfa = b.nfa
        self.start = s0
        self.accept = end
        self.prefix = not b.end_anchored  # .match without an end anchor accepts any continuation
        self.literals = set(b.literals)
        self.kinds = b.kinds
        self.nstates = b.nfa.n

    # ------------------------------------------------------------- subset DFA
    def closure(self, states):
        out = set(states)
        stack = list(states)
        while stack:
            s = stack.pop()
            for t in self.nfa.eps.get(s, ()):
                if t not in out:
                    out.add(t)
                    stack.append(t)
        return frozenset(out)

    def step(self, S, ch):
        out = set()
        for s in S:
            for lab, t in self.nfa.tr.get(s, ()):
                if isinstance(lab, tuple):
                    if ch not in lab[1]:
                        out.add(t)
                elif ch in lab:
                    out.add(t)
        return self.closure(out)

    def initial(self):
        return self.closure({self.start})

    def accepting(self, S):
        return self.accept in S


ACC_SINK = "ACC"


def _step(A, S, ch):
    if S == ACC_SINK:
        return ACC_SINK
    T = A.step(S, ch)
    return T


def _acc(A, S):
    if S == ACC_SINK:
        return True
    return A.accepting(S)


def _norm(A, S):
    # with prefix semantics an accepting configuration accepts every continuation
    if S != ACC_SINK and A.prefix and A.accepting(S):
        return ACC_SINK
    return S


def alphabet(*autos):
    chars = set()
    for a in autos:
        chars |= a.literals
    other = None
    for cand in "~`\x01\x02\x03":
        if cand not in chars:
            other = cand
            break
    if other is None:
        raise AnalysisError("REGEX", "no representative for the 'other' character class")
    return sorted(chars) + [other], other


def difference(A, B, max_states=200000):
    """Shortest string accepted by exactly one of A, B; None when the languages are equal.
    Returns (string, 'A'|'B' which accepts it)."""
    sigma, other = alphabet(A, B)
    s0 = (_norm(A, A.initial()), _norm(B, B.initial()))
    seen = {s0: None}
    q = deque([s0])
    n = 0
    while q:
        cur = q.popleft()
        a, b = cur
        if _acc(A, a) != _acc(B, b):
            # rebuild the string
            out = []
            x = cur
            while seen[x] is not None:
                x, ch = seen[x]
                out.append(ch)
            return "".join(reversed(out)), ("A" if _acc(A, a) else "B")
        for ch in sigma:
            na = _norm(A, _step(A, a, ch))
            nb = _norm(B, _step(B, b, ch))
            nxt = (na, nb)
            if nxt not in seen:
                if not na and not nb:
                    continue
                seen[nxt] = (cur, ch)
                q.append(nxt)
                n += 1
                if n > max_states:
                    raise AnalysisError("REGEX", "product automaton too large")
    return None


def excess(A, B, max_states=200000):
    """Shortest string accepted by A and not by B; None when L(A) is included in L(B)."""
    sigma, other = alphabet(A, B)
    s0 = (_norm(A, A.initial()), _norm(B, B.initial()))
    seen = {s0: None}
    q = deque([s0])
    n = 0
    while q:
        cur = q.popleft()
        a, b = cur
        if _acc(A, a) and not _acc(B, b):
            out = []
            x = cur
            while seen[x] is not None:
                x, ch = seen[x]
                out.append(ch)
            return "".join(reversed(out))
        for ch in sigma:
            na = _norm(A, _step(A, a, ch))
            if not na:
                continue
            nb = _norm(B, _step(B, b, ch))
            nxt = (na, nb)
            if nxt not in seen:
                seen[nxt] = (cur, ch)
                q.append(nxt)
                n += 1
                if n > max_states:
                    raise AnalysisError("REGEX", "product automaton too large")
    return None


def max_count(A, ch, cap=2, max_states=200000):
    """Maximum number (capped) of occurrences of ``ch`` in an accepted string, with a witness."""
    sigma, other = alphabet(A)
    if ch not in sigma:
        return 0, ""
    s0 = (_norm(A, A.initial()), 0)
    seen = {s0: None}
    q = deque([s0])
    best = (-1, None)
    while q:
        cur = q.popleft()
        S, k = cur
        if _acc(A, S) and k > best[0]:
            out = []
            x = cur
            while seen[x] is not None:
                x, c2 = seen[x]
                out.append(c2)
            best = (k, "".join(reversed(out)))
        for c in sigma:
            T = _norm(A, _step(A, S, c))
            if not T:
                continue
            k2 = min(cap, k + (1 if c == ch else 0))
            nxt = (T, k2)
            if nxt not in seen:
                seen[nxt] = (cur, c)
                q.append(nxt)
                if len(seen) > max_states:
                    raise AnalysisError("REGEX", "counting automaton too large")
    return best


def accepts(A, s):
    S = _norm(A, A.initial())
    for ch in s:
        sig_other = ch if ch in A.literals else "~"
        S = _norm(A, _step(A, S, sig_other))
        if not S:
            return False
    return _acc(A, S)


def count_dfa_states(A):
    sigma, _ = alphabet(A)
    s0 = _norm(A, A.initial())
    seen = {s0}
    q = deque([s0])
    while q:
        S = q.popleft()
        for c in sigma:
            T = _norm(A, _step(A, S, c))
            if T and T not in seen:
                seen.add(T)
                q.append(T)
    return len(seen)


def selfcheck():
    """Tiny positive/negative examples that must hold on every run."""
    A = Automaton(r"^(a|b)*c$")
    B = Automaton(r"^[ab]*c\Z")
    d = difference(A, B)
    assert d is not None and d[0] == "c\n" and d[1] == "A", d
    C = Automaton(r"^(b|a)*c$")
    assert difference(A, C) is None
    D = Automaton(r"^x(:y)?(:z)?\Z")
    assert max_count(D, ":")[0] == 2
    assert accepts(D, "x:y") and not accepts(D, "x:") and not accepts(D, "x:y\n")
    E = Automaton(r"^ab")
    assert accepts(E, "abzzz") and not accepts(E, "a")
    return True
