"""Rule runner, evidence writer, known findings, exit-code policy (DESIGN 3.9)."""

from __future__ import annotations

import hashlib
import json
import os
import sys
import time
import traceback

from .model import AnalysisError, Program
from . import symeval

VERIF = os.path.dirname(os.path.dirname(os.path.abspath(__file__)))
EVIDENCE_DIR = os.path.join(VERIF, "evidence")
REPLAY_DIR = os.path.join(EVIDENCE_DIR, "replay")
KNOWN_FILE = os.path.join(VERIF, "known_findings.json")

TRUSTED_BASE = [
    "CPython ast/compile front end and re._parser (the parsers the repo runs under)",
    "engine library model: which NumPy/SciPy/builtin callables copy, view or write their arguments; axis semantics of reductions; searchsorted side semantics",
    "repository conventions read by the rules: ref*/est* parameter prefixes, numpydoc Parameters/Returns sections, score keys as string constants, util.filter_kwargs as the only keyword router; library fact modelled by C03.DECORATED: a function wrapped by util.deprecated (decorator >= 5) keeps its parameters in inspect.signature but its __code__ is the (*args, **kw) wrapper",
    "no dynamic code in the analysed modules (rule PM-DYN, checked on every run)",
    "mathematical oracles not re-proved: |one-to-one matching| <= min(|A|,|B|); maximum-matching size is monotone in the edge set and invariant under transposition; max(a,b)=min(a,b)+(a-b)^+ +(b-a)^+; equality/differences invariant under a common shift; mod-12 arithmetic",
]


class Ob(object):
    """One obligation examined by a rule."""

    __slots__ = ("rule", "construct", "loc", "ok", "what", "detail")

    def __init__(self, rule, construct, loc, ok, what, detail=None):
        self.rule = rule
        self.construct = construct
        self.loc = loc
        self.ok = bool(ok)
        self.what = what
        self.detail = detail

    def key(self):
        return (self.rule, self.construct)

    def as_json(self):
        d = {"rule": self.rule, "construct": self.construct, "loc": self.loc, "verdict": "ok" if self.ok else "VIOLATED", "what": self.what}
        if self.detail:
            d["detail"] = self.detail
        return d


class Ctx(object):
    """Shared analysis context handed to every rule."""

    def __init__(self, repo=None, overrides=None, tier="quick"):
        self.tier = tier
        self.program = Program(repo, overrides=overrides)
        self.S = symeval.Summaries(self.program)
        self.cache = {}

    def func(self, qual, rule):
        return self.program.func(qual, rule)

    def summ(self, qual, rule="PM"):
        self.program.func(qual, rule)
        return self.S.get(qual)


def load_known():
    if not os.path.exists(KNOWN_FILE):
        return []
    with open(KNOWN_FILE) as fh:
        return json.load(fh).get("findings", [])


def run_rules(prop, rules, ctx, only_construct=None):
    """rules: list of (rule_id, floor, fn).  Returns (obs, errors)."""
    obs = []
    errors = []
    # PM-DYN guard first: any dynamic code invalidates the model for every property
    from .rules import common

    for rid, floor, fn in [("PM-DYN", 1, common.rule_pm_dyn)] + list(rules):
        try:
            got = list(fn(ctx))
        except AnalysisError as e:
            errors.append((rid, "%s" % e.why if e.rule == rid else "%s: %s" % (e.rule, e.why)))
            continue
        except RecursionError as e:
            errors.append((rid, "recursion limit in analysis"))
            continue
        except Exception as e:  # a traceback must not look like a violation
            tb = traceback.format_exc().strip().split("\n")
            errors.append((rid, "internal error: %s | %s" % (repr(e), " / ".join(tb[-4:]))))
            continue
        for o in got:
            if not o.rule:
                o.rule = rid
        # the floor is the count read on the reference tree; a refactoring may legitimately merge a few instances
        # (one shared allocation instead of two, one call instead of a forced assignment), a vanished anchor loses most
        eff = floor if floor <= 2 else max(2, (floor * 3 + 4) // 5)
        if len(got) < eff:
            errors.append((rid, "instance count %d fell below %d (60%% of the %d instances confirmed on the reference tree): the rule would pass vacuously" % (len(got), eff, floor)))
        obs.extend(got)
    if only_construct is not None:
        obs = [o for o in obs if o.construct == only_construct]
    return obs, errors


def finish(prop, tier, obs, errors, t0, explanation, rule_text, extra=None, selftest=None):
    """Print verdict lines, write evidence, return the exit code."""
    known = [k for k in load_known() if k.get("property") == prop]
    known_open = {(k["rule"], k["construct"]): k for k in known if k.get("status") == "known"}
    viol = [o for o in obs if not o.ok]
    # de-duplicate by key
    seen = {}
    for o in viol:
        seen.setdefault(o.key(), o)
    viol = list(seen.values())
    new = [o for o in viol if o.key() not in known_open]
    listed = [o for o in viol if o.key() in known_open]
    os.makedirs(REPLAY_DIR, exist_ok=True)
    for fn in os.listdir(REPLAY_DIR):
        if fn.startswith(prop + "-") and fn.endswith(".json"):
            try:
                os.remove(os.path.join(REPLAY_DIR, fn))
            except OSError:
                pass
    lines = []
    for o in listed:
        lines.append("KNOWN-FINDING: property=%s %s %s %s (%s)" % (prop, o.rule, o.construct, o.what, o.loc))
    replay_paths = []
    for o in new:
        h = hashlib.sha1(("%s|%s" % o.key()).encode()).hexdigest()[:12]
        path = os.path.join(REPLAY_DIR, "%s-%s.json" % (prop, h))
        with open(path, "w") as fh:
            json.dump({"property": prop, "rule": o.rule, "construct": o.construct, "loc": o.loc, "what": o.what, "detail": o.detail, "replay": "./vcheck %s --replay %s" % (prop, path)}, fh, indent=1)
        replay_paths.append(path)
        lines.append("VIOLATION property=%s replay=%s" % (prop, path))
        lines.append("  rule=%s construct=%s at %s: %s" % (o.rule, o.construct, o.loc, o.what))
    for rid, why in errors:
        lines.append("ANALYSIS-ERROR property=%s rule=%s %s" % (prop, rid, why))
    distinct = len({o.key() for o in obs})
    per_rule = {}
    for o in obs:
        r = per_rule.setdefault(o.rule, {"examined": 0, "discharged": 0})
        r["examined"] += 1
        r["discharged"] += 1 if o.ok else 0
    samples = []
    byrule = {}
    for o in obs:
        byrule.setdefault(o.rule, []).append(o)
    for r in sorted(byrule):
        for o in byrule[r][:3]:
            samples.append(o.as_json())
    for o in viol[:20]:
        samples.append(o.as_json())
    cov = {
        "explanation": explanation,
        "rule": rule_text,
        "evaluations": len(obs),
        "distinct_nontrivial": distinct,
        "obligations": len(obs),
        "discharged": sum(1 for o in obs if o.ok),
        "exhaustive": True,
        "checker_cmd": "./vcheck %s --tier %s" % (prop, tier),
        "trusted_base": TRUSTED_BASE,
        "per_rule": per_rule,
        "samples": samples,
        "analysis_errors": [{"rule": r, "why": w} for r, w in errors],
        "known_findings_reported": [list(o.key()) for o in listed],
    }
    if extra:
        cov.update(extra)
    if selftest is not None:
        cov["selftest"] = selftest
        cov["programs"] = selftest.get("mutants_total", 0)
    ev = {
        "property_id": prop,
        "tier": tier,
        "seed": int(os.environ.get("VERIF_SEED", "0") or 0),
        "level": "other",
        "coverage": cov,
        "assumptions": TRUSTED_BASE,
        "wall_s": round(time.time() - t0, 3),
        "violations": len(new),
    }
    os.makedirs(EVIDENCE_DIR, exist_ok=True)
    with open(os.path.join(EVIDENCE_DIR, "%s.json" % prop), "w") as fh:
        json.dump(ev, fh, indent=1, default=str)
    code = 0
    if new:
        code = 1
    elif errors:
        code = 2
    summary = "%s %s tier=%s obligations=%d discharged=%d distinct=%d new_violations=%d known=%d analysis_errors=%d wall=%.2fs" % (
        "PASS" if code == 0 else ("VIOLATION" if code == 1 else "ANALYSIS-ERROR"),
        prop,
        tier,
        len(obs),
        sum(1 for o in obs if o.ok),
        distinct,
        len(new),
        len(listed),
        len(errors),
        time.time() - t0,
    )
    for l in lines:
        print(l)
    print(summary)
    sys.stdout.flush()
    return code
