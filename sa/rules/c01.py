"""C01 - proportion-type scores are finite and lie in [0, 1] (structural clauses)."""

from __future__ import annotations

import math

from .. import terms as tm
from .. import oracles
from ..model import AnalysisError
from .common import ob, need, call_name, count_form, linear_form, positive_facts, positive_term, strip_numeric, resolve_ite_free, is_lit, lit, facts, role_of
from . import common
from .. import symeval

PROP = "C01"
EXPLANATION = (
    "Static decision of three mechanisms C01 names: (HITRATIO) every hit ratio divides the size of a one-to-one matching by the size of "
    "one of the two collections handed to that very matcher call, so it cannot exceed 1; (COUNTGUARD/GUARDTABLE) every division by a count "
    "of an input collection, and every value-denominator whose zero case the code special-cases today, is still guarded on every path to it "
    "(no 0/0 from empty or degenerate sides); (CONSTRET) every literal a scoring function can return, including early-return tuples, lies "
    "in the range of its entry kind and binary scores are syntactically Boolean; (ACCBOUND) a score accumulated in a loop and then normalised adds at most 1 "
    "per element of its driving collection and is divided by something structurally >= the size of that collection; (VALUEDEN) every other division "
    "by a data-dependent value is dominated by a test proving it non-zero, is a guarded combination of counts, depends on configuration only, or is in "
    "a reviewed table with the reason it cannot vanish on valid input.  Numeric ranges of the closed-form formulas themselves are not decided."
)
RULE_TEXT = "one obligation per division site / per literal return component; distinct = distinct (rule, function, site)"

MATCHERS = {
    "util.match_events": (0, 1),
    "transcription.match_notes": (0, 1, 2, 3),
    "transcription.match_note_onsets": (0, 1),
    "transcription.match_note_offsets": (0, 1),
    "transcription_velocity.match_notes": (0, 1, 2, 3, 4, 5),
}

SCOPE_SKIP = {"separation", "sonify", "io"}


def _ordinal(s, site):
    k = 0
    for x in s.sites:
        if x.kind == site.kind:
            if x is site:
                return k
            k += 1
    return -1


def rule_hitratio(ctx):
    n = 0
    for f in ctx.program.all_funcs():
        if f.module.name in SCOPE_SKIP:
            continue
        s = ctx.S.get(f.qual)
        for d in s.by_kind("div"):
            if d.d.get("op", "/") != "/":
                continue
            num = count_form(d.num)
            if num is None or num[0] != "len":
                continue
            m = num[1]
            if not (m.op == "call" and call_name(m) in MATCHERS):
                continue
            name = call_name(m)
            handed = [m.a[1][i] for i in MATCHERS[name] if i < len(m.a[1])]
            den = count_form(d.den)
            good = False
            why = "denominator %s is not a count" % tm.show(d.den, 3)
            if den is not None and (den[0] == "len" or (den[0] == "size" and name == "util.match_events")):
                # .size of a validated 1-d event array is its length
                base = den[1]
                good = any(base is h for h in handed)
                why = "denominator len(%s) %s one of the collections handed to %s" % (tm.show(base, 3), "is" if good else "is NOT", name)
            n += 1
            yield ob("C01.HITRATIO", f, "%s:ratio@%d" % (f.qual, _ordinal(s, d)), good, why, node=d.node)
    # multipitch: frame-wise relation, established in metrics()
    f = ctx.program.func("multipitch.metrics", "C01.HITRATIO")
    s = ctx.S.get(f.qual)
    calls = [c for c in s.calls() if c.callee in ("multipitch.compute_accuracy", "multipitch.compute_err_score")]
    need(len(calls) >= 4, "C01.HITRATIO", "multipitch.metrics no longer calls compute_accuracy/compute_err_score four times")
    for c in calls:
        good = False
        why = "unexpected argument shape"
        if len(c.args) == 3:
            tp, nr, ne = c.args
            if tp.op == "call" and call_name(tp) == "multipitch.compute_num_true_positives" and len(tp.a[1]) >= 2 and nr.op == "call" and ne.op == "call" and call_name(nr) == "multipitch.compute_num_freqs" and call_name(ne) == "multipitch.compute_num_freqs":
                a, b = tp.a[1][0], tp.a[1][1]
                ar, ae = nr.a[1][0], ne.a[1][0]

                def same_frames(x, y):
                    return x is y or (x.op == "call" and call_name(x) == "multipitch.midi_to_chroma" and x.a[1][0] is y)

                good = same_frames(a, ar) and same_frames(b, ae)
                why = "true positives are counted over (%s, %s) and normalised by the frame sizes of (%s, %s)" % (tm.show(a, 2), tm.show(b, 2), tm.show(ar, 2), tm.show(ae, 2))
        yield ob("C01.HITRATIO", f, "multipitch.metrics:%s@%d" % (c.callee, _ordinal(s, c)), good, why, node=c.node)
    # ... and per frame the count is the size of a matching over that frame pair
    f = ctx.program.func("multipitch.compute_num_true_positives", "C01.HITRATIO")
    s = ctx.S.get(f.qual)
    st = [m for m in s.by_kind("mutate") if m.how == "setitem" and m.root is not None]
    need(st, "C01.HITRATIO", "compute_num_true_positives: per-frame store not found")
    for m in st:
        val = m.val
        if val.op == "comp" and val.a[0] == "list" and len(val.a[2]) == 1 and not val.a[3]:
            # the per-frame counts collected by a comprehension over zip(ref_freqs, est_freqs) and stored as a block
            val = val.a[1]
        outer = []
        for x0 in resolve_ite_free(val):
            # len(a if c else b) is (len(a) if c else len(b))
            if x0.op == "call" and call_name(x0) == "builtins.len" and len(x0.a[1]) == 1 and x0.a[1][0].op == "ite":
                outer += [tm.call(x0.a[0], (y0,), x0.a[2]) for y0 in resolve_ite_free(x0.a[1][0])]
            else:
                outer.append(x0)
        mes = []
        good = True
        for x in outer:
            if x.op == "call" and call_name(x) == "builtins.len" and len(x.a[1]) == 1:
                for y in resolve_ite_free(x.a[1][0]):
                    if y.op == "call" and call_name(y) == "util.match_events":
                        mes.append(y)
                    else:
                        good = False
            else:
                good = False
        frames_ok = bool(mes)
        for me in mes:
            r, e = me.a[1][0], me.a[1][1]
            if not (r.op == "iter" and e.op == "iter" and r.a[1] == e.a[1] and r.a[0].op == "param" and e.a[0].op == "param" and role_of(r.a[0].a[0]) == "R" and role_of(e.a[0].a[0]) == "E"):
                frames_ok = False
        yield ob("C01.HITRATIO", f, "multipitch.compute_num_true_positives:frame-count", good and frames_ok, "per-frame true positives = len(match_events(ref frame, est frame, ...)) over zip(ref_freqs, est_freqs)", node=m.node)


# reviewed exemptions of COUNTGUARD: (function) -> reason
COUNT_REVIEWED = {
    # (function, shown denominator prefix) -> reason the guard on the inputs implies a non-empty denominator
    "beat.continuity": "the success vector has max(#reference variation, #estimates) entries and #estimates > 1 on this path",
    "segment.nce": "number of frames of an annotation that validate_structure accepted and that spans at least one frame (documented use)",
}

COUNT_EXEMPT = {
    "pattern.three_layer_FPR.compute_first_layer_PR": "inner occurrence lengths: an empty occurrence is outside the documented domain (pattern.validate documents only >= 1 occurrence per pattern)",
    "segment._adjusted_mutual_info_score": "private helper reached only from mutual_information after its emptiness exit (checked: caller guard)",
}


def _shares_param(a, b):
    return bool(tm.params_of(a) & tm.params_of(b))


def rule_countguard(ctx, rule="C01.COUNTGUARD"):
    for f in ctx.program.all_funcs():
        if f.module.name in SCOPE_SKIP:
            continue
        s = ctx.S.get(f.qual)
        for d in s.by_kind("div"):
            if d.d.get("op", "/") != "/":
                continue
            cf = count_form(d.den)
            if cf is None or cf[0] not in ("len", "size"):
                continue
            base = cf[1]
            if not tm.params_of(base):
                continue
            if f.qual in COUNT_EXEMPT:
                if f.qual == "segment._adjusted_mutual_info_score":
                    good, why = _caller_guards(ctx, f.qual)
                    yield ob(rule, f, "%s:count-den@%d" % (f.qual, _ordinal(s, d)), good, why, node=d.node)
                else:
                    yield ob(rule, f, "%s:count-den@%d" % (f.qual, _ordinal(s, d)), True, "reviewed exemption: %s" % COUNT_EXEMPT[f.qual], node=d.node)
                continue
            good = False
            witness = None
            reviewed = None
            for x in positive_facts(d.pc):
                g = count_form(x)
                if g is None:
                    continue
                # the very collection that is counted (or the same parameter counted another way)
                if g[1] is base or (g[1].op == "param" and base.op == "param" and g[1] is base):
                    good = True
                    witness = x
                    break
                if f.qual in COUNT_REVIEWED and _shares_param(g[1], base):
                    good = True
                    witness = x
                    reviewed = COUNT_REVIEWED[f.qual]
                helpers = [h for h in s.inlined if h in COUNT_EXEMPT]
                if not good and helpers and _shares_param(g[1], base):
                    # the division came here with a helper evaluated in place: the reviewed argument for that helper (its
                    # call sites are reached only after an emptiness exit on its inputs) is this very path condition
                    good = True
                    witness = x
                    reviewed = "division of %s, evaluated in place: %s" % (helpers[0], COUNT_EXEMPT[helpers[0]])
            yield ob(
                rule,
                f,
                "%s:count-den@%d" % (f.qual, _ordinal(s, d)),
                good,
                ("division by %s is reached only when %s is non-zero%s" % (tm.show(d.den, 3), tm.show(witness, 3), (" (reviewed: %s)" % reviewed) if reviewed else "")) if good else "division by the count %s is not guarded by an emptiness test on that very collection (0/0 or ZeroDivisionError for an empty side)" % tm.show(d.den, 3),
                node=d.node,
            )


def _caller_guards(ctx, qual):
    ok_all = True
    n = 0
    for f in ctx.program.all_funcs():
        s = ctx.S.get(f.qual)
        for c in s.calls():
            if c.callee == qual:
                n += 1
                pos = [count_form(x) for x in positive_facts(c.pc)]
                pos = [p for p in pos if p is not None]
                argp = set()
                for a in c.args:
                    argp |= tm.params_of(a)
                if not any(tm.params_of(p[1]) & argp for p in pos):
                    ok_all = False
    if n == 0:
        raise AnalysisError("C01.COUNTGUARD", "%s has no caller" % qual)
    return ok_all, "every one of the %d call sites of %s is reached only after an emptiness exit on its inputs" % (n, qual)


# ------------------------------------------------------------------ GUARDTABLE
# (function, description, predicate on the denominator term, minimum number of such divisions)


def _is_sum(t):
    return t.op == "call" and call_name(t) in ("np.sum", "builtins.sum")


GUARD_INSTANCES = [
    ("util.f_measure", "harmonic-mean denominator", lambda d: {"precision", "recall"} <= tm.params_of(d), 1),
    ("segment.nce", "entropy normaliser z_ref / z_est", lambda d: d.op == "ite" and "marginal" in tm.params_of(d.a[0]), 2),
    ("hierarchy._gauc", "per-query normaliser / frame counter", lambda d: True, 2),
    ("multipitch.compute_accuracy", "sum of counts", _is_sum, 3),
    ("multipitch.compute_err_score", "reference count sum", _is_sum, 4),
    ("melody.voicing_recall", "number of voiced reference frames", _is_sum, 1),
    ("melody.voicing_false_alarm", "number of unvoiced reference frames", _is_sum, 1),
    ("melody.raw_pitch_accuracy", "reference voicing mass", _is_sum, 1),
    ("melody.raw_chroma_accuracy", "reference voicing mass", _is_sum, 1),
    ("melody.overall_accuracy", "reference voicing mass", _is_sum, 1),
    ("tempo.detection", "reference tempo", lambda d: "reference_tempi" in tm.params_of(d), 1),
    ("transcription_velocity.match_notes", "velocity range (floored at 1)", lambda d: "ref_velocities" in tm.params_of(d), 1),
    ("segment._normalized_mutual_info_score", "sqrt(h_true*h_pred) (floored at 1e-10)", lambda d: True, 1),
    ("separation._safe_db", "energy denominator", lambda d: "den" in tm.params_of(d), 1),
    ("alignment.percentage_correct_segments", "duration", lambda d: True, 1),
]


def _fmeasure_guard(d):
    """not (precision == 0 and recall == 0) on the path to the division."""
    for c, p in symeval.pc_conds(d.pc):
        if not p and c.op == "bool" and c.a[0] == "and":
            zs = set()
            for x in c.a[1:]:
                if x.op == "cmp" and x.a[0] == "==":
                    for u, v in ((x.a[1], x.a[2]), (x.a[2], x.a[1])):
                        if tm.is_const(u, 0) and v.op == "param":
                            zs.add(v.a[0])
            if {"precision", "recall"} <= zs:
                return True
    # any guard proving one of the two operands non-zero is as good
    for x in positive_facts(d.pc):
        if x.op == "param" and x.a[0] in ("precision", "recall"):
            return True
    return False


def rule_guardtable(ctx):
    for qual, desc, pred, minimum in GUARD_INSTANCES:
        f = ctx.program.func(qual, "C01.GUARDTABLE")
        s = ctx.S.get(qual)
        hits = [d for d in s.by_kind("div") if d.d.get("op", "/") == "/" and not is_lit(strip_numeric(d.den)) and pred(strip_numeric(d.den))]
        if len(hits) < minimum:
            raise AnalysisError("C01.GUARDTABLE", "%s: expected >= %d divisions by the %s, found %d" % (qual, minimum, desc, len(hits)))
        for d in hits:
            if qual == "util.f_measure":
                good = _fmeasure_guard(d) or positive_term(d.den, d.pc)
            else:
                good = positive_term(d.den, d.pc)
            yield ob("C01.GUARDTABLE", f, "%s:guard@%d" % (qual, _ordinal(s, d)), good, ("division by the %s (%s) is reached only when it is non-zero" if good else "division by the %s (%s) is no longer dominated by its zero-test") % (desc, tm.show(d.den, 3)), node=d.node)
    # chord.weighted_accuracy: the normaliser is the comparable weight; all three degenerate cases exit first
    f = ctx.program.func("chord.weighted_accuracy", "C01.GUARDTABLE")
    s = ctx.S.get(f.qual)
    divs = [d for d in s.by_kind("div") if d.d.get("op", "/") == "/" and "weights" in tm.params_of(d.den)]
    need(divs, "C01.GUARDTABLE", "chord.weighted_accuracy: normalising division not found")
    for d in divs:
        pos = positive_facts(d.pc)
        total = any(_is_sum(x) and x.a[1][0].op == "param" and x.a[1][0].a[0] == "weights" for x in pos)
        comparable = any((_is_sum(x) or (x.op == "call" and call_name(x) in ("np.any", "builtins.any"))) and "comparisons" in tm.params_of(x) and "weights" not in tm.params_of(x) for x in pos)
        own = positive_term(d.den, d.pc)
        yield ob("C01.GUARDTABLE", f, "chord.weighted_accuracy:zero-total", total, "exit when all weights are zero precedes the normalisation", node=d.node)
        yield ob("C01.GUARDTABLE", f, "chord.weighted_accuracy:no-comparable", comparable, "exit when no comparison is comparable precedes the normalisation", node=d.node)
        yield ob("C01.GUARDTABLE", f, "chord.weighted_accuracy:zero-comparable-weight", own, "division by the comparable weight %s is reached only when it is non-zero (else 0/0 = NaN when every comparable interval has zero weight)" % tm.show(d.den, 3), node=d.node)


# -------------------------------------------------------------------- CONSTRET


def _in_kind(v, kind):
    if isinstance(v, bool):
        v = float(v)
    if v is None or not isinstance(v, (int, float)):
        return False
    if isinstance(v, float) and math.isnan(v):
        return kind == "D"
    if kind in ("P", "C"):
        return 0.0 <= v <= 1.0
    if kind == "B":
        return v in (0.0, 1.0)
    if kind == "U":
        return v <= 1.0
    if kind in ("E", "D", "M"):
        return v >= 0.0 and not math.isinf(v)
    return False


def _literal_of(t):
    if is_lit(t):
        return True, lit(t)
    if t.op == "ext" and t.a[0] in ("np.nan", "np.NaN", "np.NAN"):
        return True, float("nan")
    if t.op == "ext" and t.a[0] in ("np.inf", "np.Inf"):
        return True, float("inf")
    return False, None


def _boolean_valued(t):
    if t.op in ("cmp", "bool"):
        return True
    if t.op == "const" and t.a[0] in (0.0, 1.0, True, False):
        return True
    if t.op == "call" and call_name(t) in ("builtins.bool", "np.all", "np.any"):
        return True
    if t.op == "call" and call_name(t) in ("builtins.float", "builtins.int") and len(t.a[1]) == 1:
        return _boolean_valued(t.a[1][0])
    if t.op == "call" and call_name(t) == "astype" and t.a[1]:
        return _boolean_valued(t.a[1][0])
    return False


def rule_constret(ctx):
    seen = set()
    for task in oracles.TASKS:
        for key, src, pos, kind in oracles.SCORES[task]:
            if src is None or (src, pos) in seen:
                continue
            seen.add((src, pos))
            f = ctx.program.func(src, "C01.CONSTRET")
            s = ctx.S.get(src)
            need(s.returns, "C01.CONSTRET", "%s has no return" % src)
            for ri, r in enumerate(s.returns):
                t = r.term
                comp = None
                if pos is None:
                    comp = t
                    if t.op == "tuple":
                        continue  # arity defects are C03.ARITY's business
                else:
                    if t.op == "tuple" and pos < len(t.a):
                        comp = t.a[pos]
                    else:
                        continue  # delegating return (e.g. vmeasure -> nce): checked at the callee
                for leaf in resolve_ite_free(comp):
                    isl, v = _literal_of(leaf)
                    if isl:
                        good = _in_kind(v, kind)
                        yield ob("C01.CONSTRET", f, "%s[%s]:literal@%d" % (src, "" if pos is None else pos, ri), good, "returns the literal %r for an entry of kind %s" % (v, kind), node=r.node)
                    elif kind == "B":
                        good = _boolean_valued(leaf)
                        yield ob("C01.CONSTRET", f, "%s[%s]:binary@%d" % (src, "" if pos is None else pos, ri), good, "binary score returns %s" % tm.show(leaf, 3), node=r.node)
    # key.weighted_score returns literals only
    s = ctx.S.get("key.weighted_score")
    f = ctx.program.func("key.weighted_score")
    alllit = all(_literal_of(r.term)[0] for r in s.returns)
    why = "every return of the key score is a literal (range decided above)"
    if not alllit:
        from .c04 import key_decision_table

        tab = key_decision_table(ctx)
        if tab is None:
            raise AnalysisError("C01.CONSTRET", "key.weighted_score returns a computed value and its decision table cannot be evaluated")
        alllit = all(0.0 <= v <= 1.0 for v in tab.values())
        why = "the key score, evaluated on all %d key pairs, takes the values %s" % (len(tab), sorted(set(tab.values())))
    yield ob("C01.CONSTRET", f, "key.weighted_score:literals-only", alllit, why)


# ------------------------------------------------------------- WEIGHTEDMEAN / FFORM


def _prod_factors(t):
    if t.op == "bin" and t.a[0] == "*":
        return _prod_factors(t.a[1]) + _prod_factors(t.a[2])
    return [t]


WEIGHTED = ["melody.voicing_recall", "melody.voicing_false_alarm", "melody.raw_pitch_accuracy", "melody.raw_chroma_accuracy"]


def rule_weightedmean(ctx):
    """sum(w * x) / sum(w'): the normaliser sums the very weights that weight the numerator
    (possibly masked in the numerator), so the ratio of a [0,1]-valued x cannot exceed 1."""
    R = "C01.WEIGHTEDMEAN"
    for q in WEIGHTED:
        f = ctx.program.func(q, R)
        s = ctx.S.get(q)
        main = [r for r in s.returns if not is_lit(r.term)]
        need(len(main) == 1, R, "%s: formula return not found" % q)
        t = main[0].term
        good = False
        why = "score is not sum(weights * indicator) / sum(weights)"
        if t.op == "bin" and t.a[0] == "/" and t.a[1].op == "call" and call_name(t.a[1]) == "np.sum" and t.a[2].op == "call" and call_name(t.a[2]) == "np.sum":
            w = t.a[2].a[1][0]
            facs = _prod_factors(t.a[1].a[1][0])
            same = [x for x in facs if x is w or (x.op == "sub" and x.a[0] is w)]
            others = [x for x in facs if x not in same]
            bounded = all(_unit_valued(x, f) for x in others)
            good = len(same) == 1 and bounded
            why = "numerator sums %s times %d factor(s) valued in [0, 1]; normaliser sums %s" % (tm.show(same[0], 2) if same else "?", len(others), tm.show(w, 2))
            if not same:
                why = "normaliser sums %s, which is not the weight used in the numerator (%s): the ratio can exceed 1" % (tm.show(w, 2), ", ".join(tm.show(x, 2) for x in facs))
        yield ob(R, f, "%s:normaliser" % q, good, why, node=main[0].node)


def _unit_valued(x, f):
    if x.op in ("cmp", "bool"):
        return True
    if x.op == "sub":
        return _unit_valued(x.a[0], f)
    if x.op == "param" and "voicing" in x.a[0]:
        return True  # validate_voicing: within [0, 1]
    if x.op == "call" and call_name(x) == "astype" and x.a[1] and x.a[1][0].op in ("cmp", "bool"):
        return True
    return False


def rule_fform(ctx):
    """util.f_measure is the weighted harmonic mean (1 + b^2) P R / (b^2 P + R): it lies between min(P, R) and max(P, R)."""
    from ..mirror import Mirror

    R = "C01.FFORM"
    f = ctx.program.func("util.f_measure", R)
    s = ctx.S.get(f.qual)
    main = [r for r in s.returns if not is_lit(r.term)]
    need(len(main) == 1, R, "util.f_measure: formula return not found")
    P, Rc, b = tm.param("precision"), tm.param("recall"), tm.param("beta")
    b2 = tm.binop("**", b, tm.const(2))
    ref = tm.binop("/", tm.binop("*", tm.binop("*", tm.binop("+", tm.const(1), b2), P), Rc), tm.binop("+", tm.binop("*", b2, P), Rc))
    M = Mirror(f)
    good = M.norm(main[0].term) is M.norm(ref)
    yield ob(R, f, "util.f_measure:harmonic-mean", good, "F = (1 + beta^2) * P * R / (beta^2 * P + R)" if good else "F-measure term %s is not the weighted harmonic mean" % tm.show(main[0].term, 5), node=main[0].node)
    zero = [r for r in s.returns if is_lit(r.term)]
    yield ob(R, f, "util.f_measure:zero-case", len(zero) == 1 and lit(zero[0].term) == 0, "P = R = 0 returns 0")


# -------------------------------------------------------------------- ACCBOUND
# Scores formed as (value accumulated in a loop) / normaliser.  The accumulator grows by at most 1 per
# iteration of its *driving* loop (the enclosing loops it is not break-limited in), so it is bounded by
# the size of that loop's collection; the ratio stays <= 1 only if the normaliser is structurally >=
# that size: a count of the very collection, a max() containing it, a non-negative combination with
# coefficient >= 1 on it, or a counter advanced in lockstep with the accumulator.

ACC_FUNCS = {
    "beat.cemgil": 1,
    "pattern.standard_FPR": 2,
    "hierarchy._gauc": 1,
}

# increments that are in [0, 1] for a reason outside this rule: function -> (shape predicate on the ast value, reason)
ACC_UNIT_REVIEWED = {
    "hierarchy._gauc": "1 - inversions/normalizer: _compare_frame_rankings returns (inversions, number of compared pairs); C17.RANKPAIRS relates the two",
}


def _is_pos_ast(n):
    """literal > 0, even power, or product of such: a syntactically positive quantity."""
    import ast

    if isinstance(n, ast.Constant) and isinstance(n.value, (int, float)) and not isinstance(n.value, bool):
        return n.value > 0
    if isinstance(n, ast.BinOp) and isinstance(n.op, ast.Pow) and isinstance(n.right, ast.Constant) and isinstance(n.right.value, int) and n.right.value % 2 == 0:
        return True
    if isinstance(n, ast.BinOp) and isinstance(n.op, ast.Mult):
        return _is_pos_ast(n.left) and _is_pos_ast(n.right)
    if isinstance(n, ast.Call) and isinstance(n.func, ast.Name) and n.func.id == "float" and len(n.args) == 1:
        return _is_pos_ast(n.args[0])
    return False


def _is_nonneg_ast(n):
    import ast

    if _is_pos_ast(n):
        return True
    if isinstance(n, ast.Call):
        nm = ast.unparse(n.func)
        if nm in ("abs", "np.abs", "np.square", "np.fabs"):
            return True
    if isinstance(n, ast.BinOp) and isinstance(n.op, ast.Mult) and ast.dump(n.left) == ast.dump(n.right):
        return True
    return False


def _is_nonpos_ast(n):
    """-(nonneg), -(nonneg)/pos, (-(nonneg))/pos, -(nonneg/pos)."""
    import ast

    if isinstance(n, ast.UnaryOp) and isinstance(n.op, ast.USub):
        x = n.operand
        if _is_nonneg_ast(x):
            return True
        if isinstance(x, ast.BinOp) and isinstance(x.op, (ast.Div, ast.Mult)) and _is_nonneg_ast(x.left) and _is_pos_ast(x.right):
            return True
        return False
    if isinstance(n, ast.BinOp) and isinstance(n.op, (ast.Div, ast.Mult)):
        return (_is_nonpos_ast(n.left) and _is_pos_ast(n.right)) or (_is_pos_ast(n.left) and _is_nonpos_ast(n.right) and isinstance(n.op, ast.Mult))
    return False


def _unit_increment(v, qual):
    """(ok, exact_one, why) for the ast value added to the accumulator."""
    import ast

    if isinstance(v, ast.Constant) and v.value in (1, 1.0) and not isinstance(v.value, bool):
        return True, True, "1"
    if isinstance(v, ast.Call) and ast.unparse(v.func) in ("np.exp", "math.exp") and len(v.args) == 1 and _is_nonpos_ast(v.args[0]):
        return True, False, "exp(non-positive) in (0, 1]"
    if qual in ACC_UNIT_REVIEWED and isinstance(v, ast.BinOp) and isinstance(v.op, ast.Sub) and isinstance(v.left, ast.Constant) and v.left.value in (1, 1.0) and isinstance(v.right, ast.BinOp) and isinstance(v.right.op, ast.Div):
        return True, False, "reviewed: " + ACC_UNIT_REVIEWED[qual]
    return False, False, "increment %s is not recognisably within [0, 1]" % ast.unparse(v)[:60]


def _increments(loop_node, name):
    """[(stmt, value, chain of enclosing loops from loop_node inwards, stmt list containing it, index)] and other stores."""
    import ast

    incs = []
    others = []

    def walk(stmts, chain, lists=()):
        lists = lists + (id(stmts),)
        for i, st in enumerate(stmts):
            if isinstance(st, ast.AugAssign) and isinstance(st.target, ast.Name) and st.target.id == name:
                if isinstance(st.op, ast.Add):
                    incs.append((st, st.value, list(chain), stmts, i, lists))
                else:
                    others.append(st)
            elif isinstance(st, ast.Assign) and any(isinstance(t, ast.Name) and t.id == name for t in st.targets):
                v = st.value
                if isinstance(v, ast.BinOp) and isinstance(v.op, ast.Add) and isinstance(v.left, ast.Name) and v.left.id == name:
                    incs.append((st, v.right, list(chain), stmts, i, lists))
                elif isinstance(v, ast.BinOp) and isinstance(v.op, ast.Add) and isinstance(v.right, ast.Name) and v.right.id == name:
                    incs.append((st, v.left, list(chain), stmts, i, lists))
                else:
                    others.append(st)
            elif isinstance(st, (ast.For, ast.While)):
                walk(st.body, chain + [st], lists)
                walk(st.orelse, chain, lists)
            elif isinstance(st, ast.If):
                walk(st.body, chain, lists)
                walk(st.orelse, chain, lists)
            elif isinstance(st, ast.With):
                walk(st.body, chain, lists)
            elif isinstance(st, ast.Try):
                walk(st.body, chain, lists)
                for h in st.handlers:
                    walk(h.body, chain, lists)
                walk(st.orelse, chain, lists)
                walk(st.finalbody, chain, lists)

    walk(loop_node.body, [loop_node])
    return incs, others


def _pos_term(t):
    if t.op == "const" and isinstance(t.a[0], (int, float)) and not isinstance(t.a[0], bool):
        return t.a[0] > 0
    if t.op == "bin" and t.a[0] == "**" and t.a[2].op == "const" and isinstance(t.a[2].a[0], (int, float)) and t.a[2].a[0] % 2 == 0:
        return True
    if t.op == "bin" and t.a[0] == "*":
        return _pos_term(t.a[1]) and _pos_term(t.a[2])
    return False


def _nonneg_term(t):
    if _pos_term(t):
        return True
    if t.op == "call" and call_name(t) in ("np.abs", "builtins.abs", "np.square"):
        return True
    return False


def _unit_term(t):
    """(ok, why) for a summand given as a term: 1, or exp(-(nonneg)/(pos))"""
    if t.op == "const" and t.a[0] in (1, 1.0) and not isinstance(t.a[0], bool):
        return True, "1"
    if t.op == "call" and call_name(t) in ("np.exp", "math.exp") and len(t.a[1]) == 1:
        x = t.a[1][0]
        if x.op == "un" and x.a[0] == "-" and (_nonneg_term(x.a[1]) or (x.a[1].op == "bin" and x.a[1].a[0] in ("/", "*") and _nonneg_term(x.a[1].a[1]) and _pos_term(x.a[1].a[2]))):
            return True, "exp(non-positive) in (0, 1]"
        if x.op == "bin" and x.a[0] in ("/", "*") and x.a[1].op == "un" and x.a[1].a[0] == "-" and _nonneg_term(x.a[1].a[1]) and _pos_term(x.a[2]):
            return True, "exp(non-positive) in (0, 1]"
    if t.op in ("cmp", "bool") or (t.op == "un" and t.a[0] == "not") or (t.op == "call" and call_name(t) in ("builtins.any", "builtins.all", "np.any", "np.all", "builtins.bool")):
        return True, "a truth value (0 or 1)"
    if t.op == "ite":
        a, b = _unit_term(t.a[1]), _unit_term(t.a[2])
        za = tm.is_const(t.a[1], 0) or tm.is_const(t.a[1], False)
        zb = tm.is_const(t.a[2], 0) or tm.is_const(t.a[2], False)
        if (a[0] or za) and (b[0] or zb):
            return True, "1 or 0"
    return False, "summand %s is not recognisably within [0, 1]" % tm.show(t, 3)


def _sum_of_comp(t):
    """(element, iterable) when t is sum(<comprehension over one iterable, no filter>)"""
    t = strip_numeric(t)
    if t.op == "call" and call_name(t) in ("builtins.sum", "np.sum") and len(t.a[1]) >= 1:
        c = t.a[1][0]
        if c.op == "call" and call_name(c) in ("np.array", "np.asarray", "builtins.list") and c.a[1]:
            c = c.a[1][0]
        if c.op == "comp" and c.a[0] in ("gen", "list") and len(c.a[2]) == 1 and not c.a[3]:
            if len(t.a[1]) == 2 and not tm.is_const(t.a[1][1], 0):
                return None
            return c.a[1], c.a[2][0]
    return None


def _sum_of_vector(t):
    """(element, driving collection) when t is np.sum(V) with V an element-wise expression over the row-wise (axis=1) or
    column-wise (axis=0) reduction of an outer difference np.subtract.outer(A, B): one summand per element of A (resp. B)"""
    t = strip_numeric(t)
    if not (t.op == "call" and call_name(t) in ("np.sum", "builtins.sum") and len(t.a[1]) == 1 and not dict(t.a[2]).get("axis")):
        return None
    V = t.a[1][0]
    reds = []
    for x in tm.walk(V):
        if x.op == "call" and call_name(x) in ("np.min", "np.max", "np.amin", "np.amax") and x.a[1]:
            ax = dict(x.a[2]).get("axis", x.a[1][1] if len(x.a[1]) > 1 else None)
            outs = [y for y in tm.walk(x.a[1][0]) if y.op == "call" and call_name(y) == "np.subtract.outer" and len(y.a[1]) == 2]
            if ax is not None and ax.op == "const" and len({y.id for y in outs}) == 1:
                reds.append((x, int(ax.a[0]), outs[0]))
    if len({r[0].id for r in reds}) != 1:
        return None
    red, ax, out = reds[0]
    drv = out.a[1][0] if ax in (1, -1) else out.a[1][1]
    el = tm.mk("iter", drv, "VEC")
    elem = tm.rebuild(V, lambda z: el if z is red else None)
    if any(z is red for z in tm.walk(elem)):
        return None
    return elem, drv


def _outer_loop_term(t):
    """the outermost loop term of an accumulator (init may itself be threaded through loopvars)."""
    t = strip_numeric(t)
    return t if t.op == "loop" else None


def _acc_init(t):
    while t.op in ("loop", "loopvar"):
        t = t.a[2]
    return t


def _fingerprint(t):
    """rename-stable descriptor of a term: roles/params it reads and the callees it goes through."""
    names = set()
    for x in tm.walk(t):
        if x.op == "call":
            n = call_name(x)
            if n and n.split(".")[-1] not in ("len", "asarray", "array", "float", "int", "abs", "absolute"):
                # (how a size is taken - len(x), x.shape[0], x.size - and value-preserving wrappers are spellings, not identity)
                names.add(n.split(".")[-1])
        elif x.op == "loop":
            names.add("loop")
    ps = sorted(tm.params_of(t))
    return "%s|%s" % (",".join(ps), ",".join(sorted(names)))


def rule_accbound(ctx):
    import ast

    R = "C01.ACCBOUND"
    for qual, minimum in sorted(ACC_FUNCS.items()):
        f = ctx.program.func(qual, R)
        s = ctx.S.get(qual)
        hits = []
        sums = []
        for d in s.by_kind("div"):
            if d.d.get("op", "/") != "/":
                continue
            lt = _outer_loop_term(d.num)
            if lt is not None and not any(h[0].node is d.node for h in hits):
                hits.append((d, lt))
            elif lt is None and _sum_of_comp(d.num) is not None and not any(h[0].node is d.node for h in sums):
                sums.append((d, _sum_of_comp(d.num)))
            elif lt is None and _sum_of_vector(d.num) is not None and not any(h[0].node is d.node for h in sums):
                sums.append((d, _sum_of_vector(d.num)))
        # the same accumulation written as sum(<generator>) / normaliser
        for d, (elt, it_) in sums:
            okk, uwhy = _unit_term(elt)
            if not okk:
                continue
            cons = "%s:acc[%s]/[%s]" % (qual, _fingerprint(it_), _fingerprint(strip_numeric(d.den)))
            good, why = _den_covers(s, d, strip_numeric(d.den), it_, None, [], "the sum")
            if good is None:
                raise AnalysisError(R, "%s: normaliser %s of the summed scores is in no recognised form" % (qual, tm.show(d.den, 3)))
            hits_sum = getattr(rule_accbound, "_dummy", None)
            yield ob(R, f, cons, good, "the sum adds at most 1 (%s) per element of %s; %s" % (uwhy, tm.show(it_, 2), why), node=d.node)
        if sums and not hits:
            continue
        if len(hits) < minimum:
            raise AnalysisError(R, "%s: expected >= %d divisions of a loop accumulator, found %d" % (qual, minimum, len(hits)))
        seen_keys = {}
        for d, lt in hits:
            lid, name = lt.a[0], lt.a[1]
            if lid not in s.loops:
                raise AnalysisError(R, "%s: loop %s of accumulator %s not recorded" % (qual, lid, name))
            loop_node, _it = s.loops[lid]
            init = _acc_init(lt)
            if not tm.is_const(init, 0):
                raise AnalysisError(R, "%s: accumulator %s does not start at 0 (%s)" % (qual, name, tm.show(init, 2)))
            incs, others = _increments(loop_node, name)
            if others or not incs:
                raise AnalysisError(R, "%s: accumulator %s is also written other than by `+=` inside its loop" % (qual, name))
            # unit-bounded increments
            unit_ok = True
            unit_why = []
            for st, v, chain, stmts, i, _lists in incs:
                ok, exact, why = _unit_increment(v, qual)
                unit_why.append(why)
                if not ok:
                    unit_ok = False
            if not unit_ok:
                raise AnalysisError(R, "%s: %s" % (qual, "; ".join(unit_why)))
            # driving loops: enclosing loops in which the increment is not immediately followed by a break of that loop
            driving = None
            for st, v, chain, stmts, i, _lists in incs:
                drv = list(chain)
                j = i + 1
                while j < len(stmts) and isinstance(stmts[j], (ast.Expr, ast.Assign, ast.AugAssign, ast.Pass)) and not (isinstance(stmts[j], ast.AugAssign) and isinstance(stmts[j].target, ast.Name) and stmts[j].target.id == name):
                    j += 1
                if j < len(stmts) and isinstance(stmts[j], ast.Break):
                    drv = drv[:-1]  # at most once per run of the innermost loop
                ids = [id(x) for x in drv]
                if driving is None:
                    driving = drv
                elif [id(x) for x in driving] != ids:
                    raise AnalysisError(R, "%s: increments of %s sit in different loop nests" % (qual, name))
            if len(driving) != 1:
                raise AnalysisError(R, "%s: accumulator %s is driven by %d nested loops; only single-loop bounds are decided" % (qual, name, len(driving)))
            drv_node = driving[0]
            drv_it = None
            for l2, (n2, it2) in s.loops.items():
                if n2 is drv_node:
                    drv_it = it2
            if drv_it is None:
                raise AnalysisError(R, "%s: driving loop of %s not recorded" % (qual, name))
            cons = "%s:acc[%s]/[%s]" % (qual, _fingerprint(drv_it), _fingerprint(strip_numeric(d.den)))
            seen_keys[cons] = seen_keys.get(cons, 0) + 1
            if seen_keys[cons] > 1:
                cons = "%s#%d" % (cons, seen_keys[cons])
            good, why = _den_covers(s, d, strip_numeric(d.den), drv_it, drv_node, incs, name)
            if good is None:
                raise AnalysisError(R, "%s: normaliser %s of accumulator %s is in no recognised form" % (qual, tm.show(d.den, 3), name))
            yield ob(
                R,
                f,
                cons,
                good,
                ("%s grows by at most 1 (%s) per element of %s; %s" % (name, unit_why[0], tm.show(drv_it, 2), why)),
                node=d.node,
            )


def _same_coll(base, it):
    if base is it:
        return True
    # len(x) where the loop runs over x, or over range(len(x)) / enumerate(x)
    if it.op == "call" and call_name(it) in ("builtins.range",) and len(it.a[1]) == 1:
        cf = count_form(it.a[1][0])
        return cf is not None and cf[1] is base
    if it.op == "call" and call_name(it) in ("builtins.enumerate", "builtins.list", "builtins.sorted", "builtins.reversed") and it.a[1]:
        return _same_coll(base, it.a[1][0])
    return False


def _den_covers(s, d, den, drv_it, drv_node, incs, name):
    """(True/False/None, why): is the normaliser structurally >= the size of the driving collection?"""
    import ast

    # lockstep counter
    if den.op == "loop":
        cname = den.a[1]
        loop_node = s.loops[den.a[0]][0] if den.a[0] in s.loops else None
        if loop_node is None or not tm.is_const(_acc_init(den), 0):
            return None, ""
        cincs, cothers = _increments(loop_node, cname)
        if cothers or not cincs:
            return None, ""
        lock = True
        for (st, v, chain, stmts, i, lists) in incs:
            # a counter increment of exactly 1 in the same block or in a block enclosing it inside the same driving loop
            sib = [c for c in cincs if id(c[3]) in lists and [id(x) for x in c[2]] == [id(x) for x in chain][: len(c[2])] and isinstance(c[1], ast.Constant) and c[1].value in (1, 1.0) and not isinstance(c[1].value, bool)]
            if not sib:
                lock = False
        if lock:
            return True, "the normaliser %s is advanced by exactly 1 in the same (or an enclosing) block as every increment" % cname
        return False, "the normaliser %s is a counter that does not advance with every increment of %s: the mean of [0,1] terms can exceed 1" % (cname, name)
    sc = _sum_of_comp(den)
    if sc is not None and tm.is_const(sc[0], 1):
        # a counter advanced by 1 on every iteration of a loop, canonicalised to sum(1 for _ in X)
        if sc[1] is drv_it or _same_coll(sc[1], drv_it):
            return True, "the normaliser counts every iteration over that very collection"
        return False, "but the normaliser counts the iterations over %s, a different collection" % tm.show(sc[1], 2)
    cf = count_form(den)
    if cf is not None:
        if _same_coll(cf[1], drv_it):
            return True, "the normaliser counts that very collection"
        return False, "but the normaliser counts %s, a different collection: the ratio exceeds 1 whenever several elements of the driving collection score against fewer elements there" % tm.show(cf[1], 2)
    if den.op == "call" and call_name(den) in ("np.max", "builtins.max", "np.maximum"):
        args = list(den.a[1])
        if len(args) == 1 and args[0].op in ("list", "tuple"):
            args = list(args[0].a)
        cfs = [count_form(a) for a in args]
        if cfs and all(c is not None for c in cfs):
            if any(_same_coll(c[1], drv_it) for c in cfs):
                return True, "the normaliser is a max() that includes the count of that collection"
            return False, "but the normaliser is a max() of counts of other collections"
        return None, ""
    lf = linear_form(den)
    if lf:
        cov = 0.0
        allcounts = True
        nonneg = True
        for k, (c, x) in lf.items():
            cfx = count_form(x)
            if cfx is None:
                allcounts = False
                continue
            if c < 0:
                nonneg = False
            if _same_coll(cfx[1], drv_it):
                cov += c
        if allcounts and nonneg:
            if cov >= 1.0 - 1e-12:
                return True, "the normaliser is a non-negative combination of counts with weight %.3g >= 1 on that collection" % cov
            return False, "but the normaliser %s puts weight %.3g < 1 on the size of that collection: the ratio exceeds 1 when the other side is smaller and several driving elements score ~1" % (tm.show(den, 3), cov)
    return None, ""



# -------------------------------------------------------------------- VALUEDEN
# Census of every remaining `/` whose denominator is computed from the data (not a literal, not a
# plain count - COUNTGUARD has those).  Such a division yields NaN/inf for the degenerate input that
# zeroes the denominator unless (a) a test on the path proves it non-zero, (b) it is a non-negative
# combination / max of counts one of which is proved non-empty, (c) it depends on configuration
# parameters only, or (d) it is listed below with the reason it cannot vanish on valid input.

def _mentions(*names):
    def pred(den):
        got = set()
        for x in tm.walk(den):
            if x.op == "call":
                n = call_name(x)
                if n:
                    got.add(n)
            elif x.op == "param":
                got.add("p:" + x.a[0])
        return all(n in got for n in names)

    return pred


VALUEDEN_REVIEWED = [
    # (function, predicate on the denominator term, reason)
    ("beat.goto", _mentions("p:reference_beats"), "half inter-beat interval of the reference; zero only between duplicated beats, and the quotient only feeds threshold comparisons (inf/NaN compare False), so the Boolean result stays 0/1"),
    ("beat.continuity", _mentions("beat._get_reference_beat_variations"), "reference inter-beat interval; as for goto the quotient only feeds `<` comparisons against the continuity thresholds"),
    ("beat._get_entropy", _mentions("np.histogram"), "number of beat errors that fell into a bin; information_gain exits before calling when either side has < 2 beats and np.mod folds every finite error into the binned range"),
    ("beat._get_entropy", _mentions("p:reference_beats"), "half reference inter-beat interval used to normalise a beat error before it is histogrammed; non-finite errors fall outside every bin"),
    ("chord.directional_hamming_distance", _mentions("p:reference_intervals"), "span of the reference intervals; validate_intervals enforces positive durations, so the span of a non-empty annotation is > 0"),
    ("pattern._compute_score_matrix", _mentions("builtins.len"), "max of two occurrence lengths; occurrences of a validated pattern are non-empty (documented domain of pattern.validate)"),
    ("segment._adjusted_rand_index", _mentions("scipy.special.comb"), "number of frame pairs and (mean - expected) pair counts; the degenerate partitions (one cluster each, all singletons, < 2 frames) return 1.0 before this line"),
    ("segment._mutual_info_score", _mentions("segment._contingency_matrix"), "total of the contingency table = number of frames; mutual_information exits on empty annotations first"),
    ("segment._entropy", _mentions("np.bincount"), "total of the label histogram = number of frames (> 0 for a non-empty label sequence)"),
    ("segment._entropy", _mentions("np.unique"), "total of the label counts (np.unique(.., return_counts=True)) = number of frames (> 0 for a non-empty label sequence)"),
    ("segment._adjusted_mutual_info_score", _mentions("segment._entropy"), "max(H_ref, H_est) - E[MI]; the one-cluster / all-singleton cases that make it 0 return 1.0 before this line (sklearn's special cases)"),
    ("transcription.average_overlap_ratio", _mentions("builtins.max", "builtins.min"), "length of the union of two matched notes; validate_intervals enforces positive durations, so the union is > 0"),
    ("hierarchy._lca", _mentions("p:frame_size"), "frame_size is validated > 0 by lmeasure before the helper is reached (C14.FACETS lmeasure:frame_size)"),
    ("hierarchy._meet", _mentions("p:frame_size"), "frame_size is validated > 0 by tmeasure before the helper is reached (C14.FACETS tmeasure:frame_size)"),
    ("melody.constant_hop_timebase", _mentions("p:hop"), "hop is the caller's step size, a configuration value documented positive"),
]


def _config_only(den, f):
    ps = tm.params_of(den)
    if not ps:
        return False
    for x in tm.walk(den):
        if x.op in ("iter", "loop", "loopvar", "glob", "idx", "nondet"):
            return False
    for p in ps:
        if p not in f.defaults:
            return False
        okv, v = f.default_value(p)
        if not okv or not isinstance(v, (int, float)) or isinstance(v, bool):
            return False
    return True


_SCALAR_REDUCTIONS = ("np.min", "np.max", "builtins.min", "builtins.max", "np.median", "np.mean", "np.sum")


def _scalar_valued(t):
    if t.op == "const":
        return True
    if t.op == "call" and call_name(t) in _SCALAR_REDUCTIONS and not any(k == "axis" for k, _ in t.a[2]):
        return True
    return False


def _shape_source(t):
    """the collection whose element count ``t`` has: sees through copies and element-wise arithmetic with scalars."""
    for _ in range(8):
        if t.op == "call" and call_name(t) in ("np.array", "np.asarray", "np.copy", "np.abs", "np.sort") and len(t.a[1]) >= 1:
            t = t.a[1][0]
            continue
        if t.op == "bin" and t.a[0] in ("+", "-", "*", "/"):
            if _scalar_valued(t.a[2]):
                t = t.a[1]
                continue
            if _scalar_valued(t.a[1]):
                t = t.a[2]
                continue
        break
    return t


def _counts_with_guard(den, pc):
    """non-negative combination or max of counts, one of them over a collection proved non-empty."""
    guarded = [b for k, b in ((c[0], c[1]) for c in [count_form(x) for x in positive_facts(pc)] if c is not None)]

    def is_guarded(base):
        if any(base is g for g in guarded):
            return True
        # np.array(x - offset) etc.: same number of elements as a guarded collection
        src = _shape_source(base)
        return any(src is g for g in guarded)

    items = None
    if den.op == "call" and call_name(den) in ("np.max", "builtins.max", "np.maximum"):
        items = list(den.a[1])
        if len(items) == 1 and items[0].op in ("list", "tuple"):
            items = list(items[0].a)
        cfs = [count_form(x) for x in items]
        if cfs and all(c is not None for c in cfs):
            return any(is_guarded(c[1]) for c in cfs)
        return False
    lf = linear_form(den)
    if not lf:
        return False
    hit = False
    for k, (c, x) in lf.items():
        cf = count_form(x)
        if cf is None or c < 0:
            return False
        if is_guarded(cf[1]):
            hit = True
    return hit


def rule_valueden(ctx):
    R = "C01.VALUEDEN"
    matched = set()
    for f in ctx.program.all_funcs():
        if f.module.name in SCOPE_SKIP or f.module.name == "display":
            continue
        s = ctx.S.get(f.qual)
        seen_nodes = set()
        seen_keys = {}
        for d in s.by_kind("div"):
            if d.d.get("op", "/") != "/":
                continue
            den = strip_numeric(d.den)
            if is_lit(den) or count_form(d.den) is not None:
                continue
            pos = (d.node.lineno, d.node.col_offset, den.id)
            if pos in seen_nodes:
                continue
            seen_nodes.add(pos)
            cons = "%s:den[%s]" % (f.qual, _fingerprint(den))
            seen_keys[cons] = seen_keys.get(cons, 0) + 1
            if seen_keys[cons] > 1:
                cons = "%s#%d" % (cons, seen_keys[cons])
            if positive_term(d.den, d.pc) or (f.qual == "util.f_measure" and _fmeasure_guard(d)):
                yield ob(R, f, cons, True, "a test on every path to the division proves %s non-zero" % tm.show(den, 3), node=d.node)
                continue
            if _config_only(den, f):
                yield ob(R, f, cons, True, "%s depends on configuration parameters only (%s)" % (tm.show(den, 3), ", ".join(sorted(tm.params_of(den)))), node=d.node)
                continue
            if _counts_with_guard(den, d.pc):
                yield ob(R, f, cons, True, "%s is a non-negative combination / max of counts, one over a collection proved non-empty on this path" % tm.show(den, 3), node=d.node)
                continue
            why = None
            for i, (q, pred, reason) in enumerate(VALUEDEN_REVIEWED):
                if (q == f.qual or q in getattr(s, "inlined", ())) and pred(den):  # a review follows its code into the caller it was inlined into
                    why = reason
                    matched.add(i)
                    break
            if why is not None:
                yield ob(R, f, cons, True, "reviewed: %s" % why, node=d.node)
            else:
                yield ob(R, f, cons, False, "division by the data-dependent value %s: no test on the path proves it non-zero and it is in no reviewed class, so the degenerate input that zeroes it yields NaN/inf instead of a finite score" % tm.show(den, 4), node=d.node)
    # a reviewed denominator that is gone (rewritten, guarded, inlined elsewhere) needs no review; a vanished function is an anchor lost
    gone = sorted({VALUEDEN_REVIEWED[i][0] for i in range(len(VALUEDEN_REVIEWED)) if not ctx.program.has_func(VALUEDEN_REVIEWED[i][0])})
    if gone:
        raise AnalysisError(R, "functions with reviewed denominators vanished: %s" % ", ".join(gone))



# ------------------------------------------------------------- SETBOUND / ENTROPYNORM


def rule_setbound(ctx):
    """pattern cardinality score = |P_i & Q_j| / max(|P_i|, |Q_j|): the numerator is the size of a *set*
    intersection of the very two occurrences whose lengths form the denominator, so each cell is <= 1
    (the establishment / occurrence / three-layer scores are means and maxima of such cells)."""
    R = "C01.SETBOUND"
    g = ctx.program.func("pattern._occurrence_intersection", R)
    sg = ctx.S.get(g.qual)
    need(len(sg.returns) == 1, R, "_occurrence_intersection: single return expected")
    t = sg.returns[0].term
    good = False
    why = "returns %s, which is not a set intersection: repeated (onset, midi) pairs are counted more than once and a cell can exceed 1" % tm.show(t, 3)
    if t.op == "bin" and t.a[0] == "&":
        sides = [t.a[1], t.a[2]]
        if all((x.op == "call" and call_name(x) in ("builtins.set", "builtins.frozenset")) or (x.op == "comp" and x.a[0] == "set") for x in sides):
            ps = [tm.params_of(x) for x in sides]
            good = {"occ_P"} in ps and {"occ_Q"} in ps
            why = "returns set(occ_P) & set(occ_Q)"
    elif t.op == "call" and call_name(t) in (".intersection",) and t.a[1] and t.a[1][0].op == "call" and call_name(t.a[1][0]) in ("builtins.set", "builtins.frozenset"):
        good = True
        why = "returns set(..).intersection(..)"
    yield ob(R, g, "pattern._occurrence_intersection:set", good, why, node=sg.returns[0].node)
    f = ctx.program.func("pattern._compute_score_matrix", R)
    s = ctx.S.get(f.qual)
    st = [m for m in s.by_kind("mutate") if m.how == "setitem" and m.key.op == "tuple"]
    need(len(st) == 1, R, "_compute_score_matrix: single cell store expected")
    cell = st[0].val
    good = False
    why = "cell %s is not len(intersection(P_i, Q_j)) / max(len(P_i), len(Q_j))" % tm.show(cell, 4)
    if cell.op == "bin" and cell.a[0] == "/":
        num = count_form(cell.a[1])
        den = strip_numeric(cell.a[2])
        if num is not None and num[0] == "len" and num[1].op == "call" and call_name(num[1]) == "pattern._occurrence_intersection" and len(num[1].a[1]) == 2:
            x, y = num[1].a[1]
            if den.op == "call" and call_name(den) in ("np.max", "builtins.max", "np.maximum"):
                items = list(den.a[1])
                if len(items) == 1 and items[0].op in ("list", "tuple"):
                    items = list(items[0].a)
                cfs = [count_form(i) for i in items]
                if len(cfs) == 2 and all(c is not None and c[0] == "len" for c in cfs):
                    bases = [c[1] for c in cfs]
                    good = (bases[0] is x and bases[1] is y) or (bases[0] is y and bases[1] is x)
                    why = "cell = len(intersection(a, b)) / max(len(a), len(b)) over the same two occurrences" if good else "the lengths in the denominator are not those of the two intersected occurrences"
    if not good and cell.op == "bin" and cell.a[0] == "/":
        num = count_form(cell.a[1])
        if num is not None and num[0] == "len" and ((num[1].op == "bin" and num[1].a[0] == "&") or (num[1].op == "call" and call_name(num[1]) == ".intersection")) and not any(z.op == "call" and call_name(z) == "pattern._occurrence_intersection" for z in tm.walk(cell)):
            # an intersection written out in the scoring loop over sets kept in local variables / look-up lists: which
            # occurrence each of them holds is not something this rule follows
            raise AnalysisError(R, "_compute_score_matrix: the cell numerator is %s - an intersection of sets held in local containers instead of _occurrence_intersection(occ_P, occ_Q); not read" % tm.show(cell.a[1], 3))
    yield ob(R, f, "pattern._compute_score_matrix:cell", good, why, node=st[0].node)


def rule_entropynorm(ctx):
    """information gain = (log2(bins) - H) / log2(bins) lies in [0, 1] only if H is the entropy of a histogram
    with that very number of bins (H <= log2(#bins))."""
    R = "C01.ENTROPYNORM"
    f = ctx.program.func("beat.information_gain", R)
    s = ctx.S.get(f.qual)
    calls = [c for c in s.calls() if c.callee == "beat._get_entropy"]
    inline_form = not calls and "beat._get_entropy" in s.inlined
    need(len(calls) == 2 or inline_form, R, "information_gain: forward/backward entropy calls not found")
    norms = [strip_numeric(d.den) for d in s.by_kind("div") if d.d.get("op", "/") == "/"]
    logs = [n for n in norms if n.op == "call" and call_name(n) == "np.log2" and len(n.a[1]) == 1]
    need(logs, R, "information_gain: normaliser log2(bins) not found")
    nb = logs[0].a[1][0]
    same = all(n is logs[0] for n in logs)
    g = ctx.program.func("beat._get_entropy", R, resigned_ok=True)
    for i, c in enumerate(calls):
        b = None
        if len(c.args) >= 3:
            b = c.args[2]
        else:
            b = dict(c.kw).get("bins")
        good = b is not None and b is nb and same
        yield ob(R, f, "beat.information_gain:bins@%d" % i, good, "entropy call %d histograms into %s bins and the score is normalised by log2(%s)" % (i, tm.show(b, 2) if b is not None else "its own default number of", tm.show(nb, 2)), node=c.node)
    # (a helper evaluated in place: its histogram calls are sites of information_gain, and `bins` is that function's own)
    if inline_form:
        for i, h in enumerate(c for c in s.calls() if c.callee == "np.histogram"):
            hb_ = h.args[1] if len(h.args) >= 2 else dict(h.kw).get("bins")
            yield ob(R, f, "beat.information_gain:bins@%d" % i, hb_ is not None and "bins" in tm.params_of(hb_) and same, "histogram %d is binned by information_gain's own `bins`, and the score is normalised by log2(%s)" % (i, tm.show(nb, 2)), node=h.node)
    sg = s if inline_form else ctx.S.get(g.qual)
    hist = [c for c in sg.calls() if c.callee == "np.histogram"]
    need(len(hist) == (2 if inline_form else 1), R, "_get_entropy: np.histogram call not found")
    if inline_form:
        need(all((h.args[1] if len(h.args) >= 2 else dict(h.kw).get("bins")) is (hist[0].args[1] if len(hist[0].args) >= 2 else dict(hist[0].kw).get("bins")) for h in hist), R, "the two histograms use different bin edges")
        need(nb.op == "param" and nb.a[0] == "bins", R, "information_gain: normaliser is not log2(bins)")
    hb = hist[0].args[1] if len(hist[0].args) >= 2 else dict(hist[0].kw).get("bins")
    okb = hb is not None and "bins" in tm.params_of(hb)
    # np.linspace(-0.5, 0.5, bins + 1): exactly `bins` bins
    exact = False
    if okb and hb.op == "call" and call_name(hb) == "np.linspace" and len(hb.a[1]) == 3:
        n = hb.a[1][2]
        lf = linear_form(n)
        consts = [c for k, (c, x) in lf.items() if x.op == "const"]
        exact = any(x.op == "param" and x.a[0] == "bins" and abs(c - 1.0) < 1e-12 for k, (c, x) in lf.items())
        exact = exact and tm.is_const(hb.a[1][0], -0.5) and tm.is_const(hb.a[1][1], 0.5)
    yield ob(R, g, "beat._get_entropy:histogram-bins", okb and exact, "the error histogram has `bins` bins over [-0.5, 0.5] (np.linspace(-0.5, 0.5, bins + 1))", node=hist[0].node)



def rule_nceform_shared(ctx):
    """Shared with C16.NCEFORM: each NCE / V-measure score is 1 - H(.|.) / Z with H and Z in the same base and Z the
    entropy (or its uniform bound) of the very variable H conditions, so 0 <= H <= Z and the score stays in [0, 1]."""
    from . import c16

    for o in c16.rule_nceform(ctx):
        o.rule = "C01.NCEFORM"
        yield o


def rule_matchsrc(ctx):
    """Shared with C05: the hit count in every ratio is the size of a one-to-one matching."""
    from . import c05

    for o in c05.rule_matchsrc(ctx):
        if ":return" in o.construct:
            o.rule = "C01.MATCHSRC"
            yield o


RANGE_PRESERVING_KINDS = ("zero", "nearest", "linear", "previous", "next", "nearest-up", "slinear")


def rule_voicinginterp(ctx):
    """Voicing confidences are resampled with an interpolation that never leaves the range of its data (sample-and-hold,
    nearest, piecewise linear): a spline (quadratic, cubic) over- and undershoots, so a voicing outside [0, 1] - and a
    voicing false alarm below 0 / recall above 1 - comes out of valid input.  Every interp1d over the voicing array
    takes a literal range-preserving kind, or the caller's `kind` under a guard that entails one."""
    from .. import finmodel

    R = "C01.VOICINGINTERP"
    f = ctx.program.func("melody.resample_melody_series", R)
    s = ctx.S.get(f.qual)
    sites = [c for c in s.calls() if c.callee == "scipy.interpolate.interp1d" and len(c.args) >= 2 and "voicing" in tm.params_of(c.args[1]) and "frequencies" not in tm.params_of(c.args[1])]
    need(len(sites) >= 1, R, "resample_melody_series: no interp1d over the voicing array found")
    n = 0
    for c in sites:
        n += 1
        kind0 = c.args[2] if len(c.args) > 2 else dict(c.kw).get("kind", tm.const("linear"))
        base_facts = [(c0, p0) for c0, p0 in symeval.pc_conds(c.pc)]

        def alts(k, facts_):
            if k.op == "ite":
                return alts(k.a[1], facts_ + [(k.a[0], True)]) + alts(k.a[2], facts_ + [(k.a[0], False)])
            return [(k, facts_)]

        good, whys = True, []
        for kind, facts_ in alts(kind0, base_facts):
            if kind.op == "const":
                ok1 = kind.a[0] in RANGE_PRESERVING_KINDS
                whys.append("kind=%r%s" % (kind.a[0], "" if ok1 else " over/undershoots the data range"))
            else:
                member = tm.cmp("in", kind, tm.mk("tuple", *[tm.const(k) for k in RANGE_PRESERVING_KINDS]))
                rel = [(c0, p0) for c0, p0 in facts_ if any(x is kind for x in tm.walk(c0))]
                ent = finmodel.entails(rel, member)
                if ent is None:
                    raise AnalysisError(R, "resample_melody_series: cannot decide which kinds reach interp1d(times, voicing, %s)" % tm.show(kind, 2))
                ok1 = bool(ent)
                whys.append("the caller's kind only under a guard that entails a range-preserving kind" if ok1 else "the caller's kind reaches interp1d(times, voicing, kind) without being restricted to %s (guard: %s): a quadratic / cubic spline leaves [0, 1]" % (RANGE_PRESERVING_KINDS, "; ".join("%s%s" % ("" if p0 else "not ", tm.show(c0, 3)) for c0, p0 in rel)))
            good = good and ok1
        yield ob(R, f, "melody.resample_melody_series:voicing-interp#%d" % n, good, "voicing is resampled with " + "; ".join(whys), node=c.node)


RULES = [
    ("C01.DURATIONBOUND", 2, common.shared("c14", "rule_facets", "C01.DURATIONBOUND", keep=lambda o: o.construct.startswith("alignment.percentage_correct_segments"))),
    ("C01.COUNTFORM", 1, common.shared("c18", "rule_countform", "C01.COUNTFORM")),
    ("C01.IMPULSETRAIN", 3, common.shared("c04", "rule_impulsetrain", "C01.IMPULSETRAIN")),
    ("C01.RANKPAIRS", 6, common.shared("c17", "rule_rankpairs", "C01.RANKPAIRS")),
    ("C01.OVERALLFORM", 3, common.shared("c04", "rule_overallform", "C01.OVERALLFORM")),
    ("C01.VOICINGINTERP", 1, rule_voicinginterp),
    ("C01.MATCHSRC", 4, rule_matchsrc),
    ("C01.WEIGHTEDMEAN", 4, rule_weightedmean),
    ("C01.FFORM", 2, rule_fform),
    ("C01.HITRATIO", 19, rule_hitratio),
    ("C01.COUNTGUARD", 23, rule_countguard),
    ("C01.GUARDTABLE", 25, rule_guardtable),
    ("C01.CONSTRET", 83, rule_constret),
    ("C01.ACCBOUND", 4, rule_accbound),
    ("C01.VALUEDEN", 40, rule_valueden),
    ("C01.SETBOUND", 2, rule_setbound),
    ("C01.ENTROPYNORM", 3, rule_entropynorm),
    ("C01.NCEFORM", 5, rule_nceform_shared),
]

from . import common as _common_purity
RULES = RULES + _common_purity.purity_rules("C01")
RULES = RULES + _common_purity.bundle_rules("C01")
