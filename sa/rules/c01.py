"""C01 - proportion-type scores are finite and lie in [0, 1] (structural clauses)."""

from __future__ import annotations

import math

from .. import terms as tm
from .. import oracles
from ..model import AnalysisError
from .common import ob, need, call_name, count_form, positive_facts, positive_term, strip_numeric, resolve_ite_free, is_lit, lit, facts, role_of
from .. import symeval

PROP = "C01"
EXPLANATION = (
    "Static decision of three mechanisms C01 names: (HITRATIO) every hit ratio divides the size of a one-to-one matching by the size of "
    "one of the two collections handed to that very matcher call, so it cannot exceed 1; (COUNTGUARD/GUARDTABLE) every division by a count "
    "of an input collection, and every value-denominator whose zero case the code special-cases today, is still guarded on every path to it "
    "(no 0/0 from empty or degenerate sides); (CONSTRET) every literal a scoring function can return, including early-return tuples, lies "
    "in the range of its entry kind and binary scores are syntactically Boolean.  Numeric ranges of the formulas themselves are not decided."
)
RULE_TEXT = "one obligation per division site / per literal return component; distinct = distinct (rule, function, site)"

MATCHERS = {
    "util.match_events": (0, 1),
    "transcription.match_notes": (0, 1, 2, 3),
    "transcription.match_note_onsets": (0, 1),
    "transcription.match_note_offsets": (0, 1),
    "transcription_velocity.match_notes": (0, 1, 2, 3, 4, 5),
}

SCOPE_SKIP = {"separation", "sonify", "io"}


def _ordinal(s, site):
    k = 0
    for x in s.sites:
        if x.kind == site.kind:
            if x is site:
                return k
            k += 1
    return -1


def rule_hitratio(ctx):
    n = 0
    for f in ctx.program.all_funcs():
        if f.module.name in SCOPE_SKIP:
            continue
        s = ctx.S.get(f.qual)
        for d in s.by_kind("div"):
            if d.d.get("op", "/") != "/":
                continue
            num = count_form(d.num)
            if num is None or num[0] != "len":
                continue
            m = num[1]
            if not (m.op == "call" and call_name(m) in MATCHERS):
                continue
            name = call_name(m)
            handed = [m.a[1][i] for i in MATCHERS[name] if i < len(m.a[1])]
            den = count_form(d.den)
            good = False
            why = "denominator %s is not a count" % tm.show(d.den, 3)
            if den is not None and den[0] == "len":
                base = den[1]
                good = any(base is h for h in handed)
                why = "denominator len(%s) %s one of the collections handed to %s" % (tm.show(base, 3), "is" if good else "is NOT", name)
            n += 1
            yield ob("C01.HITRATIO", f, "%s:ratio@%d" % (f.qual, _ordinal(s, d)), good, why, node=d.node)
    # multipitch: frame-wise relation, established in metrics()
    f = ctx.program.func("multipitch.metrics", "C01.HITRATIO")
    s = ctx.S.get(f.qual)
    calls = [c for c in s.calls() if c.callee in ("multipitch.compute_accuracy", "multipitch.compute_err_score")]
    need(len(calls) >= 4, "C01.HITRATIO", "multipitch.metrics no longer calls compute_accuracy/compute_err_score four times")
    for c in calls:
        good = False
        why = "unexpected argument shape"
        if len(c.args) == 3:
            tp, nr, ne = c.args
            if tp.op == "call" and call_name(tp) == "multipitch.compute_num_true_positives" and len(tp.a[1]) >= 2 and nr.op == "call" and ne.op == "call" and call_name(nr) == "multipitch.compute_num_freqs" and call_name(ne) == "multipitch.compute_num_freqs":
                a, b = tp.a[1][0], tp.a[1][1]
                ar, ae = nr.a[1][0], ne.a[1][0]

                def same_frames(x, y):
                    return x is y or (x.op == "call" and call_name(x) == "multipitch.midi_to_chroma" and x.a[1][0] is y)

                good = same_frames(a, ar) and same_frames(b, ae)
                why = "true positives are counted over (%s, %s) and normalised by the frame sizes of (%s, %s)" % (tm.show(a, 2), tm.show(b, 2), tm.show(ar, 2), tm.show(ae, 2))
        yield ob("C01.HITRATIO", f, "multipitch.metrics:%s@%d" % (c.callee, _ordinal(s, c)), good, why, node=c.node)
    # ... and per frame the count is the size of a matching over that frame pair
    f = ctx.program.func("multipitch.compute_num_true_positives", "C01.HITRATIO")
    s = ctx.S.get(f.qual)
    st = [m for m in s.by_kind("mutate") if m.how == "setitem" and m.root is not None]
    need(st, "C01.HITRATIO", "compute_num_true_positives: per-frame store not found")
    for m in st:
        outer = resolve_ite_free(m.val)
        mes = []
        good = True
        for x in outer:
            if x.op == "call" and call_name(x) == "builtins.len" and len(x.a[1]) == 1:
                for y in resolve_ite_free(x.a[1][0]):
                    if y.op == "call" and call_name(y) == "util.match_events":
                        mes.append(y)
                    else:
                        good = False
            else:
                good = False
        frames_ok = bool(mes)
        for me in mes:
            r, e = me.a[1][0], me.a[1][1]
            if not (r.op == "iter" and e.op == "iter" and r.a[1] == e.a[1] and r.a[0].op == "param" and e.a[0].op == "param" and role_of(r.a[0].a[0]) == "R" and role_of(e.a[0].a[0]) == "E"):
                frames_ok = False
        yield ob("C01.HITRATIO", f, "multipitch.compute_num_true_positives:frame-count", good and frames_ok, "per-frame true positives = len(match_events(ref frame, est frame, ...)) over zip(ref_freqs, est_freqs)", node=m.node)


# reviewed exemptions of COUNTGUARD: (function) -> reason
COUNT_REVIEWED = {
    # (function, shown denominator prefix) -> reason the guard on the inputs implies a non-empty denominator
    "beat.continuity": "the success vector has max(#reference variation, #estimates) entries and #estimates > 1 on this path",
    "segment.nce": "number of frames of an annotation that validate_structure accepted and that spans at least one frame (documented use)",
}

COUNT_EXEMPT = {
    "pattern.three_layer_FPR.compute_first_layer_PR": "inner occurrence lengths: an empty occurrence is outside the documented domain (pattern.validate documents only >= 1 occurrence per pattern)",
    "segment._adjusted_mutual_info_score": "private helper reached only from mutual_information after its emptiness exit (checked: caller guard)",
}


def _shares_param(a, b):
    return bool(tm.params_of(a) & tm.params_of(b))


def rule_countguard(ctx, rule="C01.COUNTGUARD"):
    for f in ctx.program.all_funcs():
        if f.module.name in SCOPE_SKIP:
            continue
        s = ctx.S.get(f.qual)
        for d in s.by_kind("div"):
            if d.d.get("op", "/") != "/":
                continue
            cf = count_form(d.den)
            if cf is None or cf[0] not in ("len", "size"):
                continue
            base = cf[1]
            if not tm.params_of(base):
                continue
            if f.qual in COUNT_EXEMPT:
                if f.qual == "segment._adjusted_mutual_info_score":
                    good, why = _caller_guards(ctx, f.qual)
                    yield ob(rule, f, "%s:count-den@%d" % (f.qual, _ordinal(s, d)), good, why, node=d.node)
                else:
                    yield ob(rule, f, "%s:count-den@%d" % (f.qual, _ordinal(s, d)), True, "reviewed exemption: %s" % COUNT_EXEMPT[f.qual], node=d.node)
                continue
            good = False
            witness = None
            reviewed = None
            for x in positive_facts(d.pc):
                g = count_form(x)
                if g is None:
                    continue
                # the very collection that is counted (or the same parameter counted another way)
                if g[1] is base or (g[1].op == "param" and base.op == "param" and g[1] is base):
                    good = True
                    witness = x
                    break
                if f.qual in COUNT_REVIEWED and _shares_param(g[1], base):
                    good = True
                    witness = x
                    reviewed = COUNT_REVIEWED[f.qual]
            yield ob(
                rule,
                f,
                "%s:count-den@%d" % (f.qual, _ordinal(s, d)),
                good,
                ("division by %s is reached only when %s is non-zero%s" % (tm.show(d.den, 3), tm.show(witness, 3), (" (reviewed: %s)" % reviewed) if reviewed else "")) if good else "division by the count %s is not guarded by an emptiness test on that very collection (0/0 or ZeroDivisionError for an empty side)" % tm.show(d.den, 3),
                node=d.node,
            )


def _caller_guards(ctx, qual):
    ok_all = True
    n = 0
    for f in ctx.program.all_funcs():
        s = ctx.S.get(f.qual)
        for c in s.calls():
            if c.callee == qual:
                n += 1
                pos = [count_form(x) for x in positive_facts(c.pc)]
                pos = [p for p in pos if p is not None]
                argp = set()
                for a in c.args:
                    argp |= tm.params_of(a)
                if not any(tm.params_of(p[1]) & argp for p in pos):
                    ok_all = False
    if n == 0:
        raise AnalysisError("C01.COUNTGUARD", "%s has no caller" % qual)
    return ok_all, "every one of the %d call sites of %s is reached only after an emptiness exit on its inputs" % (n, qual)


# ------------------------------------------------------------------ GUARDTABLE
# (function, description, predicate on the denominator term, minimum number of such divisions)


def _is_sum(t):
    return t.op == "call" and call_name(t) in ("np.sum", "builtins.sum")


GUARD_INSTANCES = [
    ("util.f_measure", "harmonic-mean denominator", lambda d: {"precision", "recall"} <= tm.params_of(d), 1),
    ("segment.nce", "entropy normaliser z_ref / z_est", lambda d: d.op == "ite" and "marginal" in tm.params_of(d.a[0]), 2),
    ("hierarchy._gauc", "per-query normaliser / frame counter", lambda d: True, 2),
    ("multipitch.compute_accuracy", "sum of counts", _is_sum, 3),
    ("multipitch.compute_err_score", "reference count sum", _is_sum, 4),
    ("melody.voicing_recall", "number of voiced reference frames", _is_sum, 1),
    ("melody.voicing_false_alarm", "number of unvoiced reference frames", _is_sum, 1),
    ("melody.raw_pitch_accuracy", "reference voicing mass", _is_sum, 1),
    ("melody.raw_chroma_accuracy", "reference voicing mass", _is_sum, 1),
    ("melody.overall_accuracy", "reference voicing mass", _is_sum, 1),
    ("tempo.detection", "reference tempo", lambda d: "reference_tempi" in tm.params_of(d), 1),
    ("transcription_velocity.match_notes", "velocity range (floored at 1)", lambda d: "ref_velocities" in tm.params_of(d), 1),
    ("segment._normalized_mutual_info_score", "sqrt(h_true*h_pred) (floored at 1e-10)", lambda d: True, 1),
    ("separation._safe_db", "energy denominator", lambda d: "den" in tm.params_of(d), 1),
    ("alignment.percentage_correct_segments", "duration", lambda d: True, 1),
]


def _fmeasure_guard(d):
    """not (precision == 0 and recall == 0) on the path to the division."""
    for c, p in symeval.pc_conds(d.pc):
        if not p and c.op == "bool" and c.a[0] == "and":
            zs = set()
            for x in c.a[1:]:
                if x.op == "cmp" and x.a[0] == "==":
                    for u, v in ((x.a[1], x.a[2]), (x.a[2], x.a[1])):
                        if tm.is_const(u, 0) and v.op == "param":
                            zs.add(v.a[0])
            if {"precision", "recall"} <= zs:
                return True
    # any guard proving one of the two operands non-zero is as good
    for x in positive_facts(d.pc):
        if x.op == "param" and x.a[0] in ("precision", "recall"):
            return True
    return False


def rule_guardtable(ctx):
    for qual, desc, pred, minimum in GUARD_INSTANCES:
        f = ctx.program.func(qual, "C01.GUARDTABLE")
        s = ctx.S.get(qual)
        hits = [d for d in s.by_kind("div") if d.d.get("op", "/") == "/" and not is_lit(strip_numeric(d.den)) and pred(strip_numeric(d.den))]
        if len(hits) < minimum:
            raise AnalysisError("C01.GUARDTABLE", "%s: expected >= %d divisions by the %s, found %d" % (qual, minimum, desc, len(hits)))
        for d in hits:
            if qual == "util.f_measure":
                good = _fmeasure_guard(d) or positive_term(d.den, d.pc)
            else:
                good = positive_term(d.den, d.pc)
            yield ob("C01.GUARDTABLE", f, "%s:guard@%d" % (qual, _ordinal(s, d)), good, ("division by the %s (%s) is reached only when it is non-zero" if good else "division by the %s (%s) is no longer dominated by its zero-test") % (desc, tm.show(d.den, 3)), node=d.node)
    # chord.weighted_accuracy: the normaliser is the comparable weight; all three degenerate cases exit first
    f = ctx.program.func("chord.weighted_accuracy", "C01.GUARDTABLE")
    s = ctx.S.get(f.qual)
    divs = [d for d in s.by_kind("div") if d.d.get("op", "/") == "/" and "weights" in tm.params_of(d.den)]
    need(divs, "C01.GUARDTABLE", "chord.weighted_accuracy: normalising division not found")
    for d in divs:
        pos = positive_facts(d.pc)
        total = any(_is_sum(x) and x.a[1][0].op == "param" and x.a[1][0].a[0] == "weights" for x in pos)
        comparable = any(_is_sum(x) and "comparisons" in tm.params_of(x) and "weights" not in tm.params_of(x) for x in pos)
        own = positive_term(d.den, d.pc)
        yield ob("C01.GUARDTABLE", f, "chord.weighted_accuracy:zero-total", total, "exit when all weights are zero precedes the normalisation", node=d.node)
        yield ob("C01.GUARDTABLE", f, "chord.weighted_accuracy:no-comparable", comparable, "exit when no comparison is comparable precedes the normalisation", node=d.node)
        yield ob("C01.GUARDTABLE", f, "chord.weighted_accuracy:zero-comparable-weight", own, "division by the comparable weight %s is reached only when it is non-zero (else 0/0 = NaN when every comparable interval has zero weight)" % tm.show(d.den, 3), node=d.node)


# -------------------------------------------------------------------- CONSTRET


def _in_kind(v, kind):
    if isinstance(v, bool):
        v = float(v)
    if v is None or not isinstance(v, (int, float)):
        return False
    if isinstance(v, float) and math.isnan(v):
        return kind == "D"
    if kind in ("P", "C"):
        return 0.0 <= v <= 1.0
    if kind == "B":
        return v in (0.0, 1.0)
    if kind == "U":
        return v <= 1.0
    if kind in ("E", "D", "M"):
        return v >= 0.0 and not math.isinf(v)
    return False


def _literal_of(t):
    if is_lit(t):
        return True, lit(t)
    if t.op == "ext" and t.a[0] in ("np.nan", "np.NaN", "np.NAN"):
        return True, float("nan")
    if t.op == "ext" and t.a[0] in ("np.inf", "np.Inf"):
        return True, float("inf")
    return False, None


def _boolean_valued(t):
    if t.op in ("cmp", "bool"):
        return True
    if t.op == "const" and t.a[0] in (0.0, 1.0, True, False):
        return True
    if t.op == "call" and call_name(t) in ("builtins.bool", "np.all", "np.any"):
        return True
    if t.op == "call" and call_name(t) in ("builtins.float", "builtins.int") and len(t.a[1]) == 1:
        return _boolean_valued(t.a[1][0])
    if t.op == "call" and call_name(t) == "astype" and t.a[1]:
        return _boolean_valued(t.a[1][0])
    return False


def rule_constret(ctx):
    seen = set()
    for task in oracles.TASKS:
        for key, src, pos, kind in oracles.SCORES[task]:
            if src is None or (src, pos) in seen:
                continue
            seen.add((src, pos))
            f = ctx.program.func(src, "C01.CONSTRET")
            s = ctx.S.get(src)
            need(s.returns, "C01.CONSTRET", "%s has no return" % src)
            for ri, r in enumerate(s.returns):
                t = r.term
                comp = None
                if pos is None:
                    comp = t
                    if t.op == "tuple":
                        continue  # arity defects are C03.ARITY's business
                else:
                    if t.op == "tuple" and pos < len(t.a):
                        comp = t.a[pos]
                    else:
                        continue  # delegating return (e.g. vmeasure -> nce): checked at the callee
                for leaf in resolve_ite_free(comp):
                    isl, v = _literal_of(leaf)
                    if isl:
                        good = _in_kind(v, kind)
                        yield ob("C01.CONSTRET", f, "%s[%s]:literal@%d" % (src, "" if pos is None else pos, ri), good, "returns the literal %r for an entry of kind %s" % (v, kind), node=r.node)
                    elif kind == "B":
                        good = _boolean_valued(leaf)
                        yield ob("C01.CONSTRET", f, "%s[%s]:binary@%d" % (src, "" if pos is None else pos, ri), good, "binary score returns %s" % tm.show(leaf, 3), node=r.node)
    # key.weighted_score returns literals only
    s = ctx.S.get("key.weighted_score")
    f = ctx.program.func("key.weighted_score")
    alllit = all(_literal_of(r.term)[0] for r in s.returns)
    yield ob("C01.CONSTRET", f, "key.weighted_score:literals-only", alllit, "every return of the key score is a literal (range decided above)")


# ------------------------------------------------------------- WEIGHTEDMEAN / FFORM


def _prod_factors(t):
    if t.op == "bin" and t.a[0] == "*":
        return _prod_factors(t.a[1]) + _prod_factors(t.a[2])
    return [t]


WEIGHTED = ["melody.voicing_recall", "melody.voicing_false_alarm", "melody.raw_pitch_accuracy", "melody.raw_chroma_accuracy"]


def rule_weightedmean(ctx):
    """sum(w * x) / sum(w'): the normaliser sums the very weights that weight the numerator
    (possibly masked in the numerator), so the ratio of a [0,1]-valued x cannot exceed 1."""
    R = "C01.WEIGHTEDMEAN"
    for q in WEIGHTED:
        f = ctx.program.func(q, R)
        s = ctx.S.get(q)
        main = [r for r in s.returns if not is_lit(r.term)]
        need(len(main) == 1, R, "%s: formula return not found" % q)
        t = main[0].term
        good = False
        why = "score is not sum(weights * indicator) / sum(weights)"
        if t.op == "bin" and t.a[0] == "/" and t.a[1].op == "call" and call_name(t.a[1]) == "np.sum" and t.a[2].op == "call" and call_name(t.a[2]) == "np.sum":
            w = t.a[2].a[1][0]
            facs = _prod_factors(t.a[1].a[1][0])
            same = [x for x in facs if x is w or (x.op == "sub" and x.a[0] is w)]
            others = [x for x in facs if x not in same]
            bounded = all(_unit_valued(x, f) for x in others)
            good = len(same) == 1 and bounded
            why = "numerator sums %s times %d factor(s) valued in [0, 1]; normaliser sums %s" % (tm.show(same[0], 2) if same else "?", len(others), tm.show(w, 2))
            if not same:
                why = "normaliser sums %s, which is not the weight used in the numerator (%s): the ratio can exceed 1" % (tm.show(w, 2), ", ".join(tm.show(x, 2) for x in facs))
        yield ob(R, f, "%s:normaliser" % q, good, why, node=main[0].node)


def _unit_valued(x, f):
    if x.op in ("cmp", "bool"):
        return True
    if x.op == "sub":
        return _unit_valued(x.a[0], f)
    if x.op == "param" and "voicing" in x.a[0]:
        return True  # validate_voicing: within [0, 1]
    if x.op == "call" and call_name(x) == "astype" and x.a[1] and x.a[1][0].op in ("cmp", "bool"):
        return True
    return False


def rule_fform(ctx):
    """util.f_measure is the weighted harmonic mean (1 + b^2) P R / (b^2 P + R): it lies between min(P, R) and max(P, R)."""
    from ..mirror import Mirror

    R = "C01.FFORM"
    f = ctx.program.func("util.f_measure", R)
    s = ctx.S.get(f.qual)
    main = [r for r in s.returns if not is_lit(r.term)]
    need(len(main) == 1, R, "util.f_measure: formula return not found")
    P, Rc, b = tm.param("precision"), tm.param("recall"), tm.param("beta")
    b2 = tm.binop("**", b, tm.const(2))
    ref = tm.binop("/", tm.binop("*", tm.binop("*", tm.binop("+", tm.const(1), b2), P), Rc), tm.binop("+", tm.binop("*", b2, P), Rc))
    M = Mirror(f)
    good = M.norm(main[0].term) is M.norm(ref)
    yield ob(R, f, "util.f_measure:harmonic-mean", good, "F = (1 + beta^2) * P * R / (beta^2 * P + R)" if good else "F-measure term %s is not the weighted harmonic mean" % tm.show(main[0].term, 5), node=main[0].node)
    zero = [r for r in s.returns if is_lit(r.term)]
    yield ob(R, f, "util.f_measure:zero-case", len(zero) == 1 and lit(zero[0].term) == 0, "P = R = 0 returns 0")


def rule_matchsrc(ctx):
    """Shared with C05: the hit count in every ratio is the size of a one-to-one matching."""
    from . import c05

    for o in c05.rule_matchsrc(ctx):
        if ":return" in o.construct:
            o.rule = "C01.MATCHSRC"
            yield o


RULES = [
    ("C01.MATCHSRC", 4, rule_matchsrc),
    ("C01.WEIGHTEDMEAN", 4, rule_weightedmean),
    ("C01.FFORM", 2, rule_fform),
    ("C01.HITRATIO", 19, rule_hitratio),
    ("C01.COUNTGUARD", 23, rule_countguard),
    ("C01.GUARDTABLE", 25, rule_guardtable),
    ("C01.CONSTRET", 83, rule_constret),
]
