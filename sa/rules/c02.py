"""C02 - a perfect estimate receives the perfect score (structural mechanisms)."""

from __future__ import annotations

from .. import terms as tm
from ..mirror import Mirror
from ..model import AnalysisError
from .common import ob, need, call_name, roles, is_lit, lit, resolve_ite_free, count_form
from . import common
from .. import symeval
from . import c06, c11

PROP = "C02"
EXPLANATION = (
    "metric(x, copy(x)) is a value statement; decided statically are the mechanisms the property names: (MIRRORPIPE) at every node of every "
    "metric that combines a reference-only value with an estimate-only value, the two are mirror images (the same pipeline applied to each "
    "side), so identical inputs meet as identical intermediates - with a reviewed list of metrics that are reference-driven by definition; "
    "(REFLEX) every tolerance predicate bounds a symmetric distance of mirror projections by a tolerance on the greater side of < / <=, so "
    "distance 0 passes for every positive window, also under strict=True; (PERFECTCONST) the trivial/identical-partition guards of ARI, AMI and "
    "NMI return 1.0 and test class counts only, the first decision of key.weighted_score returns 1.0 for equal key and mode, voicing recall / "
    "false alarm return 1 / 0 when the reference has no (un)voiced frame; chord reflexivity is shared with C11.  That each formula attains its "
    "optimum on coinciding intermediates, and that the matcher is maximum, are not decided."
)
RULE_TEXT = "MIRRORPIPE: one obligation per combining node (R-only x E-only) of every metric function; others per predicate / guard"

# metrics that are reference-driven by definition: no mirror expected at their combining nodes
ASYM_BY_DESIGN = {
    "beat.cemgil": "Gaussian error of each reference beat (and its metrical variations) to the nearest estimate",
    "beat.goto": "windows are built around reference beats",
    "beat.continuity": "continuity is judged along the estimate against reference inter-beat intervals",
    "beat._get_entropy": "errors of estimates relative to reference intervals (called in both directions by information_gain)",
    "chord.directional_hamming_distance": "directional by definition (called in both directions by overseg/underseg)",
    "chord.evaluate": "the estimate is cropped/padded to the reference span",
    "melody.voicing_recall": "the reference voicing indicator weights the estimate's voicing",
    "melody.voicing_false_alarm": "same",
    "melody.overall_accuracy": "same",
    "tempo.detection": "each reference tempo is compared with both estimated tempi",
    "transcription.average_overlap_ratio": "matched pairs index the reference with position 0 and the estimate with position 1 (C05.ORIENT)",
    "pattern.first_n_three_layer_P": "only the first n estimated patterns are scored",
    "pattern.first_n_target_proportion_R": "only the first n estimated patterns are scored",
    "melody.to_cent_voicing": "the estimate is resampled onto the reference time base (identity when the bases coincide, checked below)",
    "multipitch.metrics": "the estimate is resampled onto the reference time base when they differ (checked below)",
}
# for these two only the named nodes are exempt, every other combining node must still be a mirror
ASYM_NODES = {
    "melody.to_cent_voicing": {"melody.resample_melody_series"},
    "multipitch.metrics": {"multipitch.resample_multipitch", "np.allclose", "cmp !="},
}
SCOPE_SKIP = {"separation", "sonify", "io", "util", "display"}
SPAN_NODES = {"util.adjust_intervals", "util.adjust_events", "hierarchy._align_intervals"}


def _unloop(t):
    """Forget which loop an iteration variable belongs to (mirror sides iterate in different loops)."""

    def f(x):
        if x.op == "iter":
            return tm.mk("iter", tm.rebuild(x.a[0], f), "*")
        if x.op == "idx":
            return tm.mk("idx", "*")
        return None

    return tm.rebuild(t, f)


RESAMPLERS = {"multipitch.resample_multipitch": 1, "melody.resample_melody_series": None}


def _strip_resample(t):
    """Time-base alignment of the estimate is transparent for the mirror argument (identity when the bases coincide)."""

    def f(x):
        if x.op == "call" and call_name(x) == "multipitch.resample_multipitch" and len(x.a[1]) == 3:
            return tm.rebuild(x.a[1][1], f)
        if x.op == "ite":
            a, b = tm.rebuild(x.a[1], f), tm.rebuild(x.a[2], f)
            if a is b:
                return a
        return None

    return tm.rebuild(t, f)


def _facet_mirror(a, b):
    fa, fb = c11.facet_of(a), c11.facet_of(b)
    from .common import counterpart

    return fa is not None and fb is not None and fa[1] == fb[1] and counterpart(fa[0]) == fb[0]


def rule_mirrorpipe(ctx):
    R = "C02.MIRRORPIPE"
    n = 0
    for f in ctx.program.all_funcs():
        if f.module.name in SCOPE_SKIP:
            continue
        s = ctx.S.get(f.qual)
        M = Mirror(f)
        seen = set()
        k = 0
        for r in s.returns:
            rt = _strip_resample(r.term) if f.qual in ASYM_NODES else r.term
            # a validated `ref.shape == est.shape` makes the two spellings one value
            eqs = common.path_shape_equalities(r.pc)
            rt = common.rewrite_equal(rt, eqs)
            for x in tm.walk(rt, seen):
                if x.op in ("bin", "cmp"):
                    kids = tm.children(x)
                elif x.op == "call":
                    kids = list(x.a[1])
                else:
                    continue
                Rk = [z for z in kids if roles(z) == {"R"}]
                Ek = [z for z in kids if roles(z) == {"E"}]
                if not Rk or not Ek:
                    continue
                k += 1
                name = call_name(x) if x.op == "call" else "%s %s" % (x.op, x.a[0])
                if name in SPAN_NODES:
                    continue  # the estimate is padded/cropped to the reference span: identity for a copy (form checked by C03.PREPROC / C12.PIPELINE)
                if f.qual in ASYM_NODES:
                    if name in ASYM_NODES[f.qual]:
                        continue
                elif f.qual in ASYM_BY_DESIGN or any(h in ASYM_BY_DESIGN for h in s.inlined):
                    continue  # (the reviewed exemption follows a helper's code into the caller it was inlined into)
                good = False
                for a in Rk:
                    for b in Ek:
                        sa, nb = common.rewrite_equal(M.swap(a), eqs), common.rewrite_equal(M.norm(b), eqs)
                        if sa is nb or (sa.op == "T" and sa.a[0] is nb) or _unloop(sa) is _unloop(nb) or _facet_mirror(a, b):
                            good = True
                n += 1
                yield ob(R, f, "%s:%s@%d" % (f.qual, name, k), good, "reference-side %s and estimate-side %s are mirror images" % (tm.show(Rk[0], 2), tm.show(Ek[0], 2)) if good else "combining node %s receives a reference value %s and an estimate value %s that were not produced by the same pipeline" % (name, tm.show(Rk[0], 3), tm.show(Ek[0], 3)))
    for q, why in sorted(ASYM_BY_DESIGN.items()):
        f = ctx.program.func(q, R, resigned_ok=True)
        yield ob(R, f, "%s:reference-driven" % q, True, "reviewed: %s" % why)
    # resampling is the identity when the time bases coincide
    f = ctx.program.func("melody.resample_melody_series", R)
    s = ctx.S.get(f.qual)
    ident = [r for r in s.returns if r.term.op == "tuple" and len(r.term.a) == 2 and all(x.op == "param" for x in r.term.a)]
    good = len(ident) == 1 and [x.a[0] for x in ident[0].term.a] == ["frequencies", "voicing"] and any(call_name(c) == "np.allclose" or any(call_name(z) == "np.allclose" for z in tm.walk(c)) for c, p in symeval.pc_conds(ident[0].pc))
    yield ob(R, f, "melody.resample_melody_series:identity", good, "when the time bases coincide (same shape, np.allclose) the series is returned unchanged")
    f = ctx.program.func("multipitch.metrics", R)
    s = ctx.S.get(f.qual)
    rc = [c for c in s.calls() if c.callee == "multipitch.resample_multipitch"]
    good = len(rc) == 1 and any(any(call_name(z) == "np.allclose" for z in tm.walk(c)) for c, p in symeval.pc_conds(rc[0].pc))
    yield ob(R, f, "multipitch.metrics:resample-only-if-different", good, "the estimate is resampled only when its time base differs from the reference's")


def rule_reflex(ctx):
    R = "C02.REFLEX"
    # matcher predicates (shared with C06): symmetric distance of mirror projections, role-free tolerance on the greater side
    for matcher in ("util.match_events", "transcription.match_note_onsets", "transcription.match_notes"):
        probs, n = c06._sym_predicate(ctx, matcher)
        yield ob(R, ctx.program.func(matcher), "%s:reflexive-predicate" % matcher, not probs and n >= 1, "distance(x, x) = 0 passes every positive tolerance (%d comparison(s): |proj(ref) - proj(est)| on the smaller side of < / <=)" % n if not probs else "; ".join(probs))
    # offsets: |ref_off - est_off| against a tolerance that depends on the reference only: still reflexive
    f = ctx.program.func("transcription.match_note_offsets", R)
    s = ctx.S.get(f.qual)
    wh = [c for c in s.calls() if c.callee == "np.where"]
    need(len(wh) == 1, R, "match_note_offsets: hit matrix not found")
    M = Mirror(f)
    good = True
    k = 0
    for alt in resolve_ite_free(wh[0].args[0]):
        if alt.op == "cmp" and alt.a[0] in ("<", "<="):
            k += 1
            d = alt.a[1]
            sw = M.swap(d)
            good = good and sw.op == "T" and sw.a[0] is M.norm(d) and roles(alt.a[2]) <= {"R"}
        else:
            good = False
    yield ob(R, f, "transcription.match_note_offsets:reflexive-predicate", good and k >= 1, "offset distance is symmetric in mirror projections; the tolerance (>= offset_min_tolerance) sits on the greater side")
    # frame-wise predicates: |ref - est| < tol
    for q, pname in (("melody.raw_pitch_accuracy", "cent_tolerance"), ("melody.overall_accuracy", "cent_tolerance"), ("alignment.percentage_correct", "window")):
        f = ctx.program.func(q, R)
        s = ctx.S.get(q)
        M = Mirror(f)
        main = [r for r in s.returns if not is_lit(r.term)]
        cm = [x for r in main for x in tm.walk(r.term) if x.op == "cmp" and x.a[0] in ("<", "<=") and x.a[2].op == "param" and x.a[2].a[0] == pname]
        good = bool(cm)
        for x in cm:
            d = x.a[1]
            core = [z for z in tm.walk(d) if z.op == "call" and call_name(z) == "np.abs"]
            okd = False
            for z in core:
                inner = z.a[1][0]
                if inner.op == "bin" and inner.a[0] == "-" and M.swap(inner.a[1]) is M.norm(inner.a[2]):
                    okd = True
            good = good and okd
        yield ob(R, f, "%s:reflexive-predicate" % q, good, "a frame is correct when |ref - est| is below the tolerance: a value compared with itself passes")


def rule_perfectconst(ctx):
    R = "C02.PERFECTCONST"
    for q in ("segment._adjusted_rand_index", "segment._adjusted_mutual_info_score", "segment._normalized_mutual_info_score"):
        f = ctx.program.func(q, R)
        s = ctx.S.get(q)
        ones = [r for r in s.returns if is_lit(r.term)]
        good = len(ones) == 1 and lit(ones[0].term) == 1.0
        counts_only = False
        if good:
            conds = symeval.pc_conds(ones[0].pc)
            counts_only = bool(conds) and all(_counts_only(c) and _equates_sides(c) for c, p in conds)
        yield ob(R, f, "%s:trivial-partitions" % q, good and counts_only, "identical trivial partitions (one class each / no class%s) return 1.0; the guard tests class counts only" % (" / one class per frame" if "rand" in q else ""))
    f = ctx.program.func("key.weighted_score", R)
    s = ctx.S.get(f.qual)
    need(s.returns, R, "weighted_score: no return")
    first = s.returns[0]
    conds = symeval.pc_conds(first.pc)
    good = is_lit(first.term) and lit(first.term) == 1.0 and len(conds) == 1 and conds[0][1]
    if good:
        c = conds[0][0]
        eqs = [x for x in (c.a[1:] if c.op == "bool" else [c]) if x.op == "cmp" and x.a[0] == "=="]
        sides = []
        for x in eqs:
            sides.append({_key_part(x.a[1]), _key_part(x.a[2])})
        good = {("R", 0), ("E", 0)} in sides and {("R", 1), ("E", 1)} in sides and len(eqs) == 2
    why = "the first decision returns 1.0 exactly when key number and mode both agree"
    if not good:
        from .c04 import key_decision_table

        tab = key_decision_table(ctx)
        if tab is None:
            raise AnalysisError(R, "weighted_score: the first decision is not `same key and same mode -> 1.0` and the decision table cannot be evaluated")
        good = all((v == 1.0) == (rk == ek and rm == em) for (rk, rm, ek, em), v in tab.items())
        why = "evaluated on all %d key pairs, the score is 1.0 exactly when key number and mode both agree" % len(tab)
    yield ob(R, f, "key.weighted_score:same-key", good, why)
    f = ctx.program.func("melody.voicing_recall", R)
    s = ctx.S.get(f.qual)
    one = [r for r in s.returns if is_lit(r.term) and lit(r.term) == 1]
    good = len(one) == 1 and any(c.op == "cmp" and c.a[0] == "==" and p for c, p in symeval.pc_conds(one[0].pc)[-1:])
    yield ob(R, f, "melody.voicing_recall:no-voiced-frames", good, "a reference without voiced frames gives recall 1")
    f = ctx.program.func("melody.voicing_false_alarm", R)
    s = ctx.S.get(f.qual)
    zs = [r for r in s.returns if is_lit(r.term) and lit(r.term) == 0]
    good = len(zs) >= 1 and any(any(z.op == "call" and call_name(z) == "np.sum" for z in tm.walk(c)) for r in zs for c, p in symeval.pc_conds(r.pc)[-1:])
    yield ob(R, f, "melody.voicing_false_alarm:no-unvoiced-frames", good, "a reference without unvoiced frames gives false alarm 0")
    # both-N in mirex scores 1 (shared with C11)
    for o in c11.rule_mirexconst(ctx):
        if o.construct.endswith("both-N"):
            o.rule = R
            yield o


def _equates_sides(c):
    """The guard implies that the reference class count equals the estimate class count (the special case applies only
    when *both* partitions are trivial in the same way).  Decided semantically on the finite model of the comparisons
    in the guard, so `r == e == 1 or r == e == 0` and `r == e and (e == 1 or e == 0)` are the same guard."""
    from .. import finmodel

    m = finmodel.Model([c])
    rs = [v for v in m.vars if "reference_indices" in tm.params_of(v) and "estimated_indices" not in tm.params_of(v)]
    es = [v for v in m.vars if "estimated_indices" in tm.params_of(v) and "reference_indices" not in tm.params_of(v)]
    if rs and es:
        for r in rs:
            for e in es:
                if finmodel.entails([(c, True)], tm.cmp("==", r, e)) is True:
                    return True
        return False
    return _equates_sides_syntactic(c)


def _equates_sides_syntactic(c):
    disj = c.a[1:] if (c.op == "bool" and c.a[0] == "or") else [c]
    for d in disj:
        eqs = d.a[1:] if (d.op == "bool" and d.a[0] == "and") else [d]
        if not all(x.op == "cmp" and x.a[0] == "==" for x in eqs):
            return False
        ops = set()
        for x in eqs:
            ops.add(x.a[1])
            ops.add(x.a[2])
        has_r = any("reference_indices" in tm.params_of(z) and "estimated_indices" not in tm.params_of(z) for z in ops)
        has_e = any("estimated_indices" in tm.params_of(z) and "reference_indices" not in tm.params_of(z) for z in ops)
        if not (has_r and has_e):
            return False
    return True


def _counts_only(c):
    ok_ = True
    for x in tm.walk(c):
        if x.op == "param":
            ok_ = ok_ and True
        if x.op == "call" and call_name(x) not in ("np.unique", "builtins.len") and x.a[0].op != "meth":
            ok_ = False
    return ok_


def _key_part(t):
    # split_key_string(<key>)[k]
    if t.op == "sub" and t.a[0].op == "call" and call_name(t.a[0]) == "key.split_key_string" and t.a[1].op == "const":
        a = t.a[0].a[1][0]
        if a.op == "param":
            from .common import role_of

            return (role_of(a.a[0]), int(t.a[1].a[0]))
    return None


def rule_chordreflex(ctx):
    for o in c11.rule_reflex(ctx):
        o.rule = "C02.CHORDREFLEX"
        yield o


def rule_melodytwin(ctx):
    """to_cent_voicing normalises both series the same way (zero-time padding, |f|, voicing, cents) before aligning them."""
    R = "C02.MELODYTWIN"
    f = ctx.program.func("melody.to_cent_voicing", R)
    s = ctx.S.get(f.qual)
    fv = [c for c in s.calls() if c.callee == "melody.freq_to_voicing"]
    hz = [c for c in s.calls() if c.callee == "melody.hz2cents"]
    need(len(fv) == 2 and len(hz) == 2, R, "to_cent_voicing: two freq_to_voicing and two hz2cents calls expected")
    ref = [c for c in fv if "ref_freq" in tm.params_of(c.args[0])]
    est = [c for c in fv if "est_freq" in tm.params_of(c.args[0])]
    need(len(ref) == 1 and len(est) == 1, R, "to_cent_voicing: reference / estimate normalisation not found")
    mp = {"ref_time": "est_time", "ref_freq": "est_freq", "ref_reward": "est_voicing"}
    sub = {k: tm.param(v) for k, v in mp.items()}
    M = Mirror(f, subst=sub)
    M0 = Mirror(f)
    for i, what in ((0, "frequencies"), (1, "voicing")):
        a, b = ref[0].args[i], est[0].args[i]
        good = M.norm(a) is M0.norm(b)
        yield ob(R, f, "melody.to_cent_voicing:padding-%s" % what, good, "the estimate's %s are padded at time 0 exactly like the reference's (np.insert(x, 0, x[0]) when the first timestamp is > 0)" % what if good else "estimate %s are prepared as %s but the reference's as %s" % (what, tm.show(b, 4), tm.show(a, 4)))
    # times: both padded with 0
    rs = [c for c in s.calls() if c.callee == "melody.resample_melody_series"]
    tref = [c.args[0] for c in rs if "ref_time" in tm.params_of(c.args[0])]
    test = [c.args[0] for c in rs if "est_time" in tm.params_of(c.args[0])]
    good = bool(test) and (not tref or M.norm(tref[0]) is M0.norm(test[0]))
    yield ob(R, f, "melody.to_cent_voicing:padding-times", good, "both time bases get a leading 0 when they start later")
    base = all(len(c.args) == 2 and c.args[1].op == "param" and c.args[1].a[0] == "base_frequency" for c in hz)
    yield ob(R, f, "melody.to_cent_voicing:same-base", base, "both sides are converted to cents with the same base_frequency")
    # the un-resampled estimate goes onto the reference's (padded) time base
    last = [c for c in rs if "est_time" in tm.params_of(c.args[0]) and len(c.args) >= 4 and "ref_time" in tm.params_of(c.args[3])]

    def _no_hop_alt(t):
        """the value of a target-time-base argument on the path without a hop: `X if hop is None else Y` -> X"""
        if t.op == "ite":
            c = t.a[0]
            if c.op == "cmp" and c.a[0] in ("is", "==") and any(tm.is_const(z, None) for z in c.a[1:]) and any(z.op == "param" and z.a[0] == "hop" for z in c.a[1:]):
                return _no_hop_alt(t.a[1])
        return t

    tgt = _no_hop_alt(last[0].args[3]) if len(last) == 1 else None
    yield ob(R, f, "melody.to_cent_voicing:onto-reference-timebase", len(last) == 1 and (not tref or tgt is tref[0] or "hop" not in tm.params_of(tgt)), "without hop the estimate is resampled onto the reference times")


def rule_shared(ctx):
    from . import c01, c10

    for o in c10.rule_tablesafe(ctx):
        o.rule = "C02.ENCODEPURE"
        yield o
    for o in c01.rule_guardtable(ctx):
        if o.construct.startswith("transcription_velocity.match_notes"):
            o.rule = "C02.VELOCITYFLOOR"
            yield o


def rule_fform(ctx):
    """Shared with C01/C04: F is the weighted harmonic mean, hence F(1, 1) = 1 for every beta."""
    from . import c01

    for o in c01.rule_fform(ctx):
        o.rule = "C02.FFORM"
        yield o


def rule_chromafold(ctx):
    """Shared with C07.CHROMATWIN: chroma scores are the raw scores on per-frame np.mod(., 12) inputs with the circular
    distance, so a copy of the reference (every multiplicity kept) is matched completely."""
    from . import c07

    for o in c07.rule_chromatwin(ctx):
        if o.construct.startswith("multipitch."):
            o.rule = "C02.CHROMAFOLD"
            yield o


def rule_firstn(ctx):
    """Shared with C04.FIRSTN: with <= n estimated patterns the first-n scores see all of them, so a copy scores 1."""
    from . import c04

    yield from c04.rule_firstn(ctx, R="C02.FIRSTN")


def rule_trimform(ctx):
    """Shared with C04.TRIMFORM: a two-segment annotation scored against itself with trim=True keeps its one
    inner boundary."""
    from . import c04

    yield from c04.rule_trimform(ctx, R="C02.TRIMFORM")


def rule_hitwindow(ctx):
    """Shared with C05.WINDOWSIDES/INDEXSPACE and C08: the window search sorts the reference first, so a frame or event
    list given in any order matches its own copy completely."""
    from . import c05, c08

    for o in c05.rule_windowsides(ctx):
        o.rule = "C02.HITWINDOW"
        yield o
    for o in c08.rule_orderins(ctx):
        if o.construct.startswith("util._fast_hit_windows"):
            o.rule = "C02.HITWINDOW"
            yield o


def rule_dhdform(ctx):
    """directional_hamming_distance: every reference interval contributes its duration minus its longest piece, the
    pieces being cut by the estimated boundaries that fall inside it and bounded by its *own* start and end; the sum
    is divided by the reference span.  (A perfect estimate cuts every interval into one piece: distance 0.)"""
    R = "C02.DHDFORM"
    f = ctx.program.func("chord.directional_hamming_distance", R)
    s = ctx.S.get(f.qual)
    main = [r for r in s.returns if not is_lit(r.term)]
    need(len(main) == 1, R, "directional_hamming_distance: computed return not found")
    t = main[0].term
    ref = tm.param(f.params[0])
    # a segment-wise ufunc.reduceat over indices taken from the interval starts alone runs each segment up to the next
    # start: whatever lies between two reference intervals (a gap) is charged to the earlier one
    for x in tm.walk(t):
        if x.op == "call" and (call_name(x) or "").endswith(".reduceat") and len(x.a[1]) >= 2:
            idx = x.a[1][1]
            cols = set()
            for z in tm.walk(idx):
                if z.op == "sub" and z.a[0] is ref and z.a[1].op == "tuple" and len(z.a[1].a) == 2 and z.a[1].a[1].op == "const":
                    cols.add(int(z.a[1].a[1].a[0]))
            if cols == {0}:
                yield ob(R, f, "chord.directional_hamming_distance:pieces-bounded-by-own-interval", False, "the per-interval maximum is %s over segments that start at each reference start and run to the *next* start: with a gap between two reference intervals the pieces of the gap are counted for the earlier interval" % call_name(x), node=main[0].node)
                return
    need(t.op == "bin" and t.a[0] == "/", R, "directional_hamming_distance: result is not <sum of contributions> / <reference span>")
    num, den = t.a[1], t.a[2]
    span = den.op == "bin" and den.a[0] == "-" and tm.show(den.a[1], 3).replace(" ", "") in ("reference_intervals[(-1,1)]",) and tm.show(den.a[2], 3).replace(" ", "") in ("reference_intervals[(0,0)]",)
    yield ob(R, f, "chord.directional_hamming_distance:normaliser", span, "the sum is divided by the reference span (last end - first start)")
    def _is_col(z, k):
        return z.op == "sub" and z.a[0] is ref and z.a[1].op == "tuple" and len(z.a[1].a) == 2 and z.a[1].a[0].op == "slice" and tm.is_const(z.a[1].a[1], k)

    ok_iter = num.op == "call" and call_name(num) in ("builtins.sum", "np.sum") and num.a[1] and num.a[1][0].op == "comp" and len(num.a[1][0].a[2]) == 1
    comp = num.a[1][0] if ok_iter else None
    it0 = comp.a[2][0] if ok_iter else None
    st = en = None
    if ok_iter and it0 is ref:
        row = tm.mk("iter", ref, comp.a[4])
        st, en = tm.proj(row, 0), tm.proj(row, 1)
    elif ok_iter and it0.op == "call" and call_name(it0) == "builtins.zip" and len(it0.a[1]) == 2 and _is_col(it0.a[1][0], 0) and _is_col(it0.a[1][1], 1):
        st, en = tm.mk("iter", it0.a[1][0], comp.a[4]), tm.mk("iter", it0.a[1][1], comp.a[4])
    need(st is not None, R, "directional_hamming_distance: the contributions are not accumulated in one pass over the reference intervals (vectorised forms are not read)")
    elt = comp.a[1]
    good_c = elt.op == "bin" and elt.a[0] == "-" and elt.a[1].op == "bin" and elt.a[1].a[0] == "-" and elt.a[1].a[1] is en and elt.a[1].a[2] is st and elt.a[2].op == "call" and call_name(elt.a[2]) == "np.max" and elt.a[2].a[1][0].op == "call" and call_name(elt.a[2].a[1][0]) == "np.diff"
    yield ob(R, f, "chord.directional_hamming_distance:contribution", good_c, "each reference interval contributes (end - start) - max(diff(cut points))")
    hs = [x for x in tm.walk(elt) if x.op == "call" and call_name(x) in ("np.hstack", "np.concatenate") and x.a[1] and x.a[1][0].op in ("list", "tuple")]
    good_b = False
    good_f = False
    if len(hs) == 1:
        parts = [z.a[0] if z.op in ("list", "tuple") and len(z.a) == 1 else z for z in hs[0].a[1][0].a]
        good_b = len(parts) == 3 and parts[0] is st and parts[2] is en
        if len(parts) == 3 and parts[1].op == "sub":
            mask = parts[1].a[1]
            from .. import finmodel

            # est_ts[(est_ts >= start) & (est_ts < end)]
            from .c14 import _elementwise

            e = _elementwise(mask)
            E = parts[1].a[0]
            want = tm.boolop("and", [tm.cmp("<=", st, E), tm.cmp("<", E, en)])
            eq = finmodel.equivalent(e, want)
            good_f = bool(eq) and "estimated_intervals" in tm.params_of(E) and "reference_intervals" not in tm.params_of(E)
    yield ob(R, f, "chord.directional_hamming_distance:pieces-bounded-by-own-interval", good_b, "the cut points of an interval are [start, <estimated boundaries inside>, end] of that very interval")
    yield ob(R, f, "chord.directional_hamming_distance:inside-filter", good_f, "estimated boundaries b with start <= b < end are the inner cut points")


def rule_occthresh(ctx):
    """occurrence_FPR keeps a (reference, estimate) pair when its best cell reaches the threshold: max(s) >= thres,
    closed - with thres = 1.0 a perfect estimate has max(s) == 1 for its own pattern and must still count."""
    from .. import finmodel

    R = "C02.OCCTHRESH"
    f = ctx.program.func("pattern.occurrence_FPR", R)
    s = ctx.S.get(f.qual)
    thr = tm.param("thres")
    sites = [m for m in s.by_kind("mutate") if any(c is not None and any(z is thr for z in tm.walk(c)) for c, _ in symeval.pc_conds(m.pc))]
    need(sites, R, "occurrence_FPR: no store is guarded by a test on `thres`")
    seen = set()
    for m in sites:
        conds = [(c, p) for c, p in symeval.pc_conds(m.pc) if any(z is thr for z in tm.walk(c))]
        key = tuple((c.id, p) for c, p in conds)
        if key in seen:
            continue
        seen.add(key)
        g = None
        mx = None
        for c, p in conds:
            t = c if p else tm.unop("not", c)
            g = t if g is None else tm.boolop("and", [g, t])
            for z in tm.walk(c):
                # the maximum that is compared with the threshold (a helper evaluated in place may bring other maxima)
                if z.op == "cmp" and any(w is thr for w in z.a[1:]):
                    for w in z.a[1:]:
                        if w.op == "call" and call_name(w) in ("np.max", "np.amax", "builtins.max"):
                            mx = w
            if mx is None:
                for z in tm.walk(c):
                    if z.op == "call" and call_name(z) in ("np.max", "np.amax", "builtins.max") and z is not thr:
                        mx = z
        need(mx is not None, R, "occurrence_FPR: the threshold is not compared with a maximum of the score matrix")
        eq = finmodel.equivalent(g, tm.cmp("<=", thr, mx))
        need(eq is not None, R, "occurrence_FPR: threshold guard %s is not a comparison of max(s) with thres" % tm.show(g, 3))
        yield ob(R, f, "pattern.occurrence_FPR:keep-iff-max>=thres#%d" % len(seen), bool(eq), "a pair is kept iff max(s) >= thres" if eq else "the pair is kept under %s, which is not max(s) >= thres: a pair whose best cell equals the threshold is treated differently" % tm.show(g, 3), node=m.node)


def rule_velfitform(ctx):
    """The velocity rescaling of transcription_velocity.match_notes is a least-squares solve that is defined for every
    matched set - np.linalg.lstsq returns the minimum-norm solution when all matched velocities are equal (a constant-
    velocity annotation, a single note), so an exact copy still passes the velocity test.  Closed-form regressions
    (scipy.stats.linregress, a slope written as cov / var) divide by the variance of the regressor and return NaN there."""
    R = "C02.VELFITFORM"
    f = ctx.program.func("transcription_velocity.match_notes", R)
    s = ctx.S.get(f.qual)
    fits = [c for c in s.calls() if c.callee in ("np.linalg.lstsq", "scipy.linalg.lstsq", "scipy.stats.linregress", "np.polyfit", "np.polynomial.polynomial.polyfit", "scipy.optimize.curve_fit", "np.cov", "np.corrcoef")]
    need(fits, R, "match_notes: the velocity fit was not found")
    for i, c in enumerate(fits):
        good = c.callee in ("np.linalg.lstsq", "scipy.linalg.lstsq")
        yield ob(R, f, "transcription_velocity.match_notes:fit@%d" % i, good, "the fit is a least-squares solve (%s), defined for constant velocities" % c.callee if good else "the fit is %s: undefined (NaN / rank warning) when all matched estimated velocities are equal, so a perfect copy of a constant-velocity annotation scores 0" % c.callee, node=c.node)
        # ... and it is made whenever anything was matched: skipping it for "degenerate" sets (one note, constant
        # velocities) leaves raw MIDI velocities to be compared with the normalised reference
        extra = []
        for cc, pp in symeval.pc_conds(c.pc):
            empty_test = cc.op == "cmp" and cc.a[0] == "==" and any(tm.is_const(z, 0) for z in cc.a[1:]) and any(count_form(z) is not None or (z.op == "attr" and z.a[1] == "size") for z in cc.a[1:]) and any(y.op == "call" and call_name(y) in ("transcription.match_notes", "util.match_events") for y in tm.walk(cc))
            # (`if not matching: return ..` - the truth value of the matching list is its non-emptiness)
            truthy_matching = pp and ((cc.op == "call" and call_name(cc) in ("transcription.match_notes", "util.match_events", "builtins.len")) or count_form(cc) is not None) and any(y.op == "call" and call_name(y) in ("transcription.match_notes", "util.match_events") for y in tm.walk(cc))
            if not ((empty_test and not pp) or truthy_matching):
                extra.append(tm.show(cc, 3))
        yield ob(R, f, "transcription_velocity.match_notes:fit-unconditional@%d" % i, not extra, "the rescaling fit is made for every non-empty matching" if not extra else "the rescaling fit is only made when %s: otherwise the estimated velocities stay unscaled and are compared with the normalised reference velocities" % "; ".join(extra), node=c.node)


RULES = [
    ("C02.TEMPOFORM", 2, common.shared("c04", "rule_tempoform", "C02.TEMPOFORM")),
    ("C02.WEIGHTNORM", 3, common.shared("c12", "rule_weightnorm", "C02.WEIGHTNORM")),
    ("C02.VELFITFORM", 1, rule_velfitform),
    ("C02.DHDFORM", 3, rule_dhdform),
    ("C02.OCCTHRESH", 1, rule_occthresh),
    ("C02.VELFIT", 1, common.shared("c01", "rule_valueden", "C02.VELFIT", keep=lambda o: o.construct.startswith("transcription_velocity.match_notes:"))),
    ("C02.TRIMFORM", 8, rule_trimform),
    ("C02.HITWINDOW", 4, rule_hitwindow),
    ("C02.FIRSTN", 4, rule_firstn),
    ("C02.FFORM", 2, rule_fform),
    ("C02.CHROMAFOLD", 3, rule_chromafold),
    ("C02.MELODYTWIN", 5, rule_melodytwin),
    ("C02.ENCODEPURE", 10, rule_shared),
    ("C02.MIRRORPIPE", 125, rule_mirrorpipe),
    ("C02.REFLEX", 7, rule_reflex),
    ("C02.PERFECTCONST", 7, rule_perfectconst),
    ("C02.CHORDREFLEX", 10, rule_chordreflex),
]

from . import common as _common_purity
RULES = RULES + _common_purity.purity_rules("C02")
RULES = RULES + _common_purity.bundle_rules("C02")
