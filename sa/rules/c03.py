"""C03 - evaluate() is exactly the documented bundle of the individual metrics."""

from __future__ import annotations

import ast
import glob
import json
import os
import re

from .. import terms as tm
from .. import oracles
from ..arity import Arity, FLAG_CORRELATED, length
from ..model import AnalysisError
from . import common
from .common import ob, need, call_name, kwargs_chain, role_of, roles, lit, is_lit
from .. import symeval

PROP = "C03"
EXPLANATION = (
    "Static decision of the assembly clauses of C03 on the current source: return arity of every function on every path "
    "(including empty-input early returns) and agreement of every unpacking call site; the key set stored by each evaluate(); "
    "liveness and spelling of every keyword evaluate() forces; the parameter value each entry name states; agreement of defaults "
    "across layers; routing of user keywords through filter_kwargs (and filter_kwargs' own filtering rule); role/kind agreement of "
    "arguments with parameters at every repo call; tuple position taken by every entry; documented pre-processing feeding every metric. "
    "Numerical equality of entries with direct calls is not decided (it follows from these clauses plus purity, C15)."
)
RULE_TEXT = "one obligation per (rule, function or call site or score key); distinct = distinct (rule, construct) pairs"


class EvalModel(object):
    def __init__(self, ctx, task):
        self.task = task
        self.qual = task + ".evaluate"
        self.func = ctx.program.func(self.qual, "C03")
        self.summ = ctx.S.get(self.qual)
        s = self.summ
        # score container: local assigned collections.OrderedDict()
        self.scores_root = None
        self.stores = []  # (key string, mutate site)
        ret_origins = [o for o in (_container_origin(r.term) for r in s.returns) if o is not None]
        for m in s.by_kind("mutate"):
            if m.how == "setitem" and m.root is not None and m.key.op == "const" and isinstance(m.key.a[0], str):
                base = _container_origin(m.old)
                if base is not None and ret_origins and not any(base is o for o in ret_origins):
                    continue  # a store into another dict (a per-call copy of the keyword arguments), not into the result
                if base is not None:
                    self.scores_root = m.root
                    self.container = call_name(base)
                    self.stores.append((_oracle_spelling(m.key.a[0], self.qual.split(".")[0]), m))
        self.kwname = self.func.kwarg
        self.calls = [c for c in s.calls() if c.fn is not None and c.fn.op in ("func", "localfunc")]
        self.kw_mutations = [m for m in s.by_kind("mutate") if m.root == self.kwname and self.kwname]


def _oracle_spelling(key, task):
    """a key built from a formatted number ("Precision@3" from f"Precision@{window}" over an unrolled 3.0) is the
    documented key that differs only in how that whole number is written ("Precision@3.0")"""
    import re

    frozen = [k for k, _, _, _ in oracles.SCORES.get(task, [])]
    if key in frozen:
        return key
    norm = lambda z: re.sub(r"(\d+)\.0(?!\d)", r"\1", z)
    for fz in frozen:
        if norm(fz) == norm(key):
            return fz
    return key


def _container_origin(t, depth=0):
    """The dict constructor call a chain of stores started from (through if-merges)."""
    while t.op == "upd":
        t = t.a[0]
    if t.op == "ite" and depth < 30:
        a = _container_origin(t.a[1], depth + 1)
        b = _container_origin(t.a[2], depth + 1)
        return a if a is b else None
    if t.op == "call" and call_name(t) in ("collections.OrderedDict", "builtins.dict"):
        return t
    return None


def eval_models(ctx):
    if "c03models" not in ctx.cache:
        ctx.cache["c03models"] = {t: EvalModel(ctx, t) for t in oracles.TASKS}
    return ctx.cache["c03models"]


# ------------------------------------------------------------------- ARITY


def rule_arity(ctx):
    ar = Arity(ctx)
    for f in ctx.program.all_funcs():
        rets = ar.returns_of(f.qual)
        if not rets:
            continue
        known = [(r, a) for r, a in rets if length(a) is not None]
        lens = sorted({length(a) for _, a in known})
        ndoc = len(f.docinfo["returns"])
        if f.qual in FLAG_CORRELATED:
            yield ob("C03.ARITY", f, "%s:returns" % f.qual, True, "flag-correlated arity (reviewed: %s)" % FLAG_CORRELATED[f.qual])
            continue
        if len(lens) <= 1:
            yield ob("C03.ARITY", f, "%s:returns" % f.qual, True, "all %d return paths agree on arity %s" % (len(rets), lens[0] if lens else "?"))
            continue
        # which is the normal one: the documented count, else the majority
        normal = None
        if ndoc >= 1:
            normal = 0 if ndoc == 1 else ndoc
        if normal not in lens:
            cnt = {}
            for _, a in known:
                cnt[length(a)] = cnt.get(length(a), 0) + 1
            normal = max(cnt, key=lambda k: cnt[k])
        for r, a in known:
            if length(a) != normal:
                guard = "; ".join("%s%s" % ("" if p else "not ", tm.show(c, 4)) for c, p in symeval.pc_conds(r.pc))
                yield ob(
                    "C03.ARITY",
                    f,
                    "%s:return-arity" % f.qual,
                    False,
                    "return at line %d yields %s values but the function's normal arity is %s (path: %s)"
                    % (r.lineno, length(a) or "a scalar", normal or "a scalar", guard or "unconditional"),
                    node=r.node,
                )
    # unpacking call sites
    for f in ctx.program.all_funcs():
        s = ctx.S.get(f.qual)
        for u in s.by_kind("unpack"):
            if u.starred:
                continue
            v = u.value
            if not (v.op in ("tuple", "list", "glob") or (v.op == "call" and v.a[0].op in ("func", "localfunc"))):
                continue
            a = ar.of_term(v)
            if length(a) is None:
                continue
            callee = call_name(v) if v.op == "call" else tm.show(v, 2)
            if v.op == "call" and callee in FLAG_CORRELATED:
                # argument shape decides: count positional args vs callee params
                g = ctx.program.func(callee)
                nargs = len(v.a[1]) + len(v.a[2])
                full = nargs >= len(g.params)
                exp = {"separation._bss_decomp_mtifilt_images": 6 if full else 4, "separation._project_images": 2 if full else 1}.get(callee)
                if exp is not None:
                    yield ob("C03.ARITY", f, "%s:unpack:%s@%d" % (f.qual, callee, _ordinal(s, u)), u.n == exp, "unpacks %d values from %s which returns %d for this argument shape" % (u.n, callee, exp), node=u.node)
                continue
            okk = length(a) == u.n
            yield ob("C03.ARITY", f, "%s:unpack:%s@%d" % (f.qual, callee, _ordinal(s, u)), okk, "unpacks %d values from %s whose arity is %s" % (u.n, callee, length(a) or "scalar"), node=u.node)


def _ordinal(s, site):
    k = 0
    for x in s.sites:
        if x.kind == site.kind:
            if x is site:
                return k
            k += 1
    return -1


# ------------------------------------------------------------------ SCALAR


def rule_scalar(ctx):
    ar = Arity(ctx)
    for task, em in eval_models(ctx).items():
        need(em.stores, "C03.SCALAR", "%s stores no score entries" % em.qual)
        for key, m in em.stores:
            a = ar.of_term(m.val)
            bad = isinstance(a, tuple)
            what = "entry %r receives a %s" % (key, "scalar" if not bad else "%d-element %s" % (a[1], a[0]))
            # a component of a callee that disagrees on arity is reported by ARITY at the callee
            yield ob("C03.SCALAR", em.func, "%s:%s" % (em.qual, key), not bad, what, node=m.node)


# ------------------------------------------------------------------ KEYSET


def fixture_keys(ctx, task):
    d = os.path.join(ctx.program.repo, "tests", "data", task)
    files = sorted(glob.glob(os.path.join(d, "output*.json")))
    sets = set()
    for f in files:
        try:
            with open(f) as fh:
                j = json.load(fh)
        except Exception:
            continue
        if isinstance(j, dict):
            sets.add(frozenset(j.keys()))
    if len(sets) == 1:
        return set(next(iter(sets))), len(files)
    return None, len(files)


def rule_keyset(ctx):
    for task, em in eval_models(ctx).items():
        frozen = [k for k, _, _, _ in oracles.SCORES[task]]
        fx, nfiles = fixture_keys(ctx, task)
        oracle = set(frozen)
        src = "frozen list"
        if fx is not None:
            if fx != oracle:
                raise AnalysisError("C03.KEYSET", "fixture key set of tests/data/%s disagrees with the checker's frozen list (oracle inconsistent)" % task)
            src = "frozen list = key set of %d fixture files" % nfiles
        got = [k for k, _ in em.stores]
        need(em.scores_root is not None, "C03.KEYSET", "%s: score container not found" % em.qual)
        yield ob("C03.KEYSET", em.func, "%s:container" % em.qual, em.container == "collections.OrderedDict", "score container is %s" % em.container)
        missing = sorted(oracle - set(got))
        extra = sorted(set(got) - oracle)
        yield ob("C03.KEYSET", em.func, "%s:keys" % em.qual, not missing and not extra, "stores %d keys; missing %s, unexpected %s (%s)" % (len(set(got)), missing, extra, src))
        dup = sorted({k for k in got if got.count(k) > 1})
        yield ob("C03.KEYSET", em.func, "%s:duplicates" % em.qual, not dup, "keys stored twice: %s" % dup)
        cond_ok = oracles.CONDITIONAL_KEYS.get(task, {})
        for k, m in em.stores:
            conds = symeval.pc_conds(m.pc)
            loops = symeval.pc_loops(m.pc)
            if conds or loops:
                allowed = k in cond_ok and all(_is_offset_ratio_test(c, em) for c, _ in conds) and not loops
                yield ob("C03.KEYSET", em.func, "%s:unconditional:%s" % (em.qual, k), allowed, "entry %r is stored conditionally (%s)%s" % (k, "; ".join(tm.show(c, 4) for c, _ in conds), " - reviewed: " + cond_ok[k] if allowed else ""), node=m.node)
            else:
                yield ob("C03.KEYSET", em.func, "%s:unconditional:%s" % (em.qual, k), True, "entry %r stored on every path" % k, node=m.node)
    # separation: no fixture key oracle
    sf = ctx.program.func("separation.evaluate", "C03.KEYSET")
    ss = ctx.S.get("separation.evaluate")
    got = []
    for m in ss.by_kind("mutate"):
        if m.how == "setitem" and m.key.op == "const" and isinstance(m.key.a[0], str):
            got.append(m.key.a[0])
    yield ob("C03.KEYSET", sf, "separation.evaluate:keys", set(got) == set(oracles.SEPARATION_KEYS) and len(got) == len(set(got)), "stores %d keys (frozen list of %d)" % (len(set(got)), len(oracles.SEPARATION_KEYS)))


def _is_offset_ratio_test(c, em):
    # kwargs['offset_ratio'] is not None
    if c.op == "cmp" and c.a[0] in ("isnot", "is"):
        for side in (c.a[1], c.a[2]):
            if side.op == "sub" and tm.is_const(side.a[1], "offset_ratio"):
                return True
            # the value setdefault / get returns is that same entry
            if side.op == "call" and call_name(side) in (".setdefault", ".get") and len(side.a[1]) >= 2 and tm.is_const(side.a[1][1], "offset_ratio") and side.a[1][0].op in ("param", "upd", "ite") and em.kwname in tm.params_of(side.a[1][0]):
                return True
    return False


# ------------------------------------------------------------------ KWLIVE


def accepts(ctx, qual, key, seen=None):
    """Would util.filter_kwargs deliver keyword ``key`` to ``qual`` (transitively through **kwargs callees)?"""
    seen = seen or set()
    if qual in seen or not ctx.program.has_func(qual):
        return False
    seen.add(qual)
    f = ctx.program.func(qual)
    # what filter_kwargs consults: co_varnames[:co_argcount] == positional-only + positional-or-keyword
    if key in f.params:
        return True
    if f.kwarg:
        s = ctx.S.get(qual)
        for c in s.calls():
            if c.fn is None or c.fn.op not in ("func", "localfunc"):
                continue
            for n, v in c.kw:
                if n == "**" and f.kwarg in tm.params_of(v):
                    if accepts(ctx, call_name(c.term) or tm.callee_name(c.fn), key, seen):
                        return True
    return False


def effective_kwargs(kwterm):
    """Last writer per constant key along the upd-chain of a **kwargs term.
    Returns {key: (how, value term, conditional?)}."""
    eff = {}
    for how, key, val, conds in kwargs_chain(kwterm):
        if how == "setitem" and key.op == "const":
            eff[key.a[0]] = ("set", val, bool(conds))
        elif how == "method:setdefault" and val.op == "tuple" and len(val.a) >= 1 and val.a[0].op == "const":
            k = val.a[0].a[0]
            if k not in eff:
                eff[k] = ("setdefault", val.a[1] if len(val.a) > 1 else tm.none(), bool(conds))
        elif how in ("method:pop", "delitem", "method:clear", "method:update", "method:popitem"):
            eff["__destructive__"] = (how, val, bool(conds))
    return eff


def rule_kwlive(ctx):
    n = 0
    for task, em in eval_models(ctx).items():
        for m in em.kw_mutations:
            if m.how == "setitem" and m.key.op == "const":
                key = m.key.a[0]
            elif m.how == "method:setdefault" and m.val.op == "tuple" and m.val.a and m.val.a[0].op == "const":
                key = m.val.a[0].a[0]
            else:
                continue
            new = m.d.get("new")
            need(new is not None, "C03.KWLIVE", "%s: store to %s[%r] not tracked" % (em.qual, em.kwname, key))
            live = False
            consumer = None
            for c in em.calls:
                if not c.via_filter:
                    continue
                for nme, v in c.kw:
                    if nme != "**":
                        continue
                    # is this very store the effective one for `key` at call c?
                    chain = [x for x in _chain_nodes(v)]
                    if new not in chain:
                        continue
                    later = chain[chain.index(new) + 1 :]
                    overwritten = any(_writes_key(x, key) for x in later)
                    if overwritten:
                        continue
                    callee = tm.callee_name(c.fn)
                    if accepts(ctx, callee, key):
                        live = True
                        consumer = callee
            # a store that only restores/reads (e.g. kwargs['offset_ratio'] = orig) still needs a consumer
            n += 1
            yield ob(
                "C03.KWLIVE",
                em.func,
                "%s:kwargs[%r]@%d" % (em.qual, key, _ordinal(em.summ, m)),
                live,
                ("forced keyword %r reaches parameter %r of %s" % (key, key, consumer)) if live else "forced keyword %r reaches no filter_kwargs callee with a parameter of that name (silently dropped)" % key,
                node=m.node,
            )


def _chain_nodes(t):
    out = []

    def rec(x):
        if x.op == "upd":
            rec(x.a[0])
            out.append(x)
        elif x.op == "ite":
            rec(x.a[1])
            rec(x.a[2])

    rec(t)
    return out


def _writes_key(updnode, key):
    how, k, val = updnode.a[1], updnode.a[2], updnode.a[3]
    if how == "setitem" and k.op == "const" and k.a[0] == key:
        return True
    return False


# ---------------------------------------------------------------- KEYPARAM


def effective_arg(ctx, callsite, pname):
    """Effective value term of parameter ``pname`` at a (filter_kwargs) call site:
    explicit keyword, else reaching store of kwargs[pname], else the callee default.
    Returns (kind, term_or_value)."""
    callee = tm.callee_name(callsite.fn)
    f = ctx.program.func(callee)
    for n, v in callsite.kw:
        if n == pname:
            return ("explicit", v)
    # positional
    if pname in f.params:
        i = f.params.index(pname)
        if i < len(callsite.args) and not any(a.op == "star" for a in callsite.args[: i + 1]):
            return ("positional", callsite.args[i])
    for n, v in callsite.kw:
        if n == "**":
            eff = effective_kwargs(v)
            if pname in eff:
                how, val, cond = eff[pname]
                return (how + ("?" if cond else ""), val)
    ok, dv = f.default_value(pname)
    if ok:
        return ("default", tm.const(dv))
    return ("unknown", None)


def rule_keyparam(ctx):
    models = eval_models(ctx)
    for task, rx, pname, valf in oracles.KEYPARAM:
        em = models[task]
        rxc = re.compile(rx)
        hit = 0
        for key, m in em.stores:
            mm = rxc.search(key)
            if not mm:
                continue
            hit += 1
            expected = valf(mm)
            cs = _producing_call(em, m)
            need(cs is not None, "C03.KEYPARAM", "%s: no call found behind entry %r" % (em.qual, key))
            kind, val = effective_arg(ctx, cs, pname)
            good = False
            shown = "?"
            if val is not None and kind in ("explicit", "positional", "set", "default"):
                if is_lit(val):
                    v = lit(val)
                    shown = repr(v)
                    if expected is None:
                        good = v is None
                    elif isinstance(expected, bool):
                        good = v is expected
                    else:
                        good = isinstance(v, (int, float)) and not isinstance(v, bool) and abs(float(v) - float(expected)) < 1e-12
                else:
                    shown = tm.show(val, 4)
            elif val is not None:
                shown = "%s(%s)" % (kind, tm.show(val, 4))
            if good and kind == "default" and em.kwname and any(n_ == "**" and em.kwname in tm.params_of(v_) for n_, v_ in cs.kw):
                # the value is only the callee's default while the caller's own **kwargs reach this call: a caller who
                # passes the keyword changes an entry whose name promises a fixed value
                good = False
                shown += ", not pinned: the caller's %s overrides it" % pname
            callee = tm.callee_name(cs.fn)
            # the parameter must exist in the callee, otherwise the forced value is dropped (KWLIVE reports the store)
            has = accepts(ctx, callee, pname)
            yield ob("C03.KEYPARAM", em.func, "%s:%s" % (em.qual, key), good and has, "entry %r requires %s=%r; effective %s at the call of %s is %s (%s)%s" % (key, pname, expected, pname, callee, shown, kind, "" if has else "; callee has no such parameter"), node=m.node)
        need(hit > 0, "C03.KEYPARAM", "naming convention %s matches no key of %s" % (rx, em.qual))
    # entries that must NOT be forced: transcription with-offset and Offset_* entries keep the caller's offset_ratio
    for task in ("transcription", "transcription_velocity"):
        em = models[task]
        for key, m in em.stores:
            if key.endswith("_no_offset"):
                continue
            cs = _producing_call(em, m)
            if cs is None:
                continue
            callee = tm.callee_name(cs.fn)
            if not accepts(ctx, callee, "offset_ratio"):
                continue
            kind, val = effective_arg(ctx, cs, "offset_ratio")
            good = False
            if kind in ("setdefault", "default"):
                good = True
            elif kind == "set" and val is not None and not is_lit(val):
                # restored from the value read after setdefault: kwargs['offset_ratio'] of the chain
                good = val.op == "sub" and tm.is_const(val.a[1], "offset_ratio") and em.kwname in tm.params_of(val)
            yield ob("C03.KEYPARAM", em.func, "%s:%s:caller-offset_ratio" % (em.qual, key), good, "entry %r must use the caller's (or default) offset_ratio; effective value is %s (%s)" % (key, tm.show(val, 4) if val is not None else "?", kind), node=m.node)


def _producing_call(em, store):
    """The call site whose result (or a component of it) is stored by ``store``."""
    v = store.val
    cand = None
    for x in tm.walk(v):
        if x.op == "call" and x.a[0].op in ("func", "localfunc"):
            for c in em.calls:
                if c.term is x and c.lineno <= store.lineno + 200:
                    # several call sites can share one interned term (same args, same kwargs state)
                    if cand is None or abs(c.lineno - store.lineno) < abs(cand.lineno - store.lineno):
                        cand = c
            if cand is not None:
                return cand
    return cand


# ------------------------------------------------------------- DEFAULTSYNC

# reviewed: same-named parameters whose defaults differ by documented design
DEFAULT_EXCEPTIONS = {
    ("separation.bss_eval_sources_framewise", "separation.bss_eval_sources", "compute_permutation"): "framewise variants document compute_permutation=False (a per-window permutation is ambiguous)",
    ("separation.bss_eval_images_framewise", "separation.bss_eval_images", "compute_permutation"): "same",
}


def rule_defaultsync(ctx):
    models = eval_models(ctx)
    # (a) defaults injected by evaluate()
    for task, em in models.items():
        for m in em.kw_mutations:
            key = None
            val = None
            if m.how == "method:setdefault" and m.val.op == "tuple" and len(m.val.a) == 2 and m.val.a[0].op == "const":
                key, val = m.val.a[0].a[0], m.val.a[1]
            elif m.how == "setitem" and m.key.op == "const":
                # `if K not in kwargs: kwargs[K] = v`
                for c, p in symeval.pc_conds(m.pc):
                    if c.op == "cmp" and c.a[0] in ("notin", "in") and c.a[1].op == "const" and c.a[1].a[0] == m.key.a[0]:
                        if (c.a[0] == "notin") == p:
                            key, val = m.key.a[0], m.val
            if key is None or not is_lit(val):
                continue
            v = lit(val)
            consumers = []
            for c in em.calls:
                if c.via_filter:
                    callee = tm.callee_name(c.fn)
                    if ctx.program.has_func(callee):
                        g = ctx.program.func(callee)
                        if key in g.params:
                            okd, dv = g.default_value(key)
                            if okd:
                                consumers.append((callee, dv))
            for callee, dv in sorted(set((a, repr(b)) for a, b in consumers)):
                same = repr(v) == dv or (isinstance(v, (int, float)) and not isinstance(v, bool) and _num_eq(v, dv))
                yield ob("C03.DEFAULTSYNC", em.func, "%s:default[%r]->%s" % (em.qual, key, callee), same, "evaluate() injects default %s=%r; %s declares %s" % (key, v, callee, dv), node=m.node)
    # (b) wrappers forwarding their own parameter to a same-named callee parameter
    for f in ctx.program.all_funcs():
        s = ctx.S.get(f.qual)
        for c in s.calls():
            if c.fn is None or c.fn.op not in ("func", "localfunc") or c.via_filter:
                continue
            callee = tm.callee_name(c.fn)
            if not ctx.program.has_func(callee):
                continue
            g = ctx.program.func(callee)
            binds = []
            for i, a in enumerate(c.args):
                if a.op == "star":
                    break
                if i < len(g.params):
                    binds.append((g.params[i], a))
            for n, v in c.kw:
                if n not in ("**",) and n is not None:
                    binds.append((n, v))
            for q, a in binds:
                if a.op == "param" and a.a[0] == q and q in f.defaults and q in g.defaults:
                    ok1, d1 = f.default_value(q)
                    ok2, d2 = g.default_value(q)
                    if not (ok1 and ok2):
                        continue
                    same = repr(d1) == repr(d2) or (isinstance(d1, (int, float)) and isinstance(d2, (int, float)) and not isinstance(d1, bool) and not isinstance(d2, bool) and float(d1) == float(d2))
                    exc = DEFAULT_EXCEPTIONS.get((f.qual, callee, q))
                    yield ob(
                        "C03.DEFAULTSYNC",
                        f,
                        "%s->%s:%s" % (f.qual, callee, q),
                        same or exc is not None,
                        "wrapper default %s=%r vs callee default %r%s" % (q, d1, d2, (" (reviewed: %s)" % exc) if (exc and not same) else ""),
                        node=c.node,
                    )


def _num_eq(v, dvrepr):
    try:
        return float(v) == float(dvrepr)
    except Exception:
        return False


# --------------------------------------------------------------- KWFORWARD


def rule_kwforward(ctx):
    models = eval_models(ctx)
    for task, em in models.items():
        # no destructive operation on kwargs
        for m in em.kw_mutations:
            bad = m.how in ("delitem", "method:pop", "method:clear", "method:popitem", "method:update")
            yield ob("C03.KWFORWARD", em.func, "%s:kwargs-op@%d" % (em.qual, _ordinal(em.summ, m)), not bad, "operation %s on the caller's keywords" % m.how, node=m.node)
        # forced keys are only those of KEYPARAM / DEFAULTSYNC
        allowed_forced = {p for t, _, p, _ in oracles.KEYPARAM if t == task} | {"n", "offset_ratio"}
        for m in em.kw_mutations:
            if m.how == "setitem" and m.key.op == "const":
                k = m.key.a[0]
                # a misspelt forced key is KWLIVE's finding; here only *foreign* parameters are reported
                known_param = any(accepts(ctx, tm.callee_name(c.fn), k) for c in em.calls if c.via_filter)
                yield ob("C03.KWFORWARD", em.func, "%s:forced[%r]" % (em.qual, k), (k in allowed_forced) or not known_param, "evaluate() overrides keyword %r%s" % (k, "" if k in allowed_forced else " which no entry name states"), node=m.node)
        for c in em.calls:
            callee = tm.callee_name(c.fn)
            if not ctx.program.has_func(callee):
                continue
            g = ctx.program.func(callee)
            if g.module.name == "util" and g.name in ("filter_kwargs",):
                continue
            optional = [p for p in g.params if p in g.defaults]
            if g.kwarg:
                optional.append("**" + g.kwarg)
            passes_kwargs = any(n == "**" and em.kwname in tm.params_of(v) for n, v in c.kw)
            if c.via_filter:
                good = passes_kwargs or not optional
                yield ob("C03.KWFORWARD", em.func, "%s:call:%s@%d" % (em.qual, callee, _ordinal(em.summ, c)), good, "filter_kwargs(%s, ...) %s **%s" % (callee, "forwards" if passes_kwargs else "does not forward", em.kwname), node=c.node)
                if "filter_name_source" not in ctx.cache:
                    list(rule_filterimpl(ctx))
                by_sig = ctx.cache.get("filter_name_source") == "signature"
                bad_kinds = g.posonly if by_sig else (g.kwonly or g.posonly)
                yield ob("C03.KWFORWARD", g, "%s:signature" % callee, not bad_kinds, "callee reached through filter_kwargs has parameters %s that the keyword filter (%s) would drop or mis-handle" % (bad_kinds, "signature kinds POSITIONAL_OR_KEYWORD/KEYWORD_ONLY" if by_sig else "co_varnames[:co_argcount]") if bad_kinds else "every parameter of the callee can be reached by keyword through the filter")
            else:
                # direct call: allowed only for callees without optional parameters (nothing a user keyword could reach)
                is_helper = not _is_metric_like(g)
                good = (not optional) or is_helper
                yield ob("C03.KWFORWARD", em.func, "%s:call:%s@%d" % (em.qual, callee, _ordinal(em.summ, c)), good, "direct call of %s which has optional parameters %s: user keywords cannot reach it" % (callee, optional) if not good else "direct call of %s (no optional parameter a keyword could reach)" % callee, node=c.node)


PREPROC_HELPERS = {"util.adjust_intervals", "util.merge_labeled_intervals", "util.intervals_to_durations", "chord.merge_chord_intervals", "hierarchy._align_intervals", "hierarchy._hierarchy_bounds"}


def _is_metric_like(g):
    return g.qual not in PREPROC_HELPERS


def _signature_names(names, fn_t):
    """True/False when ``names`` is [n for n, p in inspect.signature(fn).parameters.items() if p.kind in (...)]
    (True iff the kinds kept are exactly the keyword-passable ones); None when it is another shape."""
    if not (names.op == "comp" and names.a[0] in ("list", "set", "tuple") and len(names.a[2]) == 1):
        return None
    it = names.a[2][0]
    if not (it.op == "call" and call_name(it) == ".items" and it.a[1] and it.a[1][0].op == "attr" and it.a[1][0].a[1] == "parameters"):
        return None
    sigc = it.a[1][0].a[0]
    if not (sigc.op == "call" and call_name(sigc) == "inspect.signature" and len(sigc.a[1]) == 1 and sigc.a[1][0] is fn_t):
        return None
    elt = names.a[1]
    if not (elt.op == "sub" and tm.is_const(elt.a[1], 0)):
        return False
    # which of the five parameter kinds pass the comprehension's tests (param.X and inspect.Parameter.X spell one constant)
    kinds = set()
    for K in PARAM_KINDS:
        ts = [_kind_truth(c, K) for c in names.a[3]]
        if any(t is None for t in ts):
            return None  # a test on something this reading has no value for: not a verdict
        if all(ts):
            kinds.add(K)
    return kinds == {"POSITIONAL_OR_KEYWORD", "KEYWORD_ONLY"}


def rule_decorated(ctx):
    """A callee reached through filter_kwargs whose definition carries a wrapping decorator (util.deprecated, built on
    the `decorator` package >= 5: the wrapper is `fun(*args, **kw)` with __signature__/__wrapped__ set) exposes its
    parameters only through inspect.signature; if filter_kwargs reads names from `__code__`, every keyword is dropped."""
    R = "C03.DECORATED"
    list(rule_filterimpl(ctx))
    src = ctx.cache.get("filter_name_source")
    need(src in ("signature", "code"), R, "filter_kwargs: name source not recognised")
    seen = set()
    n = 0
    for f in ctx.program.all_funcs():
        for c in ctx.S.get(f.qual).calls():
            if not c.d.get("via_filter"):
                continue
            callee = tm.callee_name(c.fn) if c.fn is not None else None
            if callee is None or callee in seen or not ctx.program.has_func(callee):
                continue
            seen.add(callee)
            g = ctx.program.func(callee)
            decos = [ast.unparse(d) for d in getattr(g.node, "decorator_list", [])]
            n += 1
            good = not decos or src == "signature"
            yield ob(R, g, "%s:reachable-by-keyword" % callee, good, ("undecorated" if not decos else "decorated by %s; filter_kwargs reads the names from inspect.signature, which follows the wrapper" % ", ".join(decos)) if good else "decorated by %s but filter_kwargs reads co_varnames of `__code__`, which is the decorator's (*args, **kw) wrapper: every keyword sent to %s through evaluate() is dropped" % (", ".join(decos), callee))
    need(n >= 40, R, "callees reached through filter_kwargs not enumerated")


PARAM_KINDS = ("POSITIONAL_ONLY", "POSITIONAL_OR_KEYWORD", "VAR_POSITIONAL", "KEYWORD_ONLY", "VAR_KEYWORD")


def _kind_truth(c, K):
    """truth of a test on `param.kind` for a parameter of kind K (None when the test reads anything else)"""
    if c.op == "un" and c.a[0] == "not":
        r = _kind_truth(c.a[1], K)
        return None if r is None else (not r)
    if c.op == "bool":
        rs = [_kind_truth(x, K) for x in c.a[1:]]
        if any(r is None for r in rs):
            return None
        return all(rs) if c.a[0] == "and" else any(rs)
    if c.op == "cmp":
        def kind_const(z):
            if z.op == "ext" and z.a[0].split(".")[-1] in PARAM_KINDS:
                return z.a[0].split(".")[-1]  # inspect.Parameter.VAR_KEYWORD
            return z.a[1] if z.op == "attr" and z.a[1] in PARAM_KINDS else None

        def is_kind(z):
            return z.op == "attr" and z.a[1] == "kind"

        op, l, r = c.a
        if op in ("==", "!=", "is", "isnot"):
            for u, v in ((l, r), (r, l)):
                if is_kind(u) and kind_const(v) is not None:
                    res = kind_const(v) == K
                    return res if op in ("==", "is") else (not res)
        if op in ("in", "notin") and is_kind(l) and r.op in ("tuple", "list", "set") and all(kind_const(z) is not None for z in r.a):
            res = K in {kind_const(z) for z in r.a}
            return res if op == "in" else (not res)
    return None


def _leaf_for_kind(body, K, depth=0):
    if depth > 12:
        return None
    if body.op == "ite":
        t = _kind_truth(body.a[0], K)
        if t is None:
            return None
        return _leaf_for_kind(body.a[1] if t else body.a[2], K, depth + 1)
    return body


def _filter_by_kind(kwt, kwa, fn_t, s):
    """The forwarded mapping is  kwargs if ACCEPTS else {k: v for k, v in kwargs.items() if k in NAMES}  with ACCEPTS and
    NAMES accumulated by one loop over inspect.signature(callee).parameters: decide, for each of the five parameter
    kinds, whether a parameter of that kind switches the filter off / contributes its name.
    -> (kinds that set ACCEPTS, kinds whose names are kept, items-form ok, extra conditions) or None"""
    if kwt.op != "ite":
        return None
    A, t1, t2 = kwt.a
    if t1 is kwa:
        D = t2
    elif t2 is kwa:
        return None
    else:
        return None
    if A.op == "call" and call_name(A) == "builtins.any" and D.op == "comp" and D.a[0] == "dict" and len(D.a[2]) == 1:
        return _filter_by_kind_comprehensions(A, D, kwa, fn_t)
    if not (A.op == "loop" and D.op == "comp" and D.a[0] == "dict" and len(D.a[2]) == 1):
        return None
    lid = A.a[0]
    it = s.loops.get(lid, (None, None))[1]
    if it is None or not (it.op == "call" and call_name(it) in (".items", ".values") and it.a[1] and it.a[1][0].op == "attr" and it.a[1][0].a[1] == "parameters"):
        return None
    sig = it.a[1][0].a[0]
    if not (sig.op == "call" and call_name(sig) == "inspect.signature" and len(sig.a[1]) == 1 and sig.a[1][0] is fn_t):
        return None
    if not tm.is_const(A.a[2], False):
        return None
    acc = set()
    for K in PARAM_KINDS:
        leaf = _leaf_for_kind(A.a[3], K)
        if leaf is None:
            return None
        if tm.is_const(leaf, True):
            acc.add(K)
        elif not (leaf.op == "loopvar" and leaf.a[0] == lid):
            return None
    elt = D.a[1]
    conds = list(D.a[3])
    from_items = elt.op == "tuple" and len(elt.a) == 2 and elt.a[0].op == "sub" and elt.a[1].op == "sub" and elt.a[0].a[0] is elt.a[1].a[0] and tm.is_const(elt.a[0].a[1], 0) and tm.is_const(elt.a[1].a[1], 1) and D.a[2][0].op == "call" and call_name(D.a[2][0]) == ".items" and D.a[2][0].a[1][0] is kwa
    member = [c2 for c2 in conds if c2.op == "cmp" and c2.a[0] == "in" and elt.op == "tuple" and c2.a[1] is elt.a[0]]
    extra = [tm.show(c2, 3) for c2 in conds if c2 not in member]
    if len(member) != 1:
        return None
    N = member[0].a[2]
    if not (N.op == "loop" and N.a[0] == lid):
        return None
    names = set()
    for K in PARAM_KINDS:
        leaf = _leaf_for_kind(N.a[3], K)
        if leaf is None:
            return None
        if leaf.op == "upd" and leaf.a[1] in ("method:add", "method:append"):
            v = leaf.a[3].a[0] if leaf.a[3].op == "tuple" and len(leaf.a[3].a) == 1 else None
            # the stored name is the parameter's own name: the key of .items() or param.name
            own = v is not None and ((v.op == "sub" and tm.is_const(v.a[1], 0) and v.a[0].op == "iter") or (v.op == "attr" and v.a[1] == "name"))
            if not own:
                return None
            names.add(K)
        elif not (leaf.op == "loopvar" and leaf.a[0] == lid):
            return None
    return acc, names, from_items, extra


def _is_signature_params(it, fn_t):
    """inspect.signature(callee).parameters.values() / .items() (a list() around it is already stripped)"""
    if not (it.op == "call" and call_name(it) in (".items", ".values") and it.a[1] and it.a[1][0].op == "attr" and it.a[1][0].a[1] == "parameters"):
        return False
    sig = it.a[1][0].a[0]
    return sig.op == "call" and call_name(sig) == "inspect.signature" and len(sig.a[1]) == 1 and sig.a[1][0] is fn_t


def _filter_by_kind_comprehensions(A, D, kwa, fn_t):
    """The same decision when ACCEPTS is  any(<test on p.kind> for p in parameters)  and NAMES is a comprehension
    {p.name for p in parameters if <test on p.kind>}."""
    g = A.a[1][0] if A.a[1] else None
    if g is None or g.op != "comp" or len(g.a[2]) != 1 or not _is_signature_params(g.a[2][0], fn_t):
        return None
    acc = set()
    for K in PARAM_KINDS:
        ts = [_kind_truth(c, K) for c in [g.a[1]] + list(g.a[3])]
        if any(t is None for t in ts):
            return None
        if all(ts):
            acc.add(K)
    elt = D.a[1]
    conds = list(D.a[3])
    from_items = elt.op == "tuple" and len(elt.a) == 2 and elt.a[0].op == "sub" and elt.a[1].op == "sub" and elt.a[0].a[0] is elt.a[1].a[0] and tm.is_const(elt.a[0].a[1], 0) and tm.is_const(elt.a[1].a[1], 1) and D.a[2][0].op == "call" and call_name(D.a[2][0]) == ".items" and D.a[2][0].a[1][0] is kwa
    member = [c2 for c2 in conds if c2.op == "cmp" and c2.a[0] == "in" and elt.op == "tuple" and c2.a[1] is elt.a[0]]
    extra = [tm.show(c2, 3) for c2 in conds if c2 not in member]
    if len(member) != 1:
        return None
    N = member[0].a[2]
    if not (N.op == "comp" and N.a[0] in ("set", "list", "gen") and len(N.a[2]) == 1 and _is_signature_params(N.a[2][0], fn_t)):
        return None
    v = N.a[1]
    own = (v.op == "attr" and v.a[1] == "name" and v.a[0].op == "iter") or (v.op == "sub" and tm.is_const(v.a[1], 0) and v.a[0].op == "iter")
    if not own:
        return None
    names = set()
    for K in PARAM_KINDS:
        ts = [_kind_truth(c, K) for c in N.a[3]]
        if any(t is None for t in ts):
            return None
        if all(ts):
            names.add(K)
    return acc, names, from_items, extra


def rule_filterimpl(ctx):
    """util.filter_kwargs forwards exactly the keywords named in the callee's signature."""
    f = ctx.program.func("util.filter_kwargs", "C03.FILTERIMPL")
    s = ctx.S.get("util.filter_kwargs")
    fnp = f.params[0] if f.params else None
    need(fnp is not None and f.vararg and f.kwarg, "C03.FILTERIMPL", "filter_kwargs signature changed")
    fn_t, va, kwa = tm.param(fnp), tm.param(f.vararg), tm.param(f.kwarg)
    calls = [c for c in s.calls() if c.fn is fn_t]
    need(len(calls) >= 1, "C03.FILTERIMPL", "no call of the wrapped function found")
    for c in calls:
        star_ok = len(c.args) == 1 and c.args[0].op == "star" and c.args[0].a[0] is va
        yield ob("C03.FILTERIMPL", f, "util.filter_kwargs:positional@%d" % _ordinal(s, c), star_ok, "positional arguments are forwarded unchanged (*%s)" % f.vararg, node=c.node)
        kws = [v for n, v in c.kw if n == "**"]
        if not c.kw and any((cc is kwa and not pp) or (cc.op == "cmp" and cc.a[0] == "==" and pp and any(z.op == "call" and call_name(z) == "builtins.len" and z.a[1][0] is kwa for z in cc.a[1:]) and any(tm.is_const(z, 0) for z in cc.a[1:])) for cc, pp in symeval.pc_conds(c.pc)):
            # `if not kwargs: return f(*args)`: with no keyword given there is nothing to filter
            yield ob("C03.FILTERIMPL", f, "util.filter_kwargs:empty-kwargs@%d" % _ordinal(s, c), True, "called without keywords only when none were given (`not %s`)" % f.kwarg, node=c.node)
            continue
        if not c.kw:
            # the wrapped function is called with no keyword at all on a path where keywords may have been given
            yield ob("C03.FILTERIMPL", f, "util.filter_kwargs:drops-keywords@%d" % _ordinal(s, c), False, "the wrapped function is called without any keyword under %s: keywords the caller passed (and the callee accepts) are dropped" % ("; ".join(tm.show(cc, 3) for cc, _ in symeval.pc_conds(c.pc)) or "no condition"), node=c.node)
            continue
        need(len(kws) == 1 and len(c.kw) == 1, "C03.FILTERIMPL", "unexpected keyword forwarding shape")
        kwt = kws[0]
        # one call whose keyword dict is chosen by a conditional (`kwargs = {filtered} if not has_kwargs(f) else kwargs`)
        # is the two calls it abbreviates
        alts_ = [(kwt, [])]
        if kwt.op == "ite" and any(z.op == "call" and call_name(z) == "util.has_kwargs" for z in tm.walk(kwt.a[0])):
            c0_ = kwt.a[0]
            pol_ = True
            while c0_.op == "un" and c0_.a[0] == "not":
                c0_, pol_ = c0_.a[1], not pol_
            alts_ = [(kwt.a[1], [(c0_, pol_)]), (kwt.a[2], [(c0_, not pol_)])]
        for kwt, extra_pc_ in alts_:
            by_kind = _filter_by_kind(kwt, kwa, fn_t, s)
            if by_kind is not None:
                acc, names, from_items, extra = by_kind
                ctx.cache["filter_name_source"] = "signature"
                yield ob("C03.FILTERIMPL", f, "util.filter_kwargs:passthrough", acc == {"VAR_KEYWORD"}, "all keywords are passed through exactly when the callee's signature has a **kwargs parameter (kinds that switch the filter off: %s)" % sorted(acc), node=c.node)
                yield ob("C03.FILTERIMPL", f, "util.filter_kwargs:filter", from_items and names == {"POSITIONAL_OR_KEYWORD", "KEYWORD_ONLY"} and not extra, "a keyword is kept iff it names a parameter of kind %s of inspect.signature(callee), with its own value%s" % (sorted(names), "; extra conditions %s" % extra if extra else ""), node=c.node)
                continue
            passthrough = kwt is kwa
            under_has_kwargs = any(call_name(cnd) == "util.has_kwargs" and p for cnd, p in list(symeval.pc_conds(c.pc)) + extra_pc_)
            if passthrough:
                yield ob("C03.FILTERIMPL", f, "util.filter_kwargs:passthrough", under_has_kwargs, "all keywords are passed through only when the callee has **kwargs", node=c.node)
            else:
                entries = []  # (key term, value term, [condition terms], n_loops, node)
                if kwt.op == "comp" and kwt.a[0] == "dict":
                    # {k: v for k, v in kwargs.items() if ...}
                    elt = kwt.a[1]
                    if elt.op == "tuple" and len(elt.a) == 2:
                        entries.append((elt.a[0], elt.a[1], list(kwt.a[3]), len(kwt.a[2]), c.node))
                else:
                    # filtered = {}; for k, v in kwargs.items(): if k in names: filtered[k] = v
                    for m in s.by_kind("mutate"):
                        if m.how == "setitem" and m.root is not None:
                            # (what an earlier `if not kwargs: return f(*args)` left behind - kwargs is non-empty - filters nothing)
                            pcs = [(c2, p) for c2, p in symeval.pc_conds(m.pc) if not (c2 is kwa and p)]
                            entries.append((m.key, m.val, [c2 for c2, p in pcs if p and call_name(c2) != "util.has_kwargs"] + [tm.unop("not", c2) for c2, p in pcs if not p and call_name(c2) != "util.has_kwargs"], len(symeval.pc_loops(m.pc)), m.node))
                need(entries, "C03.FILTERIMPL", "filtered keyword dict construction not recognised")
                for key, val, conds, nloops, node in entries:
                    # key/value are the two components of one item of kwargs.items()
                    from_items = key.op == "sub" and val.op == "sub" and key.a[0] is val.a[0] and tm.is_const(key.a[1], 0) and tm.is_const(val.a[1], 1) and f.kwarg in tm.params_of(key)
                    member = [c2 for c2 in conds if c2.op == "cmp" and c2.a[0] == "in" and c2.a[1] is key]
                    good_names = False
                    name_src = None
                    for c2 in member:
                        names = c2.a[2]
                        sg = _signature_names(names, fn_t)
                        if sg is not None:
                            good_names = sg
                            name_src = "signature"
                            continue
                        # co_varnames[:co_argcount] of the callee's code object
                        if names.op == "sub" and names.a[0].op == "attr" and names.a[0].a[1] == "co_varnames" and names.a[1].op == "slice":
                            lo, hi, st = names.a[1].a
                            if lo.op == "const" and lo.a[0] is None and st.op == "const" and st.a[0] is None and hi.op == "attr" and hi.a[1] == "co_argcount" and hi.a[0] is names.a[0].a[0]:
                                code = hi.a[0]
                                good_names = code.op == "attr" and code.a[1] == "__code__" and code.a[0] is fn_t
                                name_src = "code"
                    one_shot = any(c2.a[2].op == "comp" and c2.a[2].a[0] == "gen" for c2 in member)
                    if member and name_src is None and not one_shot:
                        raise AnalysisError("C03.FILTERIMPL", "filter_kwargs: the set of accepted names (%s) is not built in a form this rule reads" % tm.show(member[0].a[2], 3))
                    if one_shot:
                        yield ob("C03.FILTERIMPL", f, "util.filter_kwargs:filter", False, "the accepted names are a generator expression tested with `in` once per keyword: the first test consumes it up to the name found, so later keywords are dropped depending on their order", node=node)
                        continue
                    extra_conds = [c2 for c2 in conds if c2 not in member]
                    what = "a keyword is kept iff its name is %s, with its own value" % ("a keyword-passable parameter of inspect.signature(callee)" if name_src == "signature" else "in co_varnames[:co_argcount] of the callee")
                    ctx.cache["filter_name_source"] = name_src
                    if extra_conds:
                        what += "; found the extra filter condition %s" % "; ".join(tm.show(x, 3) for x in extra_conds)
                    yield ob("C03.FILTERIMPL", f, "util.filter_kwargs:filter", from_items and good_names and not extra_conds and nloops == 1, what, node=node)


# ---------------------------------------------------------------- ROLEARGS

KIND_SUFFIXES = ("intervals_hier", "labels_hier", "intervals", "labels", "pitches", "velocities", "time", "freqs", "freq", "beats", "onsets", "voicing", "cent", "patterns", "tempi", "key", "timestamps", "sources", "boundaries")


def kind_of(name):
    n = name.lower()
    for sfx in KIND_SUFFIXES:
        if n.endswith(sfx):
            return sfx.replace("freqs", "freq")
    return None


# reviewed mirror twins (C06.TWINCALL): call sites that bind an E term to an R parameter on purpose
TWIN_SITES = {
    ("hierarchy.tmeasure", "hierarchy._gauc"),
    ("hierarchy.lmeasure", "hierarchy._gauc"),
    ("beat.information_gain", "beat._get_entropy"),
    ("chord.underseg", "chord.directional_hamming_distance"),
}


def bind_args(g, c):
    """[(param name, arg term, arg ast node)] for a call site against callee g."""
    out = []
    nodes = c.node.args
    shift = 1 if c.via_filter else 0
    for i, a in enumerate(c.args):
        if a.op == "star":
            return out
        if i < len(g.params):
            n = nodes[i + shift] if i + shift < len(nodes) else None
            out.append((g.params[i], a, n))
    for k in c.node.keywords:
        if k.arg is not None:
            for n, v in c.kw:
                if n == k.arg:
                    out.append((k.arg, v, k.value))
    return out


def rule_roleargs(ctx):
    for f in ctx.program.all_funcs():
        s = ctx.S.get(f.qual)
        for c in s.calls():
            if c.fn is None or c.fn.op not in ("func", "localfunc"):
                continue
            callee = tm.callee_name(c.fn)
            if not ctx.program.has_func(callee):
                continue
            if c.d.get("inlined_from") and ctx.program.resigned(c.d["inlined_from"]):
                # a call made inside a directional helper (_gauc(est, ref) for precision) that is evaluated in place
                # because its signature changed: inside the helper the names `ref` / `est` are positions, not roles
                continue
            g = ctx.program.func(callee)
            binds = bind_args(g, c)
            problems = []
            checked = 0
            for pname, a, anode in binds:
                pr = role_of(pname)
                ar = roles(a)
                if pr and len(ar) == 1:
                    checked += 1
                    if next(iter(ar)) != pr and (f.qual, callee) not in TWIN_SITES:
                        problems.append("argument %s (role %s) bound to parameter %s" % (tm.show(a, 3), next(iter(ar)), pname))
                # kind suffix agreement for plain names
                if isinstance(anode, ast.Name):
                    ak, pk = kind_of(anode.id), kind_of(pname)
                    if ak and pk:
                        checked += 1
                        if ak != pk:
                            problems.append("argument %s (%s) bound to parameter %s (%s)" % (anode.id, ak, pname, pk))
            # simple-name positional arguments equal to a callee parameter name must sit at that position
            shift = 1 if c.via_filter else 0
            for i, n in enumerate(c.node.args[shift:]):
                if isinstance(n, ast.Name) and n.id in g.params and i < len(g.params):
                    checked += 1
                    if g.params[i] != n.id and (f.qual, callee) not in TWIN_SITES:
                        # swapping is only an error if the other name is also passed positionally elsewhere
                        problems.append("positional argument %s sits at the position of parameter %s" % (n.id, g.params[i]))
            if checked:
                yield ob("C03.ROLEARGS", f, "%s:call:%s@%d" % (f.qual, callee, _ordinal(s, c)), not problems, "; ".join(problems) if problems else "%d role/kind/position bindings agree" % checked, node=c.node)


# -------------------------------------------------------------- UNPACKORDER


def rule_unpackorder(ctx):
    models = eval_models(ctx)
    for task, em in models.items():
        table = {k: (src, pos) for k, src, pos, _ in oracles.SCORES[task]}
        for key, m in em.stores:
            if key not in table:
                continue
            src, pos = table[key]
            if src is None:
                continue
            v = m.val
            # expected: call(src) for scalar, sub(call(src), pos) for tuple position
            if task == "chord" and src == "chord.weighted_accuracy":
                good = v.op == "call" and call_name(v) == src and len(v.a[1]) == 2 and v.a[1][0].op == "call" and call_name(v.a[1][0]) == "chord." + key
                yield ob("C03.UNPACKORDER", em.func, "%s:%s" % (em.qual, key), good, "entry %r <- weighted_accuracy(%s(...), durations)" % (key, key), node=m.node)
                continue
            if pos is None:
                good = v.op == "call" and call_name(v) == src
                got = tm.show(v, 2)
            else:
                good = v.op == "sub" and v.a[0].op == "call" and call_name(v.a[0]) == src and tm.is_const(v.a[1], pos)
                got = tm.show(v, 2)
            yield ob("C03.UNPACKORDER", em.func, "%s:%s" % (em.qual, key), good, "entry %r must be %s%s; is %s" % (key, src, "" if pos is None else "[%d]" % pos, got), node=m.node)
    # inside the metrics: a returned simple name equal to the documented name of a different position
    for f in ctx.program.all_funcs():
        docr = [n for n, _, _ in f.docinfo["returns"]]
        if len(docr) < 2:
            continue
        for n in ast.walk(f.node):
            if isinstance(n, ast.Return) and isinstance(n.value, ast.Tuple) and len(n.value.elts) == len(docr):
                names = [e.id if isinstance(e, ast.Name) else None for e in n.value.elts]
                wrong = [(i, nm) for i, nm in enumerate(names) if nm is not None and nm in docr and docr.index(nm) != i and nm != docr[i]]
                yield ob("C03.UNPACKORDER", f, "%s:return-order@%d" % (f.qual, _ret_ordinal(f, n)), not wrong, "returned names %s vs documented order %s" % (names, docr), node=n)


def _ret_ordinal(f, node):
    k = 0
    for n in ast.walk(f.node):
        if isinstance(n, ast.Return):
            if n is node:
                return k
            k += 1
    return -1


# ----------------------------------------------------------------- PREPROC


def _derives_from_call(t, callee):
    return any(x.op == "call" and call_name(x) == callee for x in tm.walk(t))


def rule_preproc(ctx):
    models = eval_models(ctx)
    # beat: both sides of every metric call come from trim_beats applied through filter_kwargs
    em = models["beat"]
    trims = [c for c in em.calls if tm.callee_name(c.fn) == "beat.trim_beats"]
    need(len(trims) >= 1, "C03.PREPROC", "beat.evaluate no longer calls trim_beats")
    for c in trims:
        fwd = c.via_filter and any(n == "**" for n, _ in c.kw)
        yield ob("C03.PREPROC", em.func, "beat.evaluate:trim_beats@%d" % _ordinal(em.summ, c), fwd, "trim_beats is called through filter_kwargs with **kwargs (min_beat_time honoured)", node=c.node)
    for c in em.calls:
        callee = tm.callee_name(c.fn)
        if callee == "beat.trim_beats" or not c.via_filter:
            continue
        good = len(c.args) >= 2 and all(_is_trim_of(a, side) for a, side in zip(c.args[:2], ("R", "E")))
        yield ob("C03.PREPROC", em.func, "beat.evaluate:%s:trimmed" % callee, good, "both beat sequences passed to %s are trim_beats(<own side>)" % callee, node=c.node)
    # segment: adjust_intervals(t_min=0) on ref, (t_min=0, t_max=ref end) on est
    em = models["segment"]
    for c in em.calls:
        callee = tm.callee_name(c.fn)
        if callee == "util.adjust_intervals" or not c.via_filter:
            continue
        g = ctx.program.func(callee)
        probs = []
        for pname, a, _ in bind_args(g, c):
            r = role_of(pname)
            if r is None:
                continue
            adj = [x for x in tm.walk(a) if x.op == "call" and call_name(x) == "util.adjust_intervals"]
            if not adj:
                probs.append("%s does not come from adjust_intervals" % pname)
                continue
            x = adj[0]
            tmin = _arg_of(ctx, x, "util.adjust_intervals", "t_min")
            tmax = _arg_of(ctx, x, "util.adjust_intervals", "t_max")
            if tmin is None or not tm.is_const(tmin, 0.0):
                probs.append("%s: t_min is not 0" % pname)
            if r == "E":
                if tmax is None or roles(tmax) != {"R"} or not (tmax.op == "call" and call_name(tmax) == "np.max"):
                    probs.append("%s: t_max is not the reference's end" % pname)
            else:
                if tmax is not None and not tm.is_const(tmax, None):
                    probs.append("%s: reference is cropped at t_max" % pname)
        yield ob("C03.PREPROC", em.func, "segment.evaluate:%s@%d:adjusted" % (callee, _ordinal(em.summ, c)), not probs, "; ".join(probs) if probs else "interval/label arguments come from adjust_intervals(t_min=0[, t_max=ref end])", node=c.node)
    # hierarchy: _align_intervals
    em = models["hierarchy"]
    ctx.program.func("hierarchy._align_intervals", "C03.PREPROC")  # (anchor: evaluated in place when its signature changed)
    for c in em.calls:
        callee = tm.callee_name(c.fn)
        if not c.via_filter:
            continue
        g = ctx.program.func(callee)
        probs = []
        for pname, a, _ in bind_args(g, c):
            r = role_of(pname)
            if r is None:
                continue
            al = [x for x in tm.walk(a) if x.op == "call" and call_name(x) == "hierarchy._align_intervals"]
            if not al:
                probs.append("%s does not come from _align_intervals" % pname)
                continue
            x = al[0]
            tmin = _arg_of(ctx, x, "hierarchy._align_intervals", "t_min")
            tmax = _arg_of(ctx, x, "hierarchy._align_intervals", "t_max")
            if tmin is None or not tm.is_const(tmin, 0.0):
                probs.append("%s: t_min is not 0" % pname)
            if r == "E" and (tmax is None or roles(tmax) != {"R"}):
                probs.append("%s: t_max is not the reference's end" % pname)
            if r == "R" and tmax is not None and not tm.is_const(tmax, None):
                probs.append("%s: reference cropped" % pname)
        yield ob("C03.PREPROC", em.func, "hierarchy.evaluate:%s@%d:aligned" % (callee, _ordinal(em.summ, c)), not probs, "; ".join(probs) if probs else "hierarchies come from _align_intervals(t_min=0[, t_max=ref end])", node=c.node)
    # melody: to_cent_voicing through filter_kwargs feeds every metric
    em = models["melody"]
    tcv = [c for c in em.calls if tm.callee_name(c.fn) == "melody.to_cent_voicing"]
    need(len(tcv) == 1, "C03.PREPROC", "melody.evaluate: to_cent_voicing call not found")
    c0 = tcv[0]
    g0 = ctx.program.func("melody.to_cent_voicing")
    b0 = [(p, a) for p, a, _ in bind_args(g0, c0)]
    exp = [p for p in em.func.params]
    good0 = c0.via_filter and [a.a[0] if a.op == "param" else None for _, a in b0] == [p for p, _ in b0] and any(n == "**" for n, _ in c0.kw)
    yield ob("C03.PREPROC", em.func, "melody.evaluate:to_cent_voicing", good0, "to_cent_voicing receives evaluate()'s own arguments by name through filter_kwargs", node=c0.node)
    names = ["ref_voicing", "ref_cent", "est_voicing", "est_cent"]
    for c in em.calls:
        callee = tm.callee_name(c.fn)
        if callee == "melody.to_cent_voicing":
            continue
        g = ctx.program.func(callee)
        probs = []
        for pname, a, _ in bind_args(g, c):
            if pname in names:
                k = names.index(pname)
                if not (a.op == "sub" and a.a[0] is c0.term and tm.is_const(a.a[1], k)):
                    probs.append("%s is not component %d of to_cent_voicing" % (pname, k))
        yield ob("C03.PREPROC", em.func, "melody.evaluate:%s:inputs" % callee, not probs, "; ".join(probs) if probs else "arguments are the matching components of to_cent_voicing's result", node=c.node)


ARGIDENT_MODULES = ("alignment", "key", "multipitch", "onset", "pattern", "tempo", "transcription", "transcription_velocity", "separation")


def rule_argident(ctx):
    """The evaluate() functions without a documented pre-processing hand every annotation argument to the metric
    functions *as received*: sorting, clipping, de-duplicating, rounding or converting an annotation on the way makes
    evaluate() disagree with the direct call on exactly the inputs that were "cleaned"."""
    R = "C03.ARGIDENT"
    models = eval_models(ctx)
    n = 0
    for name in ARGIDENT_MODULES:
        em = models.get(name)
        if em is None:
            continue
        for c in em.calls:
            if not c.via_filter:
                continue
            callee = tm.callee_name(c.fn)
            if callee is None or not ctx.program.has_func(callee) or ctx.program.resigned(callee):
                continue
            g = ctx.program.func(callee)
            for pname, a, node in bind_args(g, c):
                if role_of(pname) is None:
                    continue
                n += 1
                direct = a.op == "param" and role_of(a.a[0]) == role_of(pname)
                yield ob(R, em.func, "%s.evaluate:%s:%s" % (name, callee.split(".")[-1], pname), direct, "%s receives the caller's %s unchanged" % (callee, a.a[0] if a.op == "param" else "?") if direct else "%s receives %s for %s: the annotation is transformed on its way through evaluate(), so the bundle differs from the direct call" % (callee, tm.show(a, 3), pname), node=c.node)
    need(n >= 30, R, "only %d annotation arguments found" % n)


def rule_preproc_chord(ctx):
    """chord.evaluate's documented pre-processing (shared with C12.PIPELINE)."""
    from . import c12

    for o in c12.rule_pipeline(ctx):
        o.rule = "C03.PREPROC"
        yield o


def _is_trim_of(a, side):
    if not (a.op == "call" and call_name(a) == "beat.trim_beats" and a.a[1]):
        return False
    x = a.a[1][0]
    return x.op == "param" and role_of(x.a[0]) == side


def _arg_of(ctx, callterm, qual, pname):
    g = ctx.program.func(qual)
    args, kw = callterm.a[1], callterm.a[2]
    for n, v in kw:
        if n == pname:
            return v
    if pname in g.params:
        i = g.params.index(pname)
        if i < len(args):
            return args[i]
    ok, dv = g.default_value(pname)
    if ok:
        return tm.const(dv)
    return None


# ------------------------------------------------------- PARAMLIVE / EMPTYSAFE


def rule_paramlive(ctx):
    """Every named parameter of a task's evaluate() (and of the metrics() bundle it delegates to) reaches a call:
    a parameter that is accepted and documented but flows nowhere is silently ignored through evaluate()
    while the same value passed to the underlying function has an effect."""
    R = "C03.PARAMLIVE"
    quals = [em.qual for em in eval_models(ctx).values()] + ["multipitch.metrics"]
    for q in sorted(set(quals)):
        f = ctx.program.func(q, R)
        s = ctx.S.get(q)
        used = set()
        for c in s.calls():
            for a in list(c.args) + [v for _, v in c.kw]:
                used |= tm.params_of(a)
            if c.base is not None:
                used |= tm.params_of(c.base)
        for r in s.returns:
            used |= tm.params_of(r.term)
        for m in s.by_kind("mutate"):
            if m.val is not None and hasattr(m.val, "op"):
                used |= tm.params_of(m.val)
        for p in f.params:
            yield ob(R, f, "%s:param:%s" % (q, p), p in used, ("parameter %s reaches a call / a stored score" % p) if p in used else "parameter %s of %s is accepted but never used: the value is silently dropped" % (p, q))


def rule_emptysafe(ctx):
    """Shared with C01.COUNTGUARD: a division by the size of an input collection is reached only when that collection
    is non-empty, so evaluate() returns its mapping (zeros) for empty annotations instead of raising ZeroDivisionError."""
    from . import c01

    for o in c01.rule_countguard(ctx, rule="C03.EMPTYSAFE"):
        yield o


def rule_bundlekw(ctx):
    """Shared with C07.CHROMATWIN: inside multipitch.metrics both true-positive computations are reached through
    filter_kwargs with the caller's keywords, so `window` passed to evaluate() acts on every entry."""
    from . import c07

    for o in c07.rule_chromatwin(ctx):
        if o.construct == "multipitch.metrics:same-keywords":
            o.rule = "C03.BUNDLEKW"
            yield o


def rule_beattrim(ctx):
    """beat.evaluate scores the beats at or after min_beat_time: trim_beats keeps exactly the elements with
    beat >= min_beat_time - a beat exactly at the threshold (5.0 s on a 120 BPM grid) stays."""
    from .. import finmodel

    R = "C03.BEATTRIM"
    f = ctx.program.func("beat.trim_beats", R)
    s = ctx.S.get(f.qual)
    need(len(s.returns) == 1, R, "trim_beats: single return expected")
    t = s.returns[0].term
    beats, thr = tm.param(f.params[0]), tm.param(f.params[1])
    need(t.op == "sub" and t.a[0] is beats, R, "trim_beats: the result is not a selection of the beats array: %s" % tm.show(t, 3))
    sel = t.a[1]
    want = tm.cmp("<=", thr, beats)
    if sel.op == "slice":
        lo, hi, st = sel.a
        good = False
        why = "slice form not recognised: %s" % tm.show(sel, 3)
        if tm.is_const(hi, None) and tm.is_const(st, None) and lo.op == "call" and call_name(lo) in ("np.searchsorted", ".searchsorted") and len(lo.a[1]) >= 2 and lo.a[1][0] is beats and lo.a[1][1] is thr:
            side = dict(lo.a[2]).get("side", lo.a[1][2] if len(lo.a[1]) > 2 else tm.const("left"))
            good = tm.is_const(side, "left")
            why = "beats[searchsorted(beats, min_beat_time, side='left'):] keeps the beats >= min_beat_time of a sorted array" if good else "searchsorted(..., side=%s) starts after the beats equal to min_beat_time: a beat exactly at the threshold is dropped" % tm.show(side, 1)
        else:
            need(False, R, "trim_beats: " + why)
        yield ob(R, f, "beat.trim_beats:keeps>=", good, why)
        return
    from .c14 import _elementwise

    eq = finmodel.equivalent(_elementwise(sel), want)
    need(eq is not None, R, "trim_beats: selector %s is not a comparison of the beats with the threshold" % tm.show(sel, 3))
    yield ob(R, f, "beat.trim_beats:keeps>=", bool(eq), "the selector %s keeps exactly the beats >= min_beat_time" % tm.show(sel, 3) if eq else "the selector %s does not keep exactly the beats >= min_beat_time (a beat at the threshold, or before it, is treated differently)" % tm.show(sel, 3))


def _kw_view(v, kwname, ctx, depth=0):
    """How much of the caller's **kwargs a forwarded mapping carries: ("full", None), ("filtered", keep) with
    keep(name) -> True / False / None, or None when the mapping is not derived from **kwargs in a readable way."""
    if depth > 40:
        return None
    if v.op == "param" and v.a[0] == kwname:
        return ("full", None)
    if v.op == "upd":
        return _kw_view(v.a[0], kwname, ctx, depth + 1)
    if v.op == "ite":
        a, b2 = _kw_view(v.a[1], kwname, ctx, depth + 1), _kw_view(v.a[2], kwname, ctx, depth + 1)
        if a is None or b2 is None:
            return None
        if a[0] == "full" and b2[0] == "full":
            return a
        ka = a[1] or (lambda n: True)
        kb = b2[1] or (lambda n: True)
        return ("filtered", lambda n: None if ka(n) is None or kb(n) is None else (ka(n) and kb(n)))
    if v.op == "call" and call_name(v) == "builtins.dict" and len(v.a[1]) == 1 and v.a[1][0].op == "dict":
        stars = [x for k, x in v.a[2] if k == "**"]
        if len(stars) == 1:
            return _kw_view(stars[0], kwname, ctx, depth + 1)  # dict({defaults}, **kwargs)
    if v.op == "call" and call_name(v) in ("builtins.dict", ".copy", "copy.copy", "copy.deepcopy") and len(v.a[1]) == 1:
        return _kw_view(v.a[1][0], kwname, ctx, depth + 1)
    if v.op == "comp" and v.a[0] == "dict" and len(v.a[2]) == 1:
        it = v.a[2][0]
        if it.op == "call" and call_name(it) == ".items" and len(it.a[1]) == 1:
            base = _kw_view(it.a[1][0], kwname, ctx, depth + 1)
            if base is None:
                return None
            elem = tm.mk("iter", it, v.a[4])
            key_t = tm.proj(elem, 0)
            elt = v.a[1]
            if not (elt.op == "tuple" and len(elt.a) == 2 and elt.a[0] is key_t):
                return None
            conds = list(v.a[3])
            if not conds and base[0] == "full":
                return base

            def keep(name, conds=conds, key_t=key_t, base=base):
                if base[1] is not None:
                    b0 = base[1](name)
                    if b0 is not True:
                        return b0
                for c in conds:
                    r = _name_test(c, key_t, name, ctx)
                    if r is None:
                        return None
                    if not r:
                        return False
                return True

            return ("filtered", keep)
    return None


def _name_test(c, key_t, name, ctx):
    """truth of a comprehension filter on the keyword name `name`: membership in a literal collection or in the
    parameters of a repo function (inspect.signature(F).parameters, F.__code__.co_varnames)"""
    if c.op == "un" and c.a[0] == "not":
        r = _name_test(c.a[1], key_t, name, ctx)
        return None if r is None else (not r)
    if c.op == "bool":
        rs = [_name_test(x, key_t, name, ctx) for x in c.a[1:]]
        if any(r is None for r in rs):
            return None
        return all(rs) if c.a[0] == "and" else any(rs)
    if c.op == "cmp" and c.a[0] in ("in", "notin", "==", "!=") and c.a[1] is key_t:
        coll = c.a[2]
        names = None
        if coll.op in ("tuple", "list", "set") and all(z.op == "const" for z in coll.a):
            names = {z.a[0] for z in coll.a}
        elif coll.op == "const":
            names = {coll.a[0]}
        elif coll.op == "attr" and coll.a[1] == "parameters" and coll.a[0].op == "call" and call_name(coll.a[0]) == "inspect.signature" and len(coll.a[0].a[1]) == 1:
            fn = coll.a[0].a[1][0]
            if fn.op in ("func", "localfunc") and ctx.program.has_func(fn.a[0]):
                names = set(ctx.program.func(fn.a[0]).all_params)
        if names is None:
            return None
        r = name in names
        return r if c.a[0] in ("in", "==") else (not r)
    return None


def rule_kwview(ctx):
    """Every keyword the caller passes reaches every callee that accepts it: the mapping handed to filter_kwargs is
    the function's own **kwargs (with overrides), not a subset from which a parameter of the callee has been removed;
    and a keyword that the function itself declares explicitly (so that it no longer travels inside **kwargs) is
    passed on by name to every callee that has a parameter of that name."""
    R = "C03.KWVIEW"
    n = 0
    for f in ctx.program.all_funcs(include_new=True):
        if not f.kwarg or f.qual == "util.filter_kwargs":
            continue
        s = ctx.S.get(f.qual)
        explicit_opt = [p for p in f.params if p in f.defaults]
        for c in s.calls():
            if not c.d.get("via_filter") or not c.callee or not ctx.program.has_func(c.callee):
                continue
            g = ctx.program.func(c.callee)
            star = [v for k, v in c.kw if k == "**"]
            named = {k for k, v in c.kw if k != "**"}
            if not star:
                continue
            n += 1
            view = _kw_view(star[0], f.kwarg, ctx)
            cons = "%s:view:%s@%d" % (f.qual, g.qual, _ordinal(s, c))
            if view is None:
                raise AnalysisError(R, "%s: the mapping forwarded to %s (%s) is not a readable view of **%s" % (f.qual, g.qual, tm.show(star[0], 3), f.kwarg))
            dropped, unknown = [], []
            if view[0] == "filtered":
                for p in g.all_params:
                    if p in g.defaults and p not in named:
                        r = view[1](p)
                        if r is None:
                            unknown.append(p)
                        elif not r:
                            dropped.append(p)
            if unknown and not dropped:
                raise AnalysisError(R, "%s: cannot decide whether the filtered keywords forwarded to %s still contain %s" % (f.qual, g.qual, unknown))
            yield ob(R, f, cons, not dropped, "filter_kwargs(%s, ...) receives all of the caller's keywords" % g.qual if not dropped else "the keywords forwarded to %s were filtered and no longer contain its parameter(s) %s: a caller's %s=... is silently ignored there" % (g.qual, dropped, dropped[0]), node=c.node)
            # explicitly declared keyword of f that g also accepts
            posargs = set()
            for a0 in c.args:
                if a0.op == "param":
                    posargs.add(a0.a[0])
            for p in explicit_opt:
                if p in g.all_params and p in g.defaults:
                    passed = p in named or p in posargs
                    yield ob(R, f, "%s:explicit[%s]->%s@%d" % (f.qual, p, g.qual, _ordinal(s, c)), passed, "%s declares %s itself and passes it on to %s by name" % (f.qual, p, g.qual) if passed else "%s declares the keyword %s itself, so it no longer travels in **%s, and this call does not pass it: %s always runs with its own default" % (f.qual, p, f.kwarg, g.qual), node=c.node)
    # a helper introduced between evaluate()/metrics() and the metric functions must be handed the keywords too
    from ..known import KNOWN_FUNCS

    for f in ctx.program.all_funcs(include_new=True):
        if not f.kwarg:
            continue
        s = ctx.S.get(f.qual)
        for c in s.calls():
            if c.d.get("via_filter") or not c.callee or not ctx.program.has_func(c.callee) or c.callee in KNOWN_FUNCS:
                continue
            g = ctx.program.func(c.callee)
            if not g.kwarg:
                continue
            star = [v for k, v in c.kw if k == "**"]
            view = _kw_view(star[0], f.kwarg, ctx) if star else None
            good = view is not None and view[0] == "full"
            yield ob(R, f, "%s:helper:%s@%d" % (f.qual, g.qual, _ordinal(s, c)), good, "the helper %s(..., **%s) receives the caller's keywords" % (g.qual, g.kwarg) if good else "the helper %s accepts **%s but this call does not pass **%s on: keywords given to %s never reach the metrics computed there" % (g.qual, g.kwarg, f.kwarg, f.qual), node=c.node)
            n += 1
    yield ob(R, "mir_eval/", "kwview:census", True, "%d filter_kwargs call sites examined" % n)


def rule_padlabels(ctx):
    """The evaluators pad the estimate to the reference span with util.adjust_intervals' default labels; the segment at
    the front and the one at the back must not share a label (nor a label an annotation could plausibly carry the
    documented way): with equal pad labels the label-based entries of segment / hierarchy evaluate() see the two pads
    as one class."""
    R = "C03.PADLABELS"
    f = ctx.program.func("util.adjust_intervals", R)
    need("start_label" in f.params and "end_label" in f.params, R, "adjust_intervals: start_label / end_label parameters not found")
    ok1, a = f.default_value("start_label")
    ok2, b = f.default_value("end_label")
    need(ok1 and ok2, R, "adjust_intervals: pad-label defaults are not constant expressions")
    yield ob(R, f, "util.adjust_intervals:pad-defaults-distinct", a != b and isinstance(a, str) and isinstance(b, str), "default start_label %r and end_label %r differ" % (a, b) if a != b else "default start_label and end_label are both %r: an estimate padded at both ends gets two segments of one class" % (a,))




RULES = [
    ("C03.TABLES", 40, common.shared("c10", "rule_tables", "C03.TABLES")),
    ("C03.HELPERDEFAULTS", 3, common.rule_helperdefaults("C03.HELPERDEFAULTS")),
    ("C03.KWVIEW", 53, rule_kwview),
    ("C03.PADLABELS", 1, rule_padlabels),
    ("C03.BEATTRIM", 1, rule_beattrim),
    ("C03.BUNDLEKW", 1, rule_bundlekw),
    ("C03.ARITY", 230, rule_arity),
    ("C03.SCALAR", 126, rule_scalar),
    ("C03.KEYSET", 166, rule_keyset),
    ("C03.KWLIVE", 12, rule_kwlive),
    ("C03.KEYPARAM", 37, rule_keyparam),
    ("C03.DEFAULTSYNC", 55, rule_defaultsync),
    ("C03.KWFORWARD", 130, rule_kwforward),
    ("C03.FILTERIMPL", 4, rule_filterimpl),
    ("C03.DECORATED", 40, rule_decorated),
    ("C03.ROLEARGS", 280, rule_roleargs),
    ("C03.UNPACKORDER", 180, rule_unpackorder),
    ("C03.PREPROC", 26, rule_preproc),
    ("C03.PREPROC", 20, rule_preproc_chord),
    ("C03.ARGIDENT", 50, rule_argident),
    ("C03.PARAMLIVE", 49, rule_paramlive),
    ("C03.EMPTYSAFE", 23, rule_emptysafe),
]

from . import common as _common_purity
RULES = RULES + _common_purity.purity_rules("C03")
