"""C04 - event, frame and note metrics equal their published definitions (decidable clauses)."""

from __future__ import annotations

import ast
import re

from .. import terms as tm
from .. import oracles
from ..model import AnalysisError, doc_default
from ..constfold import table
from .common import ob, need, call_name, count_form, role_of, roles, is_lit, lit, resolve_ite_free, linear_form, strip_numeric
from . import common
from .. import symeval
from . import c01, c06

PROP = "C04"
EXPLANATION = (
    "Agreement of Cemgil/Goto/P-score/continuity/information gain, the melody measures, multipitch counting, alignment statistics and the "
    "pattern scores with their published formulas to 1e-9 needs an executable specification and is declined.  Decided statically are six "
    "structural clauses of those definitions: every documented numeric default equals the signature default (Davies' 0.07/0.04/0.35/0.2/0.175/41, "
    "50 ms, 50 cents, 20 %, 0.08 ...); precision divides hits by the estimate's count (or reduces the [ref, est] matrix along axis 0) and recall "
    "by the reference's (axis 1); key.weighted_score is a decision list whose scores equal the RST grid in its own docstring and whose intervals "
    "equal the MIREX relations (fifth = 7, relative = 9/3, parallel = 0); onset and offset distances are rounded to N_DECIMALS = 4 decimals "
    "before the comparison and pitch distances are not; the comparators are the documented ones (<= by default, < when strict); the tempo "
    "P-score is w*hit1 + (1-w)*hit2 with hits = min relative error <= tol; F is the weighted harmonic mean; frame accuracies are weighted means."
)
RULE_TEXT = "one obligation per documented default / per precision-recall pair / per key-table row / per distance term"

SCOPE_SKIP = {"sonify", "io", "display", "separation"}


def rule_docdefault(ctx):
    n = 0
    for f in ctx.program.all_funcs():
        if not f.public or f.module.name in SCOPE_SKIP:
            continue
        for name, ty, text in f.docinfo["params"]:
            names = [x.strip() for x in name.split(",")]
            found, val, raw = doc_default(text)
            if not found or val is None or isinstance(val, bool) or not isinstance(val, (int, float)):
                continue
            for p in names:
                if p not in f.params:
                    continue
                okd, dv = f.default_value(p)
                if p not in f.defaults:
                    continue  # the docstring describes a typical value of a required parameter
                n += 1
                good = okd and isinstance(dv, (int, float)) and not isinstance(dv, bool) and abs(float(dv) - float(val)) <= 1e-12 * max(1.0, abs(float(val)))
                yield ob("C04.DOCDEFAULT", f, "%s:%s" % (f.qual, p), good, "documented default %s; signature default %r" % (raw, dv if okd else "<none>"))
    need(n >= 40, "C04.DOCDEFAULT", "only %d documented numeric defaults parsed" % n)


FIRST_LAYER = "pattern.three_layer_FPR.compute_first_layer_PR"


def rule_prnorm(ctx):
    R = "C04.PRNORM"
    n = 0
    for f in ctx.program.all_funcs():
        if f.module.name in SCOPE_SKIP or f.qual in ("util.f_measure",):
            continue
        s = ctx.S.get(f.qual)
        for c in s.calls():
            if c.callee != "util.f_measure" or len(c.args) < 2:
                continue
            P, Rc = c.args[0], c.args[1]
            if P is Rc and is_lit(P):
                continue  # util.f_measure(0, 0) on a degenerate exit: one literal for both sides has no orientation
            moved = [h for h in s.inlined if ctx.program.resigned(h)]
            if moved and f.qual.startswith("hierarchy."):
                raise AnalysisError(R, "%s: precision and recall are computed by %s evaluated in place (its signature changed); which of the two is the reference-normalised one is not read in this form" % (f.qual, moved[0]))
            verdict = None
            why = ""
            pa = [x for x in resolve_ite_free(P) if not is_lit(x)]
            ra = [x for x in resolve_ite_free(Rc) if not is_lit(x)]
            p0, r0 = (pa[0] if len(pa) == 1 else P), (ra[0] if len(ra) == 1 else Rc)
            if p0.op == "bin" and p0.a[0] == "/" and r0.op == "bin" and r0.a[0] == "/":
                rp, rr = _den_roles(p0.a[2], f), _den_roles(r0.a[2], f)
                if rp and rr:
                    verdict = rp == {"E"} and rr == {"R"}
                    why = "precision is normalised by a quantity of the %s, recall by one of the %s" % ("estimate" if rp == {"E"} else sorted(rp), "reference" if rr == {"R"} else sorted(rr))
            if verdict is None:
                ap, ar = c06._reduce_axis(p0, "np.mean", "np.max"), c06._reduce_axis(r0, "np.mean", "np.max")
                if ap is not None and ar is not None:
                    verdict = ap[1] == 0 and ar[1] == 1
                    why = "precision reduces the [ref, est] matrix along axis %d (per estimate), recall along axis %d (per reference)" % (ap[1], ar[1])
            if verdict is None and p0.op == "call" and r0.op == "call" and call_name(p0) == call_name(r0) and p0.a[0].op in ("func", "localfunc"):
                # twin calls: recall is the (ref, est) order
                a0, a1 = p0.a[1][0], r0.a[1][0]
                verdict = roles(a0) == {"E"} and roles(a1) == {"R"}
                why = "precision is the (estimate, reference) call and recall the (reference, estimate) call of %s" % call_name(p0)
            if verdict is None and p0.op == "sub" and r0.op == "sub" and p0.a[0] is r0.a[0]:
                # components of a (precision, recall) pair returned by a callee, in order
                verdict = tm.is_const(p0.a[1], 0) and tm.is_const(r0.a[1], 1)
                why = "precision, recall are components 0, 1 of one (precision, recall) pair"
            if verdict is None and f.qual == "segment.nce":
                continue  # over/under: C06.AXISMIRROR / C16.NCEFORM
            if verdict is None:
                raise AnalysisError(R, "%s: precision/recall shape not recognised at line %d" % (f.qual, c.lineno))
            n += 1
            yield ob(R, f, "%s:P-R-normalisation" % f.qual, verdict, why, node=c.node)
    need(n >= 12, R, "only %d precision/recall pairs found" % n)
    # reviewed exception: the first pattern layer divides the other way round; harmless only while its sole consumer is the symmetric F at beta = 1
    f = ctx.program.func(FIRST_LAYER, R)
    s = ctx.S.get(f.qual)
    t = s.returns[0].term
    inverted = t.op == "tuple" and len(t.a) == 2 and "ref_occs" in tm.params_of(t.a[0].a[2]) and "est_occs" in tm.params_of(t.a[1].a[2])
    consumer = ctx.S.get("pattern.three_layer_FPR.compute_layer")
    fm = [c for c in consumer.calls() if c.callee == "util.f_measure"]
    only_sym = len(fm) == 1 and len(fm[0].args) == 2 and not fm[0].kw
    others = [g.qual for g in ctx.program.all_funcs() if g.qual != consumer.func.qual for c in ctx.S.get(g.qual).calls() if c.callee == FIRST_LAYER]
    yield ob(R, f, "%s:reviewed-inversion" % FIRST_LAYER, (not inverted) or (only_sym and not others), "first-layer precision/recall are divided by the opposite sides (reviewed); both are consumed only by util.f_measure at beta = 1, which is symmetric" if inverted else "first-layer precision/recall follow the usual sides")


def _den_roles(den, f):
    cf = count_form(den)
    t = cf[1] if cf is not None else den
    r = roles(t)
    if r:
        return r
    names = set()
    for p in tm.params_of(t):
        if "est" in p or p in ("nQ",):
            names.add("E")
        if "ref" in p or p in ("nP",):
            names.add("R")
    return names


def rule_keytable(ctx):
    R = "C04.KEYTABLE"
    f = ctx.program.func("key.weighted_score", R)
    s = ctx.S.get(f.qual)
    rows = []
    if not all(is_lit(r.term) for r in s.returns):
        sem = _keytable_semantic(ctx, f, s, R)
        need(sem is not None, R, "weighted_score returns a computed value and its decision table cannot be evaluated")
        yield from sem
        yield from _keytable_names(ctx, R)
        return
    for r in s.returns:
        need(is_lit(r.term), R, "weighted_score returns a non-literal")
        conds = symeval.pc_conds(r.pc)
        last = conds[-1] if conds else None
        rows.append((lit(r.term), last))
    sem = _keytable_semantic(ctx, f, s, R)
    if sem is not None:
        yield from sem
        yield from _keytable_names(ctx, R)
        return
    # docstring grid
    grid = [float(x) for x in re.findall(r"\|\s*([0-9]\.[0-9]+)\s*\|", f.doc)]
    scores = sorted({v for v, _ in rows}, reverse=True)
    yield ob(R, f, "key.weighted_score:scores-vs-docstring", sorted(set(grid), reverse=True) == scores and len(grid) == 5, "returned scores %s equal the five scores of the docstring table %s" % (scores, grid))

    def interval_of(cond):
        # ((est - ref) % 12 == k)
        out = []
        for x in tm.walk(cond):
            if x.op == "cmp" and x.a[0] == "==":
                for u, v in ((x.a[1], x.a[2]), (x.a[2], x.a[1])):
                    if is_lit(u) and v.op == "bin" and v.a[0] == "%" and tm.is_const(v.a[2], 12):
                        d = v.a[1]
                        if d.op == "bin" and d.a[0] == "-" and _is_keynum(d.a[1], "E") and _is_keynum(d.a[2], "R"):
                            out.append(int(lit(u)))
        return out

    def modes_of(cond):
        txt = tm.show(cond, 8)
        return txt

    table_rows = {}
    for v, last in rows:
        if last is None:
            table_rows.setdefault("else", []).append(v)
            continue
        c, p = last
        iv = interval_of(c)
        txt = modes_of(c)
        table_rows.setdefault((v, tuple(iv)), []).append(txt)
    fifth = [(k, t) for k, t in table_rows.items() if k != "else" and k[1] == (7,)]
    rel = [(k, t) for k, t in table_rows.items() if k != "else" and k[1] in ((9,), (3,))]
    yield ob(R, f, "key.weighted_score:fifth", len(fifth) == 1 and fifth[0][0][0] == 0.5 and "'major'" not in fifth[0][1][0], "a perfect fifth above ((est - ref) mod 12 == 7) in the same mode scores 0.5")
    good_rel = {k[1][0] for k, _ in rel} == {9, 3} and all(k[0] == 0.3 for k, _ in rel)
    if good_rel:
        for k, t in rel:
            want = "'major'" if k[1][0] == 9 else "'minor'"
            good_rel = good_rel and want in t[0]
    yield ob(R, f, "key.weighted_score:relative", good_rel, "relative minor of a major reference (+9) and relative major of a minor reference (+3) score 0.3")
    par = [v for v, last in rows if last is not None and last[1] and not interval_of(last[0]) and v == 0.2]
    yield ob(R, f, "key.weighted_score:parallel", len(par) == 1, "same tonic in a different mode scores 0.2")
    yield ob(R, f, "key.weighted_score:other", rows[-1][0] == 0.0 and rows[-1][1] is not None and not rows[-1][1][1], "everything else scores 0.0 (final return)")
    # an X on either side that is not identical scores 0
    xrow = [v for v, last in rows if last is not None and last[1] and "None" in tm.show(last[0], 6) and v == 0.0]
    yield ob(R, f, "key.weighted_score:uncategorised", len(xrow) == 1, "an uncategorised (X) key on either side scores 0.0 unless both are X")
    # decision order: identical first, X second
    order = [v for v, _ in rows]
    yield ob(R, f, "key.weighted_score:order", order[:2] == [1.0, 0.0] and order == [1.0, 0.0, 0.5, 0.3, 0.3, 0.2, 0.0], "decisions are taken in the order same / X / fifth / relative / relative / parallel / other: %s" % order)
    KT = table(ctx, "key.KEY_TO_SEMITONE", R)
    nat = dict(zip("cdefgab", oracles.MAJOR_SCALE))
    bad = []
    for k, v in KT.items():
        if k == "x":
            if v is not None:
                bad.append(k)
            continue
        exp = (nat[k[0]] + k.count("#") - k[1:].count("b")) % 12
        if v != exp:
            bad.append(k)
    yield ob(R, "mir_eval/key.py:24", "key.KEY_TO_SEMITONE", not bad and len(KT) == 18, "all %d key names map to letter arithmetic mod 12 (bad: %s)" % (len(KT), bad))


def _key_oracle(rk, ek, rm, em):
    """MIREX key score as documented in key.weighted_score (None = uncategorised key 'X')."""
    if rk == ek and rm == em:
        return 1.0
    if rk is None or ek is None:
        return 0.0
    iv = (ek - rk) % 12
    if em == rm and iv == 7:
        return 0.5
    if em != rm and rm == "major" and iv == 9:
        return 0.3
    if em != rm and rm == "minor" and iv == 3:
        return 0.3
    if em != rm and rk == ek:
        return 0.2
    return 0.0


def key_decision_table(ctx):
    """key.weighted_score evaluated on its whole input domain: {(ref key, ref mode, est key, est mode): score}, or None
    when its terms are outside what the interpreter reads.  Key numbers and modes are touched only through ==,
    `is None`, (est - ref) % 12 and table look-ups, so the 37 x 37 pairs of {X} + {0..11} x {major, minor, other}
    determine the function."""
    if "key_table" in ctx.cache:
        return ctx.cache["key_table"]
    from .. import finmodel

    ctx.cache["key_table"] = None
    f = ctx.program.func("key.weighted_score")
    s = ctx.S.get(f.qual)
    parts = {}
    for r in s.returns:
        for x in list(tm.walk(r.term)) + [y for c, _ in symeval.pc_conds(r.pc) for y in tm.walk(c)]:
            if x.op == "sub" and x.a[1].op == "const" and x.a[0].op == "call" and call_name(x.a[0]) == "key.split_key_string" and x.a[0].a[1][0].op == "param":
                parts[(role_of(x.a[0].a[1][0].a[0]), int(x.a[1].a[0]))] = x
    if set(parts) != {("R", 0), ("R", 1), ("E", 0), ("E", 1)}:
        return None
    rows = [(r.term, list(symeval.pc_conds(r.pc))) for r in s.returns]
    I = finmodel.Interp(ctx)
    # split_key_string gives (None, None) for "X" and (0..11, mode) otherwise
    sides = [(None, None)] + [(k, m) for k in range(12) for m in ("major", "minor", "other")]
    out = {}
    for rk, rm in sides:
        for ek, em in sides:
            env = {parts[("R", 0)].id: rk, parts[("E", 0)].id: ek, parts[("R", 1)].id: rm, parts[("E", 1)].id: em}
            got = finmodel.decide(rows, env, I)
            if got is None or got[0] == I.RAISES:
                return None
            try:
                out[(rk, rm, ek, em)] = float(got[0])
            except Exception:
                return None
    ctx.cache["key_table"] = out
    return out


def _keytable_semantic(ctx, f, s, R):
    """Decide the whole decision list at once by comparing the evaluated table with the documented MIREX table."""
    tab = key_decision_table(ctx)
    if tab is None:
        return None
    bad = []
    for (rk, rm, ek, em), got in tab.items():
        want = _key_oracle(rk, ek, rm, em)
        if got != want:
            bad.append(((rk, rm), (ek, em), got, want))
    n = len(tab)
    out = []
    for name, pred, what in (
        ("fifth", lambda b: b[3] == 0.5 or b[2] == 0.5, "a perfect fifth above ((est - ref) mod 12 == 7) in the same mode scores 0.5"),
        ("relative", lambda b: b[3] == 0.3 or b[2] == 0.3, "relative minor of a major reference (+9) and relative major of a minor reference (+3) score 0.3"),
        ("parallel", lambda b: b[3] == 0.2 or b[2] == 0.2, "same tonic in a different mode scores 0.2"),
        ("uncategorised", lambda b: (b[0][0] is None or b[1][0] is None), "an uncategorised (X) key on either side scores 0.0 unless both are X"),
        ("other", lambda b: True, "everything else scores 0.0"),
    ):
        mine = [b for b in bad if pred(b)]
        bad = [b for b in bad if b not in mine]
        w = mine[0] if mine else None
        out.append(ob(R, f, "key.weighted_score:%s" % name, not mine, what if not mine else "%s - but weighted_score(ref=%s, est=%s) evaluates to %s, documented %s (%d disagreeing inputs)" % (what, w[0], w[1], w[2], w[3], len(mine))))
    out.append(ob(R, f, "key.weighted_score:decision-table", True, "the returned score was evaluated on all %d pairs of {X} + {0..11} x {major, minor, other} and compared with the documented table" % n))
    grid = [float(x) for x in re.findall(r"\|\s*([0-9]\.[0-9]+)\s*\|", f.doc)]
    scores = sorted(set(tab.values()), reverse=True)
    out.append(ob(R, f, "key.weighted_score:scores-vs-docstring", sorted(set(grid), reverse=True) == scores and len(grid) == 5, "returned scores %s equal the five scores of the docstring table %s" % (scores, grid)))
    return out


def _keytable_names(ctx, R):
    KT = table(ctx, "key.KEY_TO_SEMITONE", R)
    nat = dict(zip("cdefgab", oracles.MAJOR_SCALE))
    bad = []
    for k, v in KT.items():
        if k == "x":
            if v is not None:
                bad.append(k)
            continue
        exp = (nat[k[0]] + k.count("#") - k[1:].count("b")) % 12
        if v != exp:
            bad.append(k)
    yield ob(R, "mir_eval/key.py:24", "key.KEY_TO_SEMITONE", not bad and len(KT) == 18, "all %d key names map to letter arithmetic mod 12 (bad: %s)" % (len(KT), bad))


def _is_keynum(t, role):
    return t.op == "sub" and tm.is_const(t.a[1], 0) and t.a[0].op == "call" and call_name(t.a[0]) == "key.split_key_string" and t.a[0].a[1][0].op == "param" and role_of(t.a[0].a[1][0].a[0]) == role


def rule_rounding(ctx):
    R = "C04.ROUNDING"
    nd = table(ctx, "transcription.N_DECIMALS", R)
    yield ob(R, "mir_eval/transcription.py:114", "transcription.N_DECIMALS", nd == 4, "N_DECIMALS is %r" % (nd,))
    for q, kinds in (("transcription.match_note_onsets", {"onset": 0}), ("transcription.match_note_offsets", {"offset": 1}), ("transcription.match_notes", {"onset": 0, "offset": 1, "pitch": None})):
        f = ctx.program.func(q, R)
        s = ctx.S.get(q)
        wh = [c for c in s.calls() if c.callee == "np.where"]
        need(len(wh) == 1, R, "%s: hit matrix not found" % q)
        seen = set()
        for x in tm.walk(wh[0].args[0]):
            if x.op == "cmp" and x.a[0] in ("<", "<="):
                d = x.a[1]
                cols = {int(z.a[1].a[1].a[0]) for z in tm.walk(d) if z.op == "sub" and z.a[1].op == "tuple" and len(z.a[1].a) == 2 and z.a[1].a[1].op == "const" and z.a[0].op == "param" and "intervals" in z.a[0].a[0]}
                is_pitch = any(z.op == "param" and "pitches" in z.a[0] for z in tm.walk(d))
                rounded = d.op == "call" and call_name(d) == "np.round" and (any(n == "decimals" and v.op == "glob" and v.a[0] == "transcription.N_DECIMALS" for n, v in d.a[2]) or (len(d.a[1]) == 2 and d.a[1][1].op == "glob" and d.a[1][1].a[0] == "transcription.N_DECIMALS"))
                for kind, col in kinds.items():
                    if kind == "pitch" and is_pitch and "pitch" not in seen:
                        seen.add("pitch")
                        yield ob(R, f, "%s:pitch-unrounded" % q, not rounded, "pitch distance (cents) is compared without rounding, as documented")
                    elif col is not None and cols == {col} and kind not in seen and not is_pitch:
                        seen.add(kind)
                        yield ob(R, f, "%s:%s-rounded" % (q, kind), rounded, "%s distance passes through np.around(., decimals=N_DECIMALS) before the comparison" % kind)
        need(seen == set(kinds), R, "%s: distance terms %s not all found (%s)" % (q, sorted(kinds), sorted(seen)))


def rule_cmpkind(ctx):
    R = "C04.CMPKIND"
    # documented: distance(ref[i], est[j]) <= window ; |ref[i] - est[j]| <= window
    f = ctx.program.func("util.match_events", R)
    doc_le = "<= window" in f.doc
    s = ctx.S.get(f.qual)
    wh = [c for c in s.calls() if c.callee == "np.where" and c.args and c.args[0].op == "cmp"]
    good = doc_le and len(wh) == 1 and wh[0].args[0].a[0] == "<=" and wh[0].args[0].a[2].op == "param" and wh[0].args[0].a[2].a[0] == "window"
    yield ob(R, f, "util.match_events:documented-comparator", good, "docstring says `distance(ref[i], est[j]) <= window`; code compares with %s" % (wh[0].args[0].a[0] if wh else "?"))
    g = ctx.program.func("util._fast_hit_windows", R)
    yield ob(R, g, "util._fast_hit_windows:documented-comparator", "<= window" in g.doc, "docstring says `|ref[i] - est[j]| <= window` (the closed window is decided by C05.WINDOWSIDES)")
    for q in ("transcription.match_note_offsets", "transcription.match_note_onsets", "transcription.match_notes"):
        f = ctx.program.func(q, R)
        doc_ok = "``<=``" in f.doc and "strict=True" in f.doc and "``<``" in f.doc
        okd, dv = f.default_value("strict")
        yield ob(R, f, "%s:documented-strictness" % q, doc_ok and okd and dv is False, "docstring: `<=` by default, `<` when strict=True; strict defaults to %r (selection decided by C07.STRICTFLAG)" % (dv,))
    # melody: strictly less than the tolerance (half a semitone is a miss) - documented "within" ; frozen facet
    for q in ("melody.raw_pitch_accuracy", "melody.raw_chroma_accuracy", "melody.overall_accuracy"):
        f = ctx.program.func(q, R)
        s = ctx.S.get(q)
        cm = [x for r in s.returns for x in tm.walk(r.term) if x.op == "cmp" and x.a[2].op == "param" and x.a[2].a[0] == "cent_tolerance"]
        yield ob(R, f, "%s:comparator" % q, bool(cm) and all(x.a[0] == "<" for x in cm), "a frame is correct when the difference is strictly below cent_tolerance (mir_eval / MIREX convention)")
    f = ctx.program.func("alignment.percentage_correct", R)
    s = ctx.S.get(f.qual)
    cm = [x for r in s.returns for x in tm.walk(r.term) if x.op == "cmp" and x.a[2].op == "param" and x.a[2].a[0] == "window"]
    yield ob(R, f, "alignment.percentage_correct:comparator", bool(cm) and all(x.a[0] == "<=" for x in cm), "a timestamp is correct when its deviation is <= window")
    # offsets: max(ratio * duration, min_tolerance) as documented ("whichever is greater")
    for q in ("transcription.match_note_offsets", "transcription.match_notes"):
        f = ctx.program.func(q, R)
        s = ctx.S.get(q)
        mx = [c for c in s.calls() if c.callee in ("np.maximum", "np.minimum") and any("offset_ratio" in tm.params_of(a) for a in c.args)]
        good = len(mx) == 1 and mx[0].callee == "np.maximum" and any(a.op == "param" and a.a[0] == "offset_min_tolerance" for a in mx[0].args) and any(a.op == "bin" and a.a[0] == "*" and any(z.op == "call" and call_name(z) == "util.intervals_to_durations" and roles(z) == {"R"} for z in (a.a[1], a.a[2])) for a in mx[0].args)
        yield ob(R, f, "%s:offset-tolerance" % q, good, "offset tolerance is max(offset_ratio * reference duration, offset_min_tolerance) - 'whichever is greater'")


def rule_emptyvalue(ctx):
    """Special-value exits of four melody scores: an empty array or a reference without voiced (unvoiced) frames gives 0
    (with a warning), never another constant. Watch list of four functions, literal exits only; found by the special-value
    sweep after seed C16j-1. A score written without literal exits emits fewer obligations (floor 4)."""
    R = "C04.EMPTYVALUE"
    # voicing_recall is not on the list: a reference without voiced frames has recall 1 there (its exits are decided by C02)
    for q in ("melody.voicing_false_alarm", "melody.raw_pitch_accuracy", "melody.raw_chroma_accuracy", "melody.overall_accuracy"):
        f = ctx.program.func(q, R)
        s = ctx.S.get(q)
        k = 0
        for r in s.returns:
            if is_lit(r.term):
                k += 1
                yield ob(R, f, "%s:special-value-exit#%d" % (q, k), tm.is_const(r.term, 0), "the exit for an empty input / a reference without (un)voiced frames returns 0" if tm.is_const(r.term, 0) else "the special-value exit returns %s; an empty input or a reference without (un)voiced frames scores 0" % tm.show(r.term, 2), node=r.node)


def rule_tempoform(ctx):
    R = "C04.TEMPOFORM"
    f = ctx.program.func("tempo.detection", R)
    s = ctx.S.get(f.qual)
    need(len(s.returns) == 1 and s.returns[0].term.op == "tuple", R, "tempo.detection: 3-tuple expected")
    p = s.returns[0].term.a[0]
    lf = linear_form(p)
    w = tm.param("reference_weight")
    good = False
    if len(lf) == 1:
        # smart constructors keep products nested; check the two summands directly
        pass
    hits = None
    terms = []

    def summands(t):
        if t.op == "bin" and t.a[0] == "+":
            summands(t.a[1])
            summands(t.a[2])
        else:
            terms.append(t)

    summands(p)
    if len(terms) == 2:
        a = [t for t in terms if t.op == "bin" and t.a[0] == "*" and any(z is w for z in (t.a[1], t.a[2]))]
        b = [t for t in terms if t.op == "bin" and t.a[0] == "*" and any(z.op == "bin" and z.a[0] == "-" and tm.is_const(z.a[1], 1) and z.a[2] is w for z in (t.a[1], t.a[2]))]
        if len(a) == 1 and len(b) == 1:
            ha = [z for z in (a[0].a[1], a[0].a[2]) if z is not w][0]
            hb = [z for z in (b[0].a[1], b[0].a[2]) if not (z.op == "bin" and z.a[0] == "-")][0]
            good = ha.op == "sub" and hb.op == "sub" and ha.a[0] is hb.a[0] and tm.is_const(ha.a[1], 0) and tm.is_const(hb.a[1], 1)
            hits = ha.a[0] if ha.op == "sub" else None
    indexed = None
    if not good and len(terms) == 2 and len(a) == 1 and len(b) == 1:
        # the two hit values written out per index: the same expression in reference_tempi[0] and reference_tempi[1]
        X = [z for z in tm.walk(ha) if z.op == "sub" and z.a[0].op == "param" and role_of(z.a[0].a[0]) == "R" and tm.is_const(z.a[1], 0)]
        if X:
            x0 = X[0]
            x1 = tm.sub(x0.a[0], tm.const(1))
            if tm.rebuild(ha, lambda z: x1 if z is x0 else None) is hb and not any(z is x1 for z in tm.walk(ha)):
                good = True
                el = tm.mk("iter", x0.a[0], "TEMPO")
                indexed = tm.rebuild(ha, lambda z: el if z is x0 else None)
    yield ob(R, f, "tempo.detection:p-score", good, "P-score = reference_weight * hits[0] + (1 - reference_weight) * hits[1]")
    hit_ok = False

    def hit_cmp(c):
        # min(|ref_t - est| / ref_t) <= tol with ref_t the loop element over the reference tempi
        if not (c.op == "cmp" and c.a[0] == "<=" and c.a[2].op == "param" and c.a[2].a[0] == "tol"):
            return False
        d = c.a[1]
        if d.op == "call" and call_name(d) == "np.min" and d.a[1][0].op == "bin" and d.a[1][0].a[0] == "/":
            num, den = d.a[1][0].a[1], d.a[1][0].a[2]
            return den.op == "iter" and den.a[0].op == "param" and role_of(den.a[0].a[0]) == "R" and num.op == "call" and call_name(num) == "np.abs" and num.a[1][0].op == "bin" and num.a[1][0].a[0] == "-" and num.a[1][0].a[1] is den and num.a[1][0].a[2].op == "param" and role_of(num.a[1][0].a[2].a[0]) == "E"
        return False

    _plain_hit_cmp = hit_cmp

    def hit_cmp(c):  # noqa: F811
        # `ref_t > 0 and <cmp>`: the conditional written as a conjunction (False for a zero reference tempo)
        if c.op == "bool" and c.a[0] == "and" and len(c.a) == 3:
            ops = list(c.a[1:])
            pos = [z for z in ops if z.op == "cmp" and z.a[0] == "<" and tm.is_const(z.a[1], 0) and z.a[2].op == "iter" and z.a[2].a[0].op == "param" and role_of(z.a[2].a[0].a[0]) == "R"]
            rest = [z for z in ops if z not in pos]
            return len(pos) == 1 and len(rest) == 1 and _plain_hit_cmp(rest[0])
        return _plain_hit_cmp(c)

    if hits is not None:
        # loop form: hits[i] = <cmp> for i, ref_t in enumerate(reference_tempi); comprehension form: one element per ref_t
        for x in tm.walk(hits):
            if x.op == "upd" and x.a[1] == "setitem" and x.a[2].op == "idx" and hit_cmp(x.a[3]):
                hit_ok = True
        if hits.op == "comp" and hits.a[0] == "list" and len(hits.a[2]) == 1 and hits.a[2][0].op == "param" and role_of(hits.a[2][0].a[0]) == "R" and not hits.a[3]:
            alts = [a for a in resolve_ite_free(hits.a[1]) if not tm.is_const(a, False)]
            hit_ok = hit_ok or (len(alts) == 1 and hit_cmp(alts[0]))
    if indexed is not None:
        alts = [a_ for a_ in resolve_ite_free(indexed) if not tm.is_const(a_, False)]
        hit_ok = len(alts) == 1 and hit_cmp(alts[0])
    yield ob(R, f, "tempo.detection:hit", hit_ok, "hits[i] = min over both estimates of |ref_i - est| / ref_i <= tol, for the i-th reference tempo")


def rule_contthresh(ctx):
    """continuity: phase errors are compared with the phase threshold and period errors with the period threshold, in every branch."""
    R = "C04.CONTTHRESH"
    f = ctx.program.func("beat.continuity", R)
    s = ctx.S.get(f.qual)
    per = tm.param("continuity_period_threshold")
    pha = tm.param("continuity_phase_threshold")
    cm = [x for x in s.by_kind("cmp") if x.term.op == "cmp" and x.term.a[0] == "<" and x.term.a[2] in (per, pha)]
    need(len(cm) >= 2, R, "continuity: threshold comparisons not found")

    def kind(t):
        """'period' for |1 - a/b| (or its 0/inf special cases), 'phase' for |a/b| (or 1/inf)."""
        ks = set()
        for x in resolve_ite_free(t):
            if x.op == "call" and call_name(x) == "np.abs" and x.a[1][0].op == "bin":
                inner = x.a[1][0]
                if inner.a[0] == "-" and tm.is_const(inner.a[1], 1) and inner.a[2].op == "bin" and inner.a[2].a[0] == "/":
                    ks.add("period")
                elif inner.a[0] == "/":
                    ks.add("phase")
                else:
                    ks.add("?")
            elif is_lit(x) or (x.op == "ext" and x.a[0] == "np.inf"):
                continue
            else:
                ks.add("?")
        return ks

    n = {"period": 0, "phase": 0}
    for i, x in enumerate(cm):
        want = "period" if x.term.a[2] is per else "phase"
        got = kind(x.term.a[1])
        n[want] += 1
        yield ob(R, f, "beat.continuity:%s-threshold@%d" % (want, n[want]), got == {want}, "a %s error (%s) is compared with continuity_%s_threshold" % ("/".join(sorted(got)) or "constant", tm.show(x.term.a[1], 2), want), node=x.node)
    # either each branch (first beat / later beats) has its own pair of tests, or one pair tests values that both
    # branches computed (the comparison's operand then has one alternative per branch)
    alts = min((len([y for y in resolve_ite_free(x.term.a[1]) if not (is_lit(y) or (y.op == "ext" and y.a[0] == "np.inf"))]) for x in cm), default=0)
    both = n["period"] == n["phase"] and (n["period"] >= 2 or (n["period"] == 1 and alts >= 2))
    yield ob(R, f, "beat.continuity:both-branches", both, "first-beat and later-beat branches each test phase and period (%d + %d comparisons, %d alternative(s) per operand)" % (n["phase"], n["period"], alts))


def rule_overallform(ctx):
    """overall_accuracy (Bittner & Bosch): facets of the two summands."""
    R = "C04.OVERALLFORM"
    f = ctx.program.func("melody.overall_accuracy", R)
    s = ctx.S.get(f.qual)
    main = [r for r in s.returns if not is_lit(r.term)]
    need(len(main) == 1, R, "overall_accuracy: formula return not found")
    t = main[0].term
    need(t.op == "bin" and t.a[0] == "/", R, "overall_accuracy is not a ratio")
    num, den = t.a[1], t.a[2]
    cfd = count_form(den)
    yield ob(R, f, "melody.overall_accuracy:per-frame", cfd is not None and cfd[0] in ("len", "size") and cfd[1].op == "param" and cfd[1].a[0] in ("ref_voicing", "est_voicing", "ref_cent", "est_cent"), "normalised by the number of frames")
    terms = []

    def summands(x):
        if x.op == "bin" and x.a[0] == "+":
            summands(x.a[1])
            summands(x.a[2])
        else:
            terms.append(x)

    summands(num)
    rb = None
    unv = [x for x in terms if x.op == "call" and call_name(x) == "np.sum" and x.a[1][0].op == "bin" and x.a[1][0].a[0] == "*" and all(z.op == "bin" and z.a[0] == "-" and tm.is_const(z.a[1], 1) for z in (x.a[1][0].a[1], x.a[1][0].a[2]))]
    good = len(unv) == 1
    if good:
        parts = [z.a[2] for z in (unv[0].a[1][0].a[1], unv[0].a[1][0].a[2])]
        bins = [z for z in parts if z.op == "call" and call_name(z) == "astype" and z.a[1][0].op == "cmp" and z.a[1][0].a[0] == "<" and tm.is_const(z.a[1][0].a[1], 0) and z.a[1][0].a[2].op == "param" and z.a[1][0].a[2].a[0] == "ref_voicing"]
        ev = [z for z in parts if z.op == "param" and z.a[0] == "est_voicing"]
        good = len(bins) == 1 and len(ev) == 1
        rb = bins[0] if bins else None
    yield ob(R, f, "melody.overall_accuracy:unvoiced-term", good, "unvoiced agreement is sum((1 - [ref_voicing > 0]) * (1 - est_voicing)): the *binary* reference indicator")
    voiced = [x for x in terms if x not in unv]
    good = len(voiced) == 1 and voiced[0].op == "bin" and voiced[0].a[0] == "*"
    if good:
        facs = []

        def prod(x):
            if x.op == "bin" and x.a[0] == "*":
                prod(x.a[1])
                prod(x.a[2])
            else:
                facs.append(x)

        prod(voiced[0])
        sm = [z for z in facs if z.op == "call" and call_name(z) == "np.sum"]
        ratio = [z for z in facs if z not in sm]
        good = len(sm) == 1 and len(ratio) == 1
        if good:
            inner = []

            def prod2(x):
                if x.op == "bin" and x.a[0] == "*":
                    prod2(x.a[1])
                    prod2(x.a[2])
                else:
                    inner.append(x)

            prod2(sm[0].a[1][0])
            names = sorted("cmp" if z.op == "cmp" else (z.a[0].a[0] if z.op == "sub" and z.a[0].op == "param" else "?") for z in inner)
            good = names == ["cmp", "est_voicing", "ref_voicing"]
            r = [z for z in resolve_ite_free(ratio[0]) if not is_lit(z)]
            good = good and len(r) == 1 and r[0].op == "bin" and r[0].a[0] == "/" and r[0].a[1].op == "call" and call_name(r[0].a[1]) == "np.sum" and (rb is None or r[0].a[1].a[1][0] is rb) and r[0].a[2].op == "call" and call_name(r[0].a[2]) == "np.sum" and r[0].a[2].a[1][0].op == "param" and r[0].a[2].a[1][0].a[0] == "ref_voicing"
    yield ob(R, f, "melody.overall_accuracy:voiced-term", good, "voiced agreement is (sum(binary ref) / sum(ref_voicing)) * sum(ref_voicing * est_voicing * correct) over frames where both pitches are present")


def rule_matchdef(ctx):
    """Shared with C05: hits are the size of a matching over exactly the pairs inside the stated tolerance."""
    from . import c05

    for o in c05.rule_windowsides(ctx):
        o.rule = "C04.MATCHDEF"
        yield o
    for o in c05.rule_edgepred(ctx):
        o.rule = "C04.MATCHDEF"
        yield o


def rule_shared(ctx):
    for o in c01.rule_fform(ctx):
        o.rule = "C04.FFORM"
        yield o
    for o in c01.rule_weightedmean(ctx):
        o.rule = "C04.WEIGHTEDMEAN"
        yield o


# ------------------------------------------ PCSFORM / VELNORM / FIRSTN / CHROMAWINDOW


def _args2(t, name):
    if t.op == "call" and call_name(t) == name and len(t.a[1]) == 2:
        return list(t.a[1])
    return None


def rule_pcsform(ctx):
    """alignment PCS = sum_i max(min(ref_end_i, est_end_i) - max(ref_start_i, est_start_i), 0) / duration:
    the clamp is applied per segment, before the sum (a disjoint pair contributes 0, not a negative length)."""
    R = "C04.PCSFORM"
    f = ctx.program.func("alignment.percentage_correct_segments", R)
    s = ctx.S.get(f.qual)
    main = [r for r in s.returns if not is_lit(r.term)]
    need(len(main) == 1, R, "percentage_correct_segments: formula return not found")
    t = main[0].term
    good = False
    why = "PCS is not sum(max(min(ends) - max(starts), 0)) / duration: %s" % tm.show(t, 5)
    if t.op == "bin" and t.a[0] == "/" and t.a[1].op == "call" and call_name(t.a[1]) == "np.sum" and len(t.a[1].a[1]) == 1:
        cl = _args2(t.a[1].a[1][0], "np.maximum")
        if cl is not None:
            inner = [x for x in cl if not tm.is_const(x, 0)]
            zero = [x for x in cl if tm.is_const(x, 0)]
            if len(inner) == 1 and len(zero) == 1 and inner[0].op == "bin" and inner[0].a[0] == "-":
                ends = _args2(inner[0].a[1], "np.minimum")
                starts = _args2(inner[0].a[2], "np.maximum")
                if ends is not None and starts is not None:
                    re_ok = {frozenset(roles(x)) for x in ends} == {frozenset({"R"}), frozenset({"E"})}
                    rs_ok = {frozenset(roles(x)) for x in starts} == {frozenset({"R"}), frozenset({"E"})}
                    good = re_ok and rs_ok
                    why = "PCS = sum(max(min(ref_ends, est_ends) - max(ref_starts, est_starts), 0)) / duration (clamp inside the sum)"
    yield ob(R, f, "alignment.percentage_correct_segments:formula", good, why, node=main[0].node)


def rule_velnorm(ctx):
    """transcription_velocity: reference velocities are rescaled to [0, 1] by the min/max over *all* reference
    velocities (floored range 1) before the regression - not over the matched subset."""
    R = "C04.VELNORM"
    f = ctx.program.func("transcription_velocity.match_notes", R)
    s = ctx.S.get(f.qual)
    divs = [d for d in s.by_kind("div") if d.d.get("op", "/") == "/" and "ref_velocities" in tm.params_of(d.den)]
    need(len(divs) >= 1, R, "match_notes: velocity rescaling division not found")
    rv = tm.param("ref_velocities")
    for i, d in enumerate(divs[:1]):
        num, den = d.num, strip_numeric(d.den)
        mins = [x for x in tm.walk(tm.binop("+", num, den)) if x.op == "call" and call_name(x) in ("np.min", "np.max", "builtins.min", "builtins.max") and "ref_velocities" in tm.params_of(x) and not (call_name(x).startswith("builtins.") and len(x.a[1]) == 2)]
        whole = bool(mins) and all(len(x.a[1]) == 1 and x.a[1][0] is rv for x in mins)
        shape = num.op == "bin" and num.a[0] == "-" and num.a[1] is rv and den.op == "call" and call_name(den) in ("builtins.max", "np.maximum") and any(tm.is_const(z, 1) for z in den.a[1])
        yield ob(R, f, "transcription_velocity.match_notes:rescale", whole and shape, "(ref_velocities - min(ref_velocities)) / max(1, max(ref_velocities) - min(ref_velocities)), extrema over all reference notes" if whole and shape else "reference velocities are not rescaled by the extrema of the whole reference (%s / %s)" % (tm.show(num, 3), tm.show(den, 4)), node=d.node)


FIRSTN = [("pattern.first_n_three_layer_P", "pattern.three_layer_FPR"), ("pattern.first_n_target_proportion_R", "pattern.establishment_FPR")]


def rule_firstn(ctx, R="C04.FIRSTN"):
    """first-n scores evaluate the first n estimated patterns: estimated_patterns[:n] (or [:min(len, n)])."""
    for q, callee in FIRSTN:
        f = ctx.program.func(q, R)
        s = ctx.S.get(q)
        cs = [c for c in s.calls() if c.callee == callee]
        need(len(cs) == 1 and len(cs[0].args) >= 2, R, "%s: call of %s not found" % (q, callee))
        a = cs[0].args[1]
        good = False
        why = "second argument %s is not estimated_patterns[:n]" % tm.show(a, 4)
        if a.op == "sub" and a.a[0].op == "param" and a.a[0].a[0] == "estimated_patterns" and a.a[1].op == "slice":
            lo, hi, st = a.a[1].a
            lo_ok = tm.is_const(lo, None) or tm.is_const(lo, 0)
            st_ok = tm.is_const(st, None) or tm.is_const(st, 1)
            n = tm.param("n")
            hi_ok = hi is n
            if hi.op == "call" and call_name(hi) in ("builtins.min", "np.minimum") and len(hi.a[1]) == 2:
                xs = list(hi.a[1])
                cf = [count_form(x) for x in xs]
                hi_ok = any(x is n for x in xs) and any(c is not None and c[1] is a.a[0] for c in cf)
            good = lo_ok and st_ok and hi_ok
            why = "scores %s(reference_patterns, estimated_patterns[:n])" % callee if good else "slice bound %s is not n: fewer (or other) than the first n estimated patterns are scored" % tm.show(hi, 3)
        yield ob(R, f, "%s:first-n" % q, good, why, node=cs[0].node)
        ra = cs[0].args[0]
        yield ob(R, f, "%s:reference-whole" % q, ra.op == "param" and ra.a[0] == "reference_patterns", "all reference patterns are used")


def rule_chromawindow(ctx):
    """Shared with C07.CHROMATWIN: chroma and plain multipitch scores use the same caller-supplied window."""
    from . import c07

    for o in c07.rule_chromatwin(ctx):
        if o.construct.startswith("multipitch.metrics"):
            o.rule = "C04.CHROMAWINDOW"
            yield o


def _abs_dev(t):
    """np.abs(ref - est) or np.abs(est - ref) over the two timestamp parameters"""
    if t.op == "call" and call_name(t) == "np.abs" and len(t.a[1]) == 1:
        d = t.a[1][0]
        if d.op == "bin" and d.a[0] == "-" and d.a[1].op == "param" and d.a[2].op == "param":
            return {frozenset(roles(d.a[1])), frozenset(roles(d.a[2]))} == {frozenset({"R"}), frozenset({"E"})}
    return False


def rule_alignform(ctx):
    """alignment: mae / aae are the median / mean of |ref - est|; pc is the mean of |ref - est| <= window (closed);
    the perceptual score is the mean of the published skew-normal of (est - ref) with its four constants."""
    R = "C04.ALIGNFORM"
    f = ctx.program.func("alignment.absolute_error", R)
    s = ctx.S.get(f.qual)
    need(len(s.returns) == 1, R, "absolute_error: single return expected")
    t = s.returns[0].term
    good = t.op == "tuple" and len(t.a) == 2 and all(x.op == "call" and len(x.a[1]) == 1 and _abs_dev(x.a[1][0]) for x in t.a) and [call_name(x) for x in t.a] == ["np.median", "np.mean"] and t.a[0].a[1][0] is t.a[1].a[1][0]
    yield ob(R, f, "alignment.absolute_error:formula", good, "returns (median, mean) of |reference - estimate|" if good else "absolute_error returns %s" % tm.show(t, 4), node=s.returns[0].node)
    f = ctx.program.func("alignment.percentage_correct", R)
    s = ctx.S.get(f.qual)
    need(len(s.returns) == 1, R, "percentage_correct: single return expected")
    t = s.returns[0].term
    good = False
    if t.op == "call" and call_name(t) == "np.mean" and len(t.a[1]) == 1:
        c = t.a[1][0]
        good = c.op == "cmp" and c.a[0] == "<=" and _abs_dev(c.a[1]) and c.a[2].op == "param" and c.a[2].a[0] == "window"
    yield ob(R, f, "alignment.percentage_correct:formula", good, "returns mean(|reference - estimate| <= window)" if good else "percentage_correct returns %s" % tm.show(t, 4), node=s.returns[0].node)
    f = ctx.program.func("alignment.karaoke_perceptual_metric", R)
    s = ctx.S.get(f.qual)
    need(len(s.returns) == 1, R, "karaoke_perceptual_metric: single return expected")
    t = s.returns[0].term
    pdf = [x for x in tm.walk(t) if x.op == "call" and call_name(x) == "scipy.stats.skewnorm.pdf"]
    good = t.op == "call" and call_name(t) == "np.mean" and len(pdf) == 1
    consts = None
    if good:
        x = pdf[0]
        d = x.a[1][0]
        orient = d.op == "bin" and d.a[0] == "-" and roles(d.a[1]) == {"E"} and roles(d.a[2]) == {"R"}
        kw = dict(x.a[2])
        vals = [lit(x.a[1][1]) if len(x.a[1]) > 1 else None, lit(kw["loc"]) if "loc" in kw else None, lit(kw["scale"]) if "scale" in kw else None]
        consts = vals
        norm = [lit(z) for z in tm.walk(t) if z.op == "const" and isinstance(z.a[0], float) and abs(z.a[0] - 1.6857) < 1e-9]
        good = orient and vals == [1.12244251, -0.22270315, 0.29779424] and bool(norm)
    yield ob(R, f, "alignment.karaoke_perceptual_metric:formula", good, "mean of skewnorm.pdf(est - ref, 1.12244251, loc=-0.22270315, scale=0.29779424) / 1.6857" if good else "perceptual metric deviates from the published constants/orientation (%s)" % (consts,), node=s.returns[0].node)


def rule_cemgilform(ctx):
    """Cemgil: per reference beat the distance to the *nearest* estimate, a Gaussian exp(-d^2 / (2 sigma^2)) with the
    caller's sigma, one accumulator per metrical variation; returns (variation 0, max over variations)."""
    R = "C04.CEMGILFORM"
    f = ctx.program.func("beat.cemgil", R)
    s = ctx.S.get(f.qual)
    main = [r for r in s.returns if not (r.term.op == "tuple" and all(is_lit(x) for x in r.term.a))]
    need(len(main) == 1 and main[0].term.op == "tuple" and len(main[0].term.a) == 2, R, "cemgil: (score, max) return not found")
    first, best = main[0].term.a
    good = first.op == "sub" and tm.is_const(first.a[1], 0) and best.op == "call" and call_name(best) in ("np.max", "builtins.max") and best.a[1][0] is first.a[0]
    yield ob(R, f, "beat.cemgil:returns", good, "returns (accuracies[0], max(accuracies)) of one list" if good else "cemgil returns %s" % tm.show(main[0].term, 3), node=main[0].node)
    exps = [c for c in s.calls() if c.callee == "np.exp"]
    need(len(exps) >= 1, R, "cemgil: Gaussian term not found")
    e = exps[0].args[0]
    # the canonical (fused / inlined) form is in the returned term
    in_ret = [x for x in tm.walk(main[0].term) if x.op == "call" and call_name(x) == "np.exp" and x.a[1]]
    if in_ret:
        e = in_ret[0].a[1][0]
    ok = False
    why = "Gaussian argument is %s" % tm.show(e, 5)
    if e.op == "bin" and e.a[0] == "/":
        num, den = e.a[1], e.a[2]
        sq = num.a[1] if num.op == "un" and num.a[0] == "-" else None
        if sq is not None and sq.op == "bin" and sq.a[0] == "**" and tm.is_const(sq.a[2], 2):
            d = sq.a[1]
            nearest = d.op == "call" and call_name(d) == "np.min" and d.a[1][0].op == "call" and call_name(d.a[1][0]) == "np.abs"
            diff = d.a[1][0].a[1][0] if nearest else None
            sides = diff is not None and diff.op == "bin" and diff.a[0] == "-" and any(z.op == "param" and z.a[0] == "estimated_beats" for z in diff.a[1:]) and any(z.op == "iter" for z in diff.a[1:])
            sig = tm.param("cemgil_sigma")
            lf = den
            den_ok = den.op == "bin" and den.a[0] == "*" and any(tm.is_const(z, 2) for z in den.a[1:]) and any(z.op == "bin" and z.a[0] == "**" and z.a[1] is sig and tm.is_const(z.a[2], 2) for z in den.a[1:])
            ok = nearest and sides and den_ok
            why = "each reference beat contributes exp(-min|beat - estimated_beats|^2 / (2 * cemgil_sigma^2))"
    yield ob(R, f, "beat.cemgil:gaussian", ok, why, node=exps[0].node)
    # normaliser: the mean of the number of estimates and the number of beats of *this* metrical variation
    dens = []
    for x in tm.walk(main[0].term):
        if x.op == "bin" and x.a[0] == "/" and any(z.op == "call" and call_name(z) == "np.exp" for z in tm.walk(x.a[1])):
            dens.append(x.a[2])
    for d in s.by_kind("div"):
        if d.d.get("op", "/") == "/" and any(z.op == "call" and call_name(z) == "np.exp" for z in tm.walk(d.num)) or (d.num.op in ("loop", "loopvar") and d.num.a[1] in ("accuracy",)):
            dens.append(d.den)
    if dens:
        den = dens[0]
        lf = linear_form(den) or {}
        bases = []
        for k, (c, x) in lf.items():
            cf = count_form(x)
            if cf is not None and abs(c - 0.5) < 1e-12:
                bases.append(cf[1])
        own = [b_ for b_ in bases if b_.op in ("iter", "loopvar") or (b_.op == "call")]
        est = [b_ for b_ in bases if b_.op == "param" and b_.a[0] == "estimated_beats"]
        ref_orig = [b_ for b_ in bases if b_.op == "param" and b_.a[0] == "reference_beats"]
        goodn = len(bases) == 2 and len(est) == 1 and len(own) == 1 and not ref_orig
        yield ob(R, f, "beat.cemgil:normaliser", goodn, "each variation's sum is divided by 0.5 * (number of estimates + number of beats of that variation)" if goodn else "the normaliser %s is not 0.5 * (len(estimated_beats) + len(<this variation>)): %s" % (tm.show(den, 3), "it counts the original annotation for every metrical variation" if ref_orig else "unexpected counts"))


def rule_melodypipe(ctx):
    """Shared with C09.NONINTERF: both melody series go freq_to_voicing -> |f| -> hz2cents(|f|)."""
    from . import c09

    for o in c09.rule_noninterf(ctx):
        if o.construct.startswith("melody.to_cent_voicing") or o.construct.startswith("melody.hz2cents") or o.construct.startswith("melody.freq_to_voicing"):
            o.rule = "C04.MELODYPIPE"
            yield o


def rule_trimform(ctx, R="C04.TRIMFORM"):
    """segment.detection / deviation: `trim` drops the first and last *boundary* of each annotation
    (intervals_to_boundaries(intervals)[1:-1]), not the first and last interval."""
    for q in ("segment.detection", "segment.deviation"):
        f = ctx.program.func(q, R)
        s = ctx.S.get(q)
        n = 0
        seen = set()
        for st in s.sites:
            for v in st.d.values():
                terms = [v] if isinstance(v, tm.T) else ([z for z in v if isinstance(z, tm.T)] if isinstance(v, (list, tuple)) else [])
                for t0 in terms:
                    for x in tm.walk(t0):
                        if x.op == "call" and call_name(x) == "util.intervals_to_boundaries" and x.id not in seen:
                            seen.add(x.id)
        calls = [c for c in s.calls() if c.callee == "util.intervals_to_boundaries"]
        need(len(calls) >= 2, R, "%s: intervals_to_boundaries calls not found" % q)
        for c in calls:
            a = c.args[0]
            ok = a.op == "param" and "intervals" in a.a[0]
            n += 1
            yield ob(R, f, "%s:boundaries-of-whole-annotation@%d" % (q, n), ok, "boundaries are taken from the whole annotation %s" % tm.show(a, 2) if ok else "boundaries are taken from %s: intervals were removed before the conversion, which drops one boundary too many at each end" % tm.show(a, 3), node=c.node)
        # the trimmed form is B[1:-1] under `trim`
        trimmed = []
        for st in s.sites:
            t0 = st.d.get("term")
            if t0 is None:
                continue
            for x in tm.walk(t0):
                if x.op == "ite" and x.a[0].op == "param" and x.a[0].a[0] == "trim":
                    trimmed.append(x)
        trimmed = list({x.id: x for x in trimmed}.values())
        need(trimmed, R, "%s: trim alternative not found" % q)
        for k, x in enumerate(trimmed[:2]):
            a, b = x.a[1], x.a[2]
            ok = a.op == "sub" and a.a[0] is b and a.a[1].op == "slice" and tm.show(a.a[1], 2) == "1:-1:" and b.op == "call" and call_name(b) == "util.intervals_to_boundaries"
            yield ob(R, f, "%s:trim-slice@%d" % (q, k), ok, "with trim the boundaries are B[1:-1], otherwise B" if ok else "trim alternative is %s" % tm.show(x, 4))


def rule_contfresh(ctx):
    """beat.continuity: the `used annotation` and `success` buffers are allocated afresh for every metrical variation
    (inside the variation loop), so a match made while scoring one variation cannot block a beat in the next."""
    R = "C04.CONTFRESH"
    f = ctx.program.func("beat.continuity", R)
    s = ctx.S.get(f.qual)
    def over_variations(it):
        return any(x.op == "call" and call_name(x) == "beat._get_reference_beat_variations" for x in tm.walk(it))

    # the per-variation scope: a `for` loop over the variations, or a comprehension over them whose element calls a helper
    scopes = {x[1] for st in s.sites for x in st.pc if x[0] == "loop" and len(x) > 2 and hasattr(x[2], "op") and over_variations(x[2])}
    loops_ = [x for x in scopes if x in s.loops]
    if len(loops_) == 1:
        scopes = set(loops_)  # (a comprehension that merely measures the variations is not the scoring scope)
    need(len(scopes) == 1, R, "continuity: loop over the metrical variations not found")
    L = next(iter(scopes))
    def own_slot(k):
        """the loop's running index (enumerate) of loop L: one slot per variation"""
        return (k.op == "idx" and k.a[0] == L) or (k.op == "sub" and tm.is_const(k.a[1], 0) and k.a[0].op == "iter" and len(k.a[0].a) > 1 and k.a[0].a[1] == L and k.a[0].a[0].op == "call" and call_name(k.a[0].a[0]) == "builtins.enumerate")

    written = {}
    per_variation = {}
    for m in s.by_kind("mutate"):
        if m.how == "setitem" and m.root and any(x[0] == "loop" and x[1] == L for x in m.pc):
            written.setdefault(m.root, m)
            per_variation[m.root] = per_variation.get(m.root, True) and m.key is not None and own_slot(m.key)
    # result vectors filled at [v] (one entry per metrical variation) are not work buffers
    for nm in [n_ for n_, pv in per_variation.items() if pv]:
        written.pop(nm, None)
    need(len(written) >= 2, R, "continuity: work buffers not found")
    helpers = [ctx.program.func(h).node for h in sorted(set(s.inlined)) if ctx.program.has_func(h)]
    allocs = {}
    for owner in [f.node] + helpers:
        for node in ast.walk(owner):
            if isinstance(node, ast.Assign) and len(node.targets) == 1 and isinstance(node.targets[0], ast.Name) and isinstance(node.value, ast.Call) and ast.unparse(node.value.func) in ("np.zeros", "np.ones", "np.empty", "np.full"):
                allocs.setdefault(node.targets[0].id, []).append((node, owner))
    if L in s.loops:
        scope_nodes = [s.loops[L][0]]
    else:
        scope_nodes = [n for n in ast.walk(f.node) if isinstance(n, (ast.ListComp, ast.GeneratorExp, ast.SetComp, ast.DictComp)) and "_get_reference_beat_variations" in ast.unparse(n.generators[0].iter)]
    inside = {id(n) for sn in scope_nodes for n in ast.walk(sn)}
    for name, m in sorted(written.items()):
        if name not in allocs:
            continue
        # allocated in the body of the loop, or in a helper that is called once per variation
        ok = all(id(a) in inside or owner is not f.node for a, owner in allocs[name])
        yield ob(R, f, "beat.continuity:fresh-buffer:%s" % name, ok, "%s is allocated once per metrical variation" % name if ok else "%s is allocated once outside the loop over metrical variations and written inside it: marks left by one variation survive into the next" % name, node=allocs[name][0][0])


def rule_impulsetrain(ctx):
    """beat.p_score correlates two *indicator* trains: every beat sets its sample to 1, two beats in one sample still
    give 1 (np.bincount / np.add.at would count them, and the normalised correlation could exceed 1)."""
    R = "C04.IMPULSETRAIN"
    f = ctx.program.func("beat.p_score", R)
    s = ctx.S.get(f.qual)
    cor = [c for c in s.calls() if c.callee == "np.correlate"]
    if not cor:
        # the correlation of two 0/1 trains over a window of lags is the number of impulse pairs at most that far
        # apart - of *distinct* impulse positions: a pair count over the raw beat indices counts two beats that fall
        # into one 10 ms sample twice (and the normalised score can exceed 1)
        outer = [c for c in s.calls() if c.callee in ("np.subtract.outer",) and len(c.args) == 2]
        if len(outer) == 1:
            dedup = [a.op == "call" and call_name(a) == "np.unique" for a in outer[0].args]
            yield ob(R, f, "beat.p_score:indicator-trains", all(dedup), "impulse pairs are counted over the distinct sample positions of each sequence (np.unique): the indicator-train correlation" if all(dedup) else "impulse pairs are counted over the raw sample indices %s: beats sharing a sample are counted separately, where the indicator trains of the definition hold a single impulse" % " / ".join(tm.show(a, 2) for a, d_ in zip(outer[0].args, dedup) if not d_), node=outer[0].node)
            return
    need(len(cor) == 1 and len(cor[0].args) >= 2, R, "p_score: np.correlate call not found")
    mode = cor[0].args[2] if len(cor[0].args) > 2 else dict(cor[0].kw).get("mode")
    yield ob(R, f, "beat.p_score:correlate-mode", mode is not None and tm.is_const(mode, "full"), "the trains are correlated in mode 'full': the lag window is cut around the middle of the full correlation" if mode is not None and tm.is_const(mode, "full") else "np.correlate runs in mode %s: the middle-lag arithmetic below assumes the full correlation, and a window wider than the shorter output wraps to a negative slice start" % (tm.show(mode, 1) if mode is not None else "'valid' (the default)"), node=cor[0].node)
    # the correlation window is 0.2 * the median *reference* inter-beat interval (documented): the interval series must
    # be derived from the reference side alone
    med = [c for c in s.calls() if c.callee == "np.median" and c.args]
    def side_of(t):
        """roles of the beat sequences a term is computed from, not counting the common time offset min(est.min(),
        ref.min()) that both sequences are shifted by, nor the common length of the two trains"""
        out = set()
        stack = [t]
        seen_ = set()
        while stack:
            x = stack.pop()
            if x.id in seen_:
                continue
            seen_.add(x.id)
            if x.op == "call" and call_name(x) in ("builtins.min", "np.min", "builtins.max", "np.max", "np.zeros") and len(tm.params_of(x)) >= 2:
                continue
            if x.op == "param":
                r_ = role_of(x.a[0])
                if r_:
                    out.add(r_)
                continue
            stack.extend(tm.children(x))
        return out

    for j, c in enumerate(med):
        rs = side_of(c.args[0])
        yield ob(R, f, "beat.p_score:window-from-reference@%d" % j, rs == {"R"}, "the window is a fraction of the median inter-annotation interval of the reference" if rs == {"R"} else "the median interval that sizes the correlation window is computed from %s, not from the reference beats" % ("the estimate" if rs == {"E"} else "both sides" if rs else "neither side"), node=c.node)
    for i, a in enumerate(cor[0].args[:2]):
        if a.op == "call" and a.a[0].op in ("func", "localfunc") and ctx.program.has_func(call_name(a)):
            # the train is built by a helper that was not evaluated in place: read the helper's own result
            hs = ctx.S.get(call_name(a))
            hr = [r for r in hs.returns]
            need(len(hr) == 1, R, "p_score: the impulse-train helper %s has several returns" % call_name(a))
            a = hr[0].term
        o = a
        stores = []
        for _ in range(20):
            if o.op == "upd":
                stores.append(o)
                o = o.a[0]
            else:
                break
        if o.op == "sub" and o.a[1].op == "const" and o.a[0].op == "call" and call_name(o.a[0]) == "np.zeros":
            o = o.a[0]  # one row of a zero buffer that holds both trains
        good = o.op == "call" and call_name(o) in ("np.zeros",) and len(stores) == 1 and stores[0].a[1] == "setitem" and tm.is_const(stores[0].a[3], 1)
        yield ob(R, f, "beat.p_score:train@%d" % i, good, "impulse train %d is np.zeros(..) with train[beat samples] = 1" % i if good else "impulse train %d is %s: not a 0/1 indicator of the beat samples (coincident beats are counted, not marked)" % (i, tm.show(a, 3)), node=cor[0].node)


RULES = [
    ("C04.IMPULSETRAIN", 2, rule_impulsetrain),
    ("C04.FLOORDIV", 1, common.rule_floordiv("C04.FLOORDIV", ("beat.py", "melody.py", "util.py", "segment.py", "multipitch.py", "transcription.py", "alignment.py", "pattern.py", "tempo.py", "onset.py", "key.py", "transcription_velocity.py"))),
    ("C04.STRICTFLAG", 10, common.shared("c07", "rule_strictflag", "C04.STRICTFLAG")),
    ("C04.NESTEDCONJ", 4, common.shared("c07", "rule_nestedconj", "C04.NESTEDCONJ")),
    ("C04.ARIFORM", 1, common.shared("c16", "rule_ariform", "C04.ARIFORM")),
    ("C04.FORWARD", 1, common.shared("c05", "rule_subset", "C04.FORWARD", keep=lambda o: "transcription_velocity" in o.construct)),
    ("C04.BEATTRIM", 1, common.shared("c03", "rule_beattrim", "C04.BEATTRIM")),
    ("C04.DTYPEFLOW", 3, common.rule_dtypeflow("C04.DTYPEFLOW")),
    ("C04.DOCDEFAULT", 40, rule_docdefault),
    ("C04.PRNORM", 13, rule_prnorm),
    ("C04.KEYTABLE", 8, rule_keytable),
    ("C04.ROUNDING", 6, rule_rounding),
    ("C04.CMPKIND", 11, rule_cmpkind),
    ("C04.EMPTYVALUE", 4, rule_emptyvalue),
    ("C04.TEMPOFORM", 2, rule_tempoform),
    ("C04.FFORM", 6, rule_shared),
    ("C04.CONTTHRESH", 3, rule_contthresh),
    ("C04.OVERALLFORM", 3, rule_overallform),
    ("C04.MATCHDEF", 20, rule_matchdef),
    ("C04.PCSFORM", 1, rule_pcsform),
    ("C04.VELNORM", 1, rule_velnorm),
    ("C04.FIRSTN", 4, rule_firstn),
    ("C04.CHROMAWINDOW", 2, rule_chromawindow),
    ("C04.ALIGNFORM", 3, rule_alignform),
    ("C04.CEMGILFORM", 2, rule_cemgilform),
    ("C04.TRIMFORM", 8, rule_trimform),
    ("C04.CONTFRESH", 2, rule_contfresh),
    ("C04.MELODYPIPE", 1, rule_melodypipe),
]

from . import common as _common_purity
RULES = RULES + _common_purity.purity_rules("C04")
RULES = RULES + _common_purity.bundle_rules("C04")
