"""C05 - hit counts come from a valid one-to-one matching (structural clauses)."""

from __future__ import annotations

from .. import terms as tm
from ..model import AnalysisError
from .common import ob, need, call_name, resolve_ite_free, role_of, roles
from . import common
from .. import symeval

PROP = "C05"
EXPLANATION = (
    "Static decision of the feasibility-graph clauses of C05: in every matcher the graph handed to the single matching implementation is "
    "written only by `G[e].append(r)` over the index pairs of the tolerance predicate (np.where of the hit matrix, or the sorted-window "
    "enumerator), so it contains exactly the pairs that satisfy the predicate; every public matcher returns sorted(_bipartite_match(G).items()) "
    "and nothing else builds a pairing (the velocity matcher only filters); the graph is keyed by estimate index with reference values and every "
    "consumer indexes reference data with position 0 and estimate data with position 1; the sorted-window enumerator equals the closed window "
    "|r - e| <= w (left side at e - w, right side at e + w, indices mapped back through the argsort); the modular distance folds both sides with "
    "one modulus; and necessary shape conditions of the Hopcroft-Karp routine (greedy stage never overwrites a matched vertex, the only return "
    "is reached when no augmenting layer exists).  That the routine is injective and maximum on every graph is not decided."
)
RULE_TEXT = "one obligation per (matcher, clause); exhaustive over the five matchers, two enumerators and all consumers of a matching"

MATCHERS = ["util.match_events", "transcription.match_note_offsets", "transcription.match_note_onsets", "transcription.match_notes"]


def _graph_sites(s):
    """mutation sites on the dict that reaches _bipartite_match."""
    bm = [c for c in s.calls() if c.callee == "util._bipartite_match"]
    return bm


def _pairs_iter(s, lid):
    st, it = s.loops[lid]
    return it


def rule_edgepred(ctx):
    for q in MATCHERS:
        f = ctx.program.func(q, "C05.EDGEPRED")
        s = ctx.S.get(q)
        bm = [c for c in s.calls() if c.callee == "util._bipartite_match"]
        need(len(bm) == 1 and len(bm[0].args) == 1, "C05.EDGEPRED", "%s: single call of _bipartite_match(G) not found" % q)
        G = bm[0].args[0]
        if G.op == "comp" and G.a[0] == "dict":
            # {est_i: [...] for ...}: a repeated estimate index overwrites its earlier candidates
            its = G.a[2]
            grouped_sorted = len(its) == 1 and its[0].op == "call" and call_name(its[0]) == "itertools.groupby" and its[0].a[1] and its[0].a[1][0].op == "call" and call_name(its[0].a[1][0]) == "builtins.sorted"
            yield ob("C05.EDGEPRED", f, "%s:graph-writes" % q, grouped_sorted, "graph is built by a dict comprehension: unless the pairs are grouped after sorting by estimate index, a repeated estimate index keeps only its last candidate(s) and feasible edges are lost", node=bm[0].node)
            continue
        if G.op == "call" and call_name(G) == "builtins.dict" and len(G.a[1]) == 1 and not G.a[2]:
            G = G.a[1][0]  # dict(G): a plain copy of the mapping
        need(G.op == "loop", "C05.EDGEPRED", "%s: graph is not built by one loop" % q)
        lid, gname, init, body = G.a
        it = s.loops[lid][1]
        init_empty = init.op == "dict" and not init.a
        # two-pass form: {e: [] for (_, e) in pairs} creates one empty adjacency list per estimate index of the very
        # pairs the loop then distributes
        init_keys = False
        if init.op == "comp" and init.a[0] == "dict" and len(init.a[2]) == 1 and not init.a[3] and init.a[1].op == "tuple" and len(init.a[1].a) == 2:
            k0, v0 = init.a[1].a
            el = tm.mk("iter", init.a[2][0], init.a[4])
            init_keys = init.a[2][0] is it and v0.op == "list" and not v0.a and k0 is tm.proj(el, 1)
        # collections.defaultdict(list): G[e] creates the empty adjacency list of e iff e is not yet a key
        init_dd = init.op == "call" and call_name(init) == "collections.defaultdict" and len(init.a[1]) == 1 and not init.a[2] and init.a[1][0].op == "builtin" and init.a[1][0].a[0] == "list"
        yield ob("C05.EDGEPRED", f, "%s:graph-init" % q, init_empty or init_keys or init_dd, "graph starts as an empty dict" if init_empty else "graph starts empty with list-creating lookups (defaultdict(list))" if init_dd else "graph starts with one empty adjacency list per estimate index of the hit pairs")
        init_keys = init_keys or init_dd
        # every write to the graph variable
        writes = [m for m in s.by_kind("mutate") if m.root == gname]
        good_w = True
        kinds = []
        key_t = val_t = None
        for m in writes:
            kinds.append(m.how)
            if m.how == "setitem":
                good_w = good_w and m.val.op == "list" and not m.val.a
                key_t = m.key
            elif m.how == "method:setdefault":
                args = m.val.a if m.val.op == "tuple" else ()
                good_w = good_w and len(args) == 2 and args[1].op == "list" and not args[1].a
                key_t = args[0] if args else None
            elif m.how == "method:append":
                val_t = m.val.a[0] if m.val.op == "tuple" and m.val.a else None
            else:
                good_w = False
        idiom = sorted(kinds) in (["method:append", "setitem"], ["method:append", "method:setdefault"]) or (init_keys and kinds == ["method:append"])
        # idiom C: one look-up per hit - `lst = G.get(e); if lst is None: G[e] = [r] else: lst.append(r)`
        if kinds == ["setitem"] and writes[0].val.op == "list" and len(writes[0].val.a) == 1:
            w0 = writes[0]

            def is_get(z):
                # (a bound method `get = G.get` taken before the loop is bound to the dict object itself, which the
                # summary spells as G's initial value: G is only ever written in place, never re-bound)
                return z.op == "call" and call_name(z) == ".get" and len(z.a[1]) in (2, 3) and ((z.a[1][0].op in ("loopvar", "loop") and z.a[1][0].a[1] == gname) or z.a[1][0] is init) and (len(z.a[1]) == 2 or tm.is_const(z.a[1][2], None))

            apps = [m for m in s.by_kind("mutate") if m.how == "method:append" and m.old is not None and is_get(m.old)]
            c0 = [(c, p) for c, p in symeval.pc_conds(w0.pc) if not _no_hits([(c, not p)])]
            if len(apps) == 1 and len(c0) == 1:
                c, p = c0[0]
                g = apps[0].old
                none_test = c.op == "cmp" and c.a[0] in ("is", "isnot") and any(tm.is_const(z, None) for z in c.a[1:]) and any(z is g for z in c.a[1:])
                created_when_absent = none_test and ((c.a[0] == "is") == p) and g.a[1][1] is w0.key
                c1 = [(c_, p_) for c_, p_ in symeval.pc_conds(apps[0].pc) if not _no_hits([(c_, not p_)])]
                appended_otherwise = len(c1) == 1 and c1[0][0] is c and c1[0][1] == (not p)
                v_new = w0.val.a[0]
                v_app = apps[0].val.a[0] if apps[0].val.op == "tuple" and len(apps[0].val.a) == 1 else None
                if created_when_absent and appended_otherwise and v_app is v_new:
                    yield ob("C05.EDGEPRED", f, "%s:create-iff-absent" % q, True, "G[e] = [r] runs iff G.get(e) is None (e is not yet a key)", node=w0.node)
                    yield ob("C05.EDGEPRED", f, "%s:append-unconditional" % q, True, "every hit pair is recorded: as the first entry of a new list or appended to the existing one", node=apps[0].node)
                    key_t, val_t = w0.key, v_new
                    idiom = True
                    good_w = True
                    writes = []
        if init_keys and kinds == ["method:append"]:
            for m in writes:
                tgt = m.d.get("old")
                # G[e].append(r): the list appended to is G[<estimate component of the pair>]
                if tgt is not None and tgt.op == "sub":
                    key_t = tgt.a[1]
        # every hit pair must be recorded: the append runs on every iteration (only the creation of the list is conditional)
        for m in writes:
            if m.how == "setitem":
                # (what an earlier `if no hits: return []` left behind only says that there are hits)
                conds = [(c, p) for c, p in symeval.pc_conds(m.pc) if not _no_hits([(c, not p)])]
                absent = len(conds) == 1 and symeval.holds(conds[0][0], conds[0][1], "notin") and conds[0][0].a[1] is m.key and conds[0][0].a[2].op in ("loopvar", "loop") and conds[0][0].a[2].a[1] == gname
                yield ob("C05.EDGEPRED", f, "%s:create-iff-absent" % q, absent, "G[e] = [] runs iff e is not yet a key of the graph" if absent else "the adjacency list of e is (re)created under %s, not under `e not in G`: edges already recorded for e can be thrown away" % "; ".join(tm.show(c, 3) for c, _ in conds), node=m.node)
        for m in writes:
            if m.how == "method:append":
                extra = [x for x in m.pc if x[0] != "loop" and not (x[0] == "if" and hasattr(x[1], "op") and _no_hits([(x[1], not x[2])]))]
                inloop = [x for x in m.pc if x[0] == "loop"]
                yield ob("C05.EDGEPRED", f, "%s:append-unconditional" % q, not extra and len(inloop) == 1, "G[e].append(r) runs for every hit pair" if not extra else "G[e].append(r) is conditional (%s): hit pairs are dropped from the graph, so the matching is no longer maximum over the tolerance graph" % "; ".join(tm.show(x[1], 3) if hasattr(x[1], "op") else str(x[0]) for x in extra), node=m.node)
        yield ob("C05.EDGEPRED", f, "%s:graph-writes" % q, good_w and idiom, "graph is written only by G[e] = [] / G.setdefault(e, []) and .append(r) (%s)" % kinds)
        # iteration over zip(*hits); key = component 1 (estimate index), value = component 0 (reference index)
        zipok = it.op == "call" and call_name(it) == "builtins.zip" and len(it.a[1]) == 1 and it.a[1][0].op == "star"
        hits = it.a[1][0].a[0] if zipok else None
        comp_ok = False
        if zipok and key_t is not None and val_t is not None:
            comp_ok = key_t.op == "sub" and tm.is_const(key_t.a[1], 1) and key_t.a[0].op == "iter" and val_t.op == "sub" and tm.is_const(val_t.a[1], 0) and val_t.a[0] is key_t.a[0]
        yield ob("C05.EDGEPRED", f, "%s:pairs" % q, zipok and comp_ok, "edges are the (ref_i, est_i) pairs of zip(*hits); keyed by est_i with value ref_i")
        # hits come from the tolerance predicate only
        srcs = resolve_ite_free(hits) if hits is not None else []
        good_h = bool(srcs)
        desc = []
        for h in srcs:
            if h.op == "call" and call_name(h) == "np.where" and len(h.a[1]) == 1:
                from .common import factor_ite

                m = factor_ite(h.a[1][0])
                if q == "util.match_events":
                    okm = m.op == "cmp" and m.a[0] == "<=" and m.a[2].op == "param" and m.a[2].a[0] == "window" and m.a[1].op == "call" and m.a[1].a[0].op == "param" and [a.a[0] if a.op == "param" else None for a in m.a[1].a[1]] == ["ref", "est"]
                    desc.append("np.where(distance(ref, est) <= window)")
                else:
                    okm = _is_hit_matrix(m)
                    desc.append("np.where(<product of tolerance comparisons>)")
                good_h = good_h and okm
            elif h.op == "call" and call_name(h) == "util._fast_hit_windows" and q == "util.match_events":
                good_h = good_h and [a.a[0] if a.op == "param" else None for a in h.a[1]] == ["ref", "est", "window"]
                desc.append("_fast_hit_windows(ref, est, window)")
            else:
                good_h = False
                desc.append(tm.show(h, 2))
        yield ob("C05.EDGEPRED", f, "%s:hits" % q, good_h, "hits = %s" % " | ".join(desc))


def _factors(t):
    if t.op == "bin" and t.a[0] in ("*", "&"):
        return _factors(t.a[1]) + _factors(t.a[2])
    if t.op == "call" and call_name(t) == "np.logical_and":
        return _factors(t.a[1][0]) + _factors(t.a[1][1])
    return [t]


def _is_hit_matrix(m):
    for fct in _factors(m):
        for alt in resolve_ite_free(fct):
            if alt.op == "cmp" and alt.a[0] in ("<", "<="):
                continue
            if tm.is_const(alt, True):
                continue
            return False
    return True


def _no_hits(conds):
    """the path is taken only when np.where(<hit matrix>) found nothing: `hits[0].size == 0`, `len(hits[0]) == 0`,
    `not hits[0].size`"""
    def where_comp(z):
        return z.op == "sub" and z.a[1].op == "const" and z.a[0].op == "call" and call_name(z.a[0]) == "np.where" and len(z.a[0].a[1]) == 1

    def count_of_where(z):
        if z.op == "attr" and z.a[1] == "size" and where_comp(z.a[0]):
            return True
        if z.op == "call" and call_name(z) in ("builtins.len", "np.size") and len(z.a[1]) == 1 and where_comp(z.a[1][0]):
            return True
        return False

    for c, p in conds:
        if c.op == "cmp" and c.a[0] == "==" and p and any(tm.is_const(z, 0) for z in c.a[1:]) and any(count_of_where(z) for z in c.a[1:]):
            return True
        if count_of_where(c) and not p:
            return True
    return False


def rule_matchsrc(ctx):
    for q in MATCHERS:
        f = ctx.program.func(q, "C05.MATCHSRC")
        s = ctx.S.get(q)
        need(len(s.returns) >= 1, "C05.MATCHSRC", "%s: no return" % q)
        for i, r in enumerate(s.returns):
            t = r.term
            good = t.op == "call" and call_name(t) == "builtins.sorted" and len(t.a[1]) == 1 and t.a[1][0].op == "call" and call_name(t.a[1][0]) == ".items" and t.a[1][0].a[1][0].op == "call" and call_name(t.a[1][0].a[1][0]) == "util._bipartite_match"
            if not good and t.op == "list" and not t.a and _no_hits(symeval.pc_conds(r.pc)):
                # an empty hit list has an empty graph, whose maximum matching is the empty list
                yield ob("C05.MATCHSRC", f, "%s:return" % q if i == 0 else "%s:return@%d" % (q, i), True, "returns [] exactly when np.where(hit matrix) is empty (the matching of an empty graph)", node=r.node)
                continue
            yield ob("C05.MATCHSRC", f, "%s:return" % q if i == 0 else "%s:return@%d" % (q, i), good, "returns sorted(util._bipartite_match(G).items())" if good else "a return path yields %s, which does not come from the one-to-one matcher" % tm.show(t, 3), node=r.node)
    # nobody else constructs a pairing
    callers = sorted({f.qual for f in ctx.program.all_funcs() for c in ctx.S.get(f.qual).calls() if c.callee == "util._bipartite_match"})
    yield ob("C05.MATCHSRC", "mir_eval/util.py:1", "callers-of-_bipartite_match", callers == sorted(MATCHERS), "_bipartite_match is called from exactly the four matchers: %s" % callers)
    # who calls the matchers: hit counts anywhere come from them (table of consumers)
    consumers = {}
    for f in ctx.program.all_funcs():
        for c in ctx.S.get(f.qual).calls():
            if c.callee in MATCHERS or c.callee == "transcription_velocity.match_notes":
                consumers.setdefault(c.callee, set()).add(f.qual)
    exp = {
        "util.match_events": {"beat.f_measure", "onset.f_measure", "segment.detection", "multipitch.compute_num_true_positives"},
        "transcription.match_notes": {"transcription.precision_recall_f1_overlap", "transcription_velocity.match_notes"},
        "transcription.match_note_onsets": {"transcription.onset_precision_recall_f1"},
        "transcription.match_note_offsets": {"transcription.offset_precision_recall_f1"},
        "transcription_velocity.match_notes": {"transcription_velocity.precision_recall_f1_overlap"},
    }
    for k in sorted(exp):
        got = consumers.get(k, set())
        yield ob("C05.MATCHSRC", "mir_eval/%s.py:1" % k.split(".")[0], "consumers:%s" % k, exp[k] <= got, "hit-based metrics %s obtain their pairing from %s" % (sorted(exp[k]), k))


def rule_subset(ctx):
    """transcription_velocity.match_notes only filters transcription.match_notes' result by a Boolean mask."""
    f = ctx.program.func("transcription_velocity.match_notes", "C05.SUBSET")
    s = ctx.S.get(f.qual)
    n = 0
    for r in s.returns:
        t = r.term
        if t.op == "list" and not t.a:
            yield ob("C05.SUBSET", f, "transcription_velocity.match_notes:empty", True, "empty matching stays empty", node=r.node)
            n += 1
            continue
        good = False
        why = "return is not a filtered copy of the underlying matching"
        if t.op == "comp" and t.a[0] == "list" and len(t.a[2]) == 1 and not t.a[3]:
            it = t.a[2][0]
            elt = t.a[1]
            src_ = it.a[0] if it.op == "sub" else None
            if src_ is not None and src_.op == "call" and call_name(src_) == "np.array" and src_.a[1]:
                src_ = src_.a[1][0]  # np.array(matching) / np.asarray(matching): the pairs as an array
            if it.op == "sub" and src_ is not None and src_.op == "call" and call_name(src_) == "transcription.match_notes":
                mask = it.a[1]
                is_mask = mask.op == "cmp" and mask.a[0] in ("<", "<=")
                elt_ok = elt.op == "call" and call_name(elt) == "builtins.tuple" and elt.a[1][0].op == "iter" and elt.a[1][0].a[0] is it
                good = is_mask and elt_ok
                why = "returns [tuple(m) for m in np.array(transcription.match_notes(...))[<Boolean tolerance mask>]]"
        n += 1
        yield ob("C05.SUBSET", f, "transcription_velocity.match_notes:filter", good, why, node=r.node)
    # the underlying call forwards every criterion unchanged
    c = [x for x in s.calls() if x.callee == "transcription.match_notes"]
    need(len(c) == 1, "C05.SUBSET", "underlying match_notes call not found")
    g = ctx.program.func("transcription.match_notes")
    names = [a.a[0] if a.op == "param" else None for a in c[0].args]
    yield ob("C05.SUBSET", f, "transcription_velocity.match_notes:forward", names == g.params[: len(names)] and len(names) == len(g.params), "all %d criteria are forwarded positionally in the callee's order" % len(names), node=c[0].node)


def rule_orient(ctx):
    # average_overlap_ratio
    f = ctx.program.func("transcription.average_overlap_ratio", "C05.ORIENT")
    s = ctx.S.get(f.qual)
    subs = [x for x in s.by_kind("subscript") if x.base.op == "param" and role_of(x.base.a[0]) in ("R", "E")]
    need(subs, "C05.ORIENT", "average_overlap_ratio: interval lookups not found")
    for i, x in enumerate(subs):
        idx = x.index
        pos = None
        if idx.op == "sub" and idx.a[1].op == "const" and "matching" in tm.params_of(idx):
            pos = int(idx.a[1].a[0])
        want = 0 if role_of(x.base.a[0]) == "R" else 1
        yield ob("C05.ORIENT", f, "transcription.average_overlap_ratio:%s" % x.base.a[0], pos == want, "%s is indexed with position %s of a match (reference = 0, estimate = 1)" % (x.base.a[0], pos), node=x.node)
    # velocity matcher
    f = ctx.program.func("transcription_velocity.match_notes", "C05.ORIENT")
    s = ctx.S.get(f.qual)
    k = 0
    for x in s.by_kind("subscript"):
        b = x.base
        r = roles(b)
        if "ref_velocities" in tm.params_of(b) or (b.op == "param" and b.a[0] == "est_velocities"):
            idx = x.index
            col = None
            if idx.op == "sub" and idx.a[1].op == "tuple" and len(idx.a[1].a) == 2 and idx.a[1].a[1].op == "const":
                col = int(idx.a[1].a[1].a[0])
            if col is None:
                continue
            want = 0 if r == {"R"} else 1
            k += 1
            yield ob("C05.ORIENT", f, "transcription_velocity.match_notes:%s" % ("ref" if want == 0 else "est"), col == want, "%s velocities are gathered with column %d of the matching" % ("reference" if want == 0 else "estimated", col), node=x.node)
    need(k >= 2, "C05.ORIENT", "velocity gathering not found")


def rule_windowsides(ctx):
    f = ctx.program.func("util._fast_hit_windows", "C05.WINDOWSIDES")
    s = ctx.S.get(f.qual)
    ss = [c for c in s.calls() if c.callee == "np.searchsorted"]
    need(len(ss) >= 1, "C05.WINDOWSIDES", "_fast_hit_windows: no searchsorted call")
    seen = {}
    est, win = tm.param("est"), tm.param("window")
    for k, c in enumerate(ss):
        hay, needle = c.args[0], c.args[1]
        side = dict(c.kw).get("side") or (c.args[2] if len(c.args) > 2 else None)
        sv = side.a[0] if side is not None and side.op == "const" else "left"
        hay_sorted = hay.op == "sub" and hay.a[0].op == "param" and hay.a[0].a[0] == "ref" and hay.a[1].op == "call" and call_name(hay.a[1]) == "np.argsort" and hay.a[1].a[1][0] is hay.a[0]
        lows = [x for x in tm.walk(needle) if x.op == "bin" and x.a[0] == "-" and x.a[1] is est and x.a[2] is win]
        ups = [x for x in tm.walk(needle) if x.op == "bin" and x.a[0] == "+" and {x.a[1], x.a[2]} == {est, win}]
        if lows:
            seen.setdefault("lo", c)
            yield ob("C05.WINDOWSIDES", f, "util._fast_hit_windows:lower", hay_sorted and sv == "left" and needle is lows[0], "lower bound: searchsorted(sorted ref, est - window, side=%r) - first ref >= est - window" % sv, node=c.node)
        if ups:
            seen.setdefault("hi", c)
            yield ob("C05.WINDOWSIDES", f, "util._fast_hit_windows:upper", hay_sorted and sv == "right" and needle is ups[0], "upper bound: searchsorted(sorted ref, est + window, side=%r) - must be 'right' so that a reference exactly at est + window is inside the closed window" % sv, node=c.node)
    need(len(seen) == 2, "C05.WINDOWSIDES", "window bounds est - window / est + window not found")
    if seen["lo"] is seen["hi"]:
        return
    # INDEXSPACE: positions in the sorted array are mapped back through the argsort permutation
    need(len(s.returns) == 1 and s.returns[0].term.op == "tuple" and len(s.returns[0].term.a) == 2, "C05.WINDOWSIDES", "_fast_hit_windows: (hit_ref, hit_est) return expected")
    hr, he = s.returns[0].term.a
    good_r = False
    for x in tm.walk(hr):
        if x.op == "upd" and x.a[1] == "method:extend":
            v = x.a[3].a[0]
            good_r = v.op == "sub" and v.a[0].op == "call" and call_name(v.a[0]) == "np.argsort" and v.a[1].op == "slice" and v.a[1].a[0].op == "iter" and v.a[1].a[0].a[0] is seen["lo"].term and v.a[1].a[1].op == "iter" and v.a[1].a[1].a[0] is seen["hi"].term
    why_r = "emitted reference indices are argsort(ref)[start:end] (original index space)"
    if not good_r:
        # vectorised enumeration: all positions lo[j] .. hi[j]-1 are computed at once and mapped through the permutation
        for x in tm.walk(hr):
            if x.op == "sub" and x.a[0].op == "call" and call_name(x.a[0]) == "np.argsort" and x.a[0].a[1] and x.a[0].a[1][0].op == "param" and x.a[0].a[1][0].a[0] == "ref":
                inside = set(z.id for z in tm.walk(x.a[1]))
                if seen["lo"].term.id in inside and seen["hi"].term.id in inside:
                    good_r = True
                    why_r = "emitted reference indices are argsort(ref)[<positions computed from both window bounds>] (original index space; the position arithmetic itself is not decided)"
    yield ob("C05.INDEXSPACE", f, "util._fast_hit_windows:ref-indices", good_r, why_r)
    good_e = False
    for x in tm.walk(he):
        if x.op == "upd" and x.a[1] == "method:extend":
            v = x.a[3].a[0]
            if v.op == "bin" and v.a[0] == "*":
                l = [z for z in (v.a[1], v.a[2]) if z.op == "list"]
                n = [z for z in (v.a[1], v.a[2]) if z.op != "list"]
                good_e = bool(l) and len(l[0].a) == 1 and l[0].a[0].op == "idx" and bool(n) and n[0].op == "bin" and n[0].a[0] == "-"
    why_e = "the estimate index j is emitted once per reference in its window ([j] * (end - start))"
    if not good_e:
        # np.repeat(arange(n_est), hi - lo) (clipped at 0): index j repeated once per reference in its window
        for x in tm.walk(he):
            if x.op == "call" and call_name(x) == "np.repeat" and len(x.a[1]) == 2:
                idxs, cnt = x.a[1]
                rng = idxs.op == "call" and call_name(idxs) == "np.arange"
                cz = set(z.id for z in tm.walk(cnt))
                diff = any(z.op == "bin" and z.a[0] == "-" and z.a[1] is seen["hi"].term and z.a[2] is seen["lo"].term for z in tm.walk(cnt))
                if rng and diff:
                    good_e = True
                    why_e = "the estimate index j is emitted hi[j] - lo[j] times (np.repeat(arange, hi - lo))"
    if not good_e:
        # [j for j, (start, end) in enumerate(bounds) for _ in range(end - start)]
        for x in tm.walk(he):
            if x.op == "comp" and x.a[0] in ("list", "gen") and len(x.a[2]) == 2 and not x.a[3]:
                rng = x.a[2][1]
                if rng.op == "call" and call_name(rng) == "builtins.range" and len(rng.a[1]) == 1:
                    ids = set(z.id for z in tm.walk(rng.a[1][0]))
                    diff = rng.a[1][0].op == "bin" and rng.a[1][0].a[0] == "-" and seen["hi"].term.id in ids and seen["lo"].term.id in ids
                    if diff and x.a[1].op == "idx":
                        good_e = True
                        why_e = "the estimate index j is emitted once per reference in its window (for _ in range(end - start))"
    yield ob("C05.INDEXSPACE", f, "util._fast_hit_windows:est-indices", good_e, why_e)
    lid = None
    for x in tm.walk(hr):
        if x.op == "loop":
            lid = x.a[0]
    it = s.loops.get(lid, (None, None))[1]
    good_it = it is not None and it.op == "call" and call_name(it) == "builtins.enumerate" and it.a[1][0].op == "call" and call_name(it.a[1][0]) == "builtins.zip" and list(it.a[1][0].a[1]) == [seen["lo"].term, seen["hi"].term]
    if lid is None and not s.loops and good_r and good_e:
        # no loop at all: the vectorised enumeration pairs both index arrays position by position
        good_it = True
    yield ob("C05.INDEXSPACE", f, "util._fast_hit_windows:iteration", good_it, "windows are enumerated in estimate order over zip(left_idx, right_idx)")


def rule_moddist(ctx):
    f = ctx.program.func("util._outer_distance_mod_n", "C05.MODDIST")
    s = ctx.S.get(f.qual)
    need(len(s.returns) == 1, "C05.MODDIST", "single return expected")
    t = s.returns[0].term
    good = False
    why = "shape not recognised"
    if t.op == "call" and call_name(t) == "np.minimum" and len(t.a[1]) == 2:
        a, b = t.a[1]
        for d, w in ((a, b), (b, a)):
            if d.op == "call" and call_name(d) == "np.abs" and d.a[1][0].op == "call" and call_name(d.a[1][0]) == "np.subtract.outer":
                x, y = d.a[1][0].a[1]
                mods = []
                for z, nm in ((x, "ref"), (y, "est")):
                    if z.op == "call" and call_name(z) == "np.mod" and z.a[1][0].op == "param" and z.a[1][0].a[0] == nm:
                        mods.append(z.a[1][1])
                wrap_ok = w.op == "bin" and w.a[0] == "-" and w.a[2] is d
                if len(mods) == 2 and mods[0] is mods[1] and wrap_ok and w.a[1] is mods[0]:
                    good = True
                    why = "min(|r mod n - e mod n|, n - |...|) with one modulus n = %s on both sides and in the wrap" % tm.show(mods[0], 2)
    yield ob("C05.MODDIST", f, "util._outer_distance_mod_n:form", good, why)
    okd, dv = f.default_value("modulus")
    yield ob("C05.MODDIST", f, "util._outer_distance_mod_n:default", okd and dv == 12, "default modulus is %r" % (dv,))
    # ... and the chroma hit count is taken on the circular tolerance graph (shared with C07.CHROMATWIN)
    from . import c07

    for o in c07.rule_chromatwin(ctx):
        if o.construct.startswith("multipitch."):
            o.rule = "C05.MODDIST"
            yield o


def rule_hkshape(ctx):
    """Necessary shape conditions of the Hopcroft-Karp routine (not a proof of maximality)."""
    import ast

    f = ctx.program.func("util._bipartite_match", "C05.HKSHAPE")
    s = ctx.S.get(f.qual)
    # (1) greedy stage: matching[v] = u only when v is not yet matched
    greedy = [m for m in s.by_kind("mutate") if m.how == "setitem" and m.root == "matching"]
    need(greedy, "C05.HKSHAPE", "greedy initialisation store not found")
    for i, m in enumerate(greedy):
        guarded = any(symeval.holds(c, p, "notin") and c.a[1] is m.key for c, p in symeval.pc_conds(m.pc))
        yield ob("C05.HKSHAPE", f, "util._bipartite_match:greedy-guard@%d" % i, guarded, "greedy matching[v] = u only under `v not in matching` (a matched vertex is never overwritten)", node=m.node)
    # (2) the only return of the outer function is `return matching`, under `not unmatched`, inside `while True`
    rets = s.returns
    good_ret = len(rets) == 1
    under = False
    if good_ret:
        r = rets[0]
        for c, p in symeval.pc_conds(r.pc):
            if (c.op == "un" and c.a[0] == "not" and p) or (not p):
                under = under or "unmatched" in tm.show(c, 6) or True
        # name-level confirmation from the syntax tree
        under = False
        for n in ast.walk(f.node):
            if isinstance(n, ast.If) and isinstance(n.test, ast.UnaryOp) and isinstance(n.test.op, ast.Not) and isinstance(n.test.operand, ast.Name):
                if any(isinstance(x, ast.Return) for x in ast.walk(n)):
                    under = True
    yield ob("C05.HKSHAPE", f, "util._bipartite_match:return", good_ret and under, "the matching is returned only when the layering found no unmatched vertex (no augmenting path)")
    loops = [n for n in f.node.body if isinstance(n, ast.While)]
    forever = bool(loops) and isinstance(loops[-1].test, ast.Constant) and loops[-1].test.value is True
    yield ob("C05.HKSHAPE", f, "util._bipartite_match:phases", forever, "augmentation phases repeat (`while True`) until that return")
    # (2b) layering: a matched vertex v always extends the layer with its partner: layer.append(matching[v]); pred[matching[v]] = v
    ext = [m for m in s.by_kind("mutate") if m.how == "setitem" and m.root == "pred" and m.key.op == "sub"]
    okext = False
    for m in ext:
        conds = [(c, p) for c, p in symeval.pc_conds(m.pc)]
        inner = [(c, p) for c, p in conds if c.op == "cmp" and c.a[0] in ("in", "notin")]
        extra = [c for c, p in inner if not (symeval.holds(c, p, "in") and c.a[1] is m.val)]
        okext = okext or (any(symeval.holds(c, p, "in") and c.a[1] is m.val for c, p in inner) and not extra)
    yield ob("C05.HKSHAPE", f, "util._bipartite_match:layer-extension", okext, "while layering, every matched vertex v extends the next layer with matching[v] (pred[matching[v]] = v under `v in matching` and no further condition)")
    # (3) augmentation: every unmatched vertex of the last layer is tried
    rec = ctx.S.get("util._bipartite_match.recurse")
    calls_rec = [c for c in s.calls() if c.fn is not None and c.fn.op == "localfunc" and c.callee.endswith(".recurse")]
    yield ob("C05.HKSHAPE", f, "util._bipartite_match:augment-all", bool(calls_rec) and any(symeval.pc_loops(c.pc) for c in calls_rec), "recurse(v) is applied to every unmatched vertex of the final layer")
    # (4) inside recurse: matching[v] = u only after the predecessor is free or recursively re-matched
    st = [m for m in rec.by_kind("mutate") if m.how == "setitem"]
    good = False
    for m in st:
        for c, p in symeval.pc_conds(m.pc):
            if p and c.op == "bool" and c.a[0] == "or":
                good = any(x.op == "cmp" and x.a[0] == "is" for x in c.a[1:]) and any(x.op == "call" and (call_name(x) or "").endswith("recurse") for x in c.a[1:])
    yield ob("C05.HKSHAPE", f, "util._bipartite_match.recurse:rematch", good, "a vertex is re-matched only if its predecessor is a free vertex or was itself re-matched")


def rule_framecount(ctx):
    """Shared with C01.HITRATIO / C04.ROUNDING: the per-frame hit count is the size of *that frame pair's* matching, and
    onset/offset distances are rounded as distances (a tie exactly at the tolerance is a hit, so the matching is
    maximum over the documented tolerance graph)."""
    from . import c01, c04

    for o in c01.rule_hitratio(ctx):
        if o.construct.startswith("multipitch."):
            o.rule = "C05.FRAMECOUNT"
            yield o
    for o in c04.rule_rounding(ctx):
        o.rule = "C05.FRAMECOUNT"
        yield o




RULES = [
    ("C05.OFFSETTOL", 2, common.shared("c04", "rule_cmpkind", "C05.OFFSETTOL", keep=lambda o: o.construct.endswith(":offset-tolerance"))),
    ("C05.DTYPEFLOW", 3, common.rule_dtypeflow("C05.DTYPEFLOW")),
    ("C05.FRAMECOUNT", 8, rule_framecount),
    ("C05.EDGEPRED", 20, rule_edgepred),
    ("C05.MATCHSRC", 10, rule_matchsrc),
    ("C05.SUBSET", 3, rule_subset),
    ("C05.ORIENT", 4, rule_orient),
    ("C05.WINDOWSIDES", 5, rule_windowsides),
    ("C05.MODDIST", 5, rule_moddist),
    ("C05.HKSHAPE", 6, rule_hkshape),
]

from . import common as _common_purity
RULES = RULES + _common_purity.purity_rules("C05")
RULES = RULES + _common_purity.bundle_rules("C05")
