"""C06 - swapping reference and estimate exchanges precision and recall."""

from __future__ import annotations

from .. import terms as tm
from ..mirror import Mirror
from ..model import AnalysisError
from .common import ob, need, call_name, count_form, role_of, roles, swap_roles, resolve_ite_free, is_lit, lift_ite
from . import common
from .. import symeval

PROP = "C06"
EXPLANATION = (
    "Static decision by a sufficient syntactic condition: for each listed metric, the term of one result with every reference parameter "
    "exchanged for its estimate counterpart - normalised in a small transpose algebra for the repo's two-sided constructors (outer "
    "differences, contingency matrices, loop-filled [ref, est] score matrices) - is identical to the term of the partner result "
    "(precision<->recall, over<->under, ref-to-est<->est-to-ref) or to itself (symmetric scores).  PRMIRROR: ratio-style metrics share one "
    "numerator and divide by counts of the two sides handed to a matcher whose tolerance predicate is a role-free bound on |proj(ref) - proj(est)|; "
    "AXISMIRROR: reduce-style metrics reduce one [ref, est] matrix along opposite axes; TWINCALL: every role-swapped call has an exact "
    "mirror twin; SYMSCORE: Rand, ARI, MI, NMI, pairwise F, multipitch accuracy and F at beta=1 are swap-invariant.  AMI's expected-MI triple "
    "loop, the equal-frame-count precondition (axiom) and order-independence of matching size are not decided."
)
RULE_TEXT = "one obligation per (metric function, mirrored pair or symmetric score); a definite asymmetry is a violation"


def _fm_args(s, rule, qual):
    """(precision term, recall term) = the two positional arguments of the util.f_measure call."""
    c = [x for x in s.calls() if x.callee == "util.f_measure"]
    if len(c) > 1:
        # util.f_measure(0, 0) on a degenerate exit: one literal for both sides has no orientation
        c = [x for x in c if not (len(x.args) >= 2 and x.args[0] is x.args[1] and is_lit(x.args[0]))]
    need(len(c) == 1 and len(c[0].args) >= 2, rule, "%s: single util.f_measure(precision, recall) call not found" % qual)
    return c[0].args[0], c[0].args[1], c[0]


RATIO = [
    ("beat.f_measure", "util.match_events"),
    ("onset.f_measure", "util.match_events"),
    ("segment.detection", "util.match_events"),
    ("transcription.onset_precision_recall_f1", "transcription.match_note_onsets"),
    ("transcription.precision_recall_f1_overlap", "transcription.match_notes"),
]


def _sym_predicate(ctx, matcher):
    """Every comparison conjunct of the matcher's hit predicate (offset conjunct excluded) is
    cmp(|proj(ref) - proj(est)|-like distance, role-free tolerance) with mirror projections."""
    f = ctx.program.func(matcher)
    s = ctx.S.get(matcher)
    problems = []
    n = 0
    if matcher == "util.match_events":
        # closed window |r - e| <= w: both enumerators (checked in C05) - here: distance(ref, est) form and the sorted-window form take (ref, est, window)
        w = [c for c in s.calls() if c.callee == "util._fast_hit_windows"]
        if not w or [a.a[0] if a.op == "param" else None for a in w[0].args] != ["ref", "est", "window"]:
            problems.append("window enumerator not called with (ref, est, window)")
        return problems, 1
    wh = [c for c in s.calls() if c.callee == "np.where" and len(c.args) == 1]
    if len(wh) != 1:
        return ["hit matrix not found"], 0
    M = Mirror(f)

    def factors(t):
        if t.op == "bin" and t.a[0] in ("*", "&"):
            return factors(t.a[1]) + factors(t.a[2])
        return [t]

    from .common import factor_ite

    for fct in factors(factor_ite(wh[0].args[0])):
        for alt in resolve_ite_free(fct):
            if tm.is_const(alt, True):
                continue
            if not (alt.op == "cmp" and alt.a[0] in ("<", "<=")):
                problems.append("conjunct is not a tolerance comparison: %s" % tm.show(alt, 2))
                continue
            d, tol = alt.a[1], alt.a[2]
            if roles(tol):
                # reference-duration dependent offset tolerance: asymmetric by design, excluded by the property
                if "offset_ratio" in tm.params_of(tol):
                    continue
                problems.append("tolerance depends on one side: %s" % tm.show(tol, 3))
                continue
            n += 1
            sw = M.swap(d)
            if not (sw.op == "T" and sw.a[0] is M.norm(d)):
                problems.append("distance is not a symmetric function of mirror projections: %s" % tm.show(d, 3))
    return problems, n


def rule_prmirror(ctx):
    R = "C06.PRMIRROR"
    sym_cache = {}
    for qual, matcher in RATIO:
        f = ctx.program.func(qual, R)
        s = ctx.S.get(qual)
        P, Rc, fm = _fm_args(s, R, qual)
        good = False
        why = "precision/recall are not hit ratios"
        if P.op == "bin" and Rc.op == "bin" and P.a[0] == "/" and Rc.a[0] == "/":
            same_num = P.a[1] is Rc.a[1]
            dp, dr = count_form(P.a[2]), count_form(Rc.a[2])
            num = count_form(P.a[1])
            m = num[1] if num else None
            if same_num and dp and dr and m is not None and m.op == "call" and call_name(m) == matcher:
                rp, rr = roles(dp[1]), roles(dr[1])
                mirror = swap_roles(dp[1], f) is dr[1]
                handed = list(m.a[1])
                in_call = any(dp[1] is h for h in handed) and any(dr[1] is h for h in handed)
                # the matcher receives (reference side..., estimate side...) in its own parameter order
                g = ctx.program.func(matcher)
                order_ok = all(role_of(g.params[i]) in (None,) or roles(a) <= {role_of(g.params[i])} for i, a in enumerate(handed) if i < len(g.params))
                good = rp == {"E"} and rr == {"R"} and mirror and in_call and order_ok
                why = "P = |M|/len(%s), R = |M|/len(%s) over one matching M = %s(...); denominators are mirror images handed to that call" % (tm.show(dp[1], 2), tm.show(dr[1], 2), matcher)
                if not good:
                    why = "asymmetry: P denominator role %s, R denominator role %s, mirror=%s, handed-to-matcher=%s" % (sorted(rp), sorted(rr), mirror, in_call)
        yield ob(R, f, "%s:P<->R" % qual, good, why, node=fm.node)
        if matcher not in sym_cache:
            sym_cache[matcher] = _sym_predicate(ctx, matcher)
        probs, n = sym_cache[matcher]
        yield ob(R, ctx.program.func(matcher), "%s:symmetric-predicate" % matcher, not probs and n >= 1, ("the %d tolerance comparison(s) bound a symmetric distance of mirror projections by a role-free tolerance" % n) if not probs else "; ".join(probs))
    # multipitch: precision / recall / accuracy from (tp, n_ref, n_est)
    f = ctx.program.func("multipitch.compute_accuracy", R)
    s = ctx.S.get(f.qual)
    need(len(s.returns) == 1 and s.returns[0].term.op == "tuple" and len(s.returns[0].term.a) == 3, R, "compute_accuracy: (precision, recall, accuracy) expected")
    p, r, acc = s.returns[0].term.a
    M = Mirror(f, subst={})
    sw = {"n_ref": tm.param("n_est"), "n_est": tm.param("n_ref")}
    Ms = Mirror(f, subst=sw)
    yield ob(R, f, "multipitch.compute_accuracy:P<->R", Ms.norm(_value(p)) is M.norm(_value(r)), "precision with n_ref and n_est exchanged is recall")
    yield ob("C06.SYMSCORE", f, "multipitch.compute_accuracy:accuracy", Ms.norm(_value(acc)) is M.norm(_value(acc)), "accuracy is invariant under exchanging n_ref and n_est")


def _value(t):
    """Strip the zero-guard ite (guard terms are mirrored separately)."""
    alts = [x for x in resolve_ite_free(t) if not is_lit(x)]
    return alts[0] if len(alts) == 1 else t


def rule_axismirror(ctx):
    R = "C06.AXISMIRROR"
    # segment.deviation
    f = ctx.program.func("segment.deviation", R)
    s = ctx.S.get(f.qual)
    main = [r for r in s.returns if r.term.op == "tuple" and r.term.a[0].op == "call"]
    need(len(main) == 1, R, "segment.deviation: main return not found")
    a, b = main[0].term.a
    M = Mirror(f)
    yield ob(R, f, "segment.deviation:r2e<->e2r", M.swap(a) is M.norm(b) and M.swap(b) is M.norm(a), "reference-to-estimate deviation with roles exchanged is the estimate-to-reference deviation (same reduction of one |outer difference| along opposite axes)")
    # the [R, E] orientation: position 0 reduces over the estimate axis (axis=1)
    ax = None
    for x in tm.walk(a):
        if x.op == "call" and call_name(x) == "np.min":
            for n, v in x.a[2]:
                if n == "axis":
                    ax = v
    yield ob(R, f, "segment.deviation:orientation", ax is not None and tm.is_const(ax, 1), "position 0 (reference-to-estimated) takes, for each reference boundary, the min over estimates (axis=1 of the [ref, est] matrix)")
    # segment.nce
    f = ctx.program.func("segment.nce", R)
    s = ctx.S.get(f.qual)
    main = [r for r in s.returns if r.term.op == "tuple" and not all(is_lit(x) for x in r.term.a)]
    if len(main) > 1:
        # several computed exits (guard clauses): compare as a decision table over the truth values of the guards
        yield from _nce_decision_mirror(f, s, R)
        main = []
    need(len(main) == 1 and len(main[0].term.a) == 3 or not main, R, "segment.nce: main return not found")
    M = Mirror(f, equal_counts=True)
    if main:
      over, under, fm = main[0].term.a
      yield ob(R, f, "segment.nce:over<->under", M.swap(over) is M.norm(under) and M.swap(under) is M.norm(over), "over-segmentation score with roles exchanged is the under-segmentation score (conditional entropies along opposite axes of one contingency table, normalisers shape[1]/shape[0])")
    # pairwise
    f = ctx.program.func("segment.pairwise", R)
    s = ctx.S.get(f.qual)
    P, Rc, fmc = _fm_args(s, R, f.qual)
    M = Mirror(f, equal_counts=True)
    yield ob(R, f, "segment.pairwise:P<->R", M.swap(P) is M.norm(Rc), "pairwise precision with roles exchanged is pairwise recall")
    # pattern: loop-filled [ref, est] matrices reduced along opposite axes
    for qual in ("pattern.establishment_FPR", "pattern.three_layer_FPR", "pattern.three_layer_FPR.compute_second_layer_PR"):
        f = ctx.program.func(qual, R)
        s = ctx.S.get(qual)
        if qual.endswith("compute_second_layer_PR"):
            need(len(s.returns) == 1 and s.returns[0].term.op == "tuple", R, "%s: (precision, recall) expected" % qual)
            P, Rc = s.returns[0].term.a
        else:
            P, Rc, _ = _fm_args(s, R, qual)
        good, why = _axis_pair(P, Rc)
        yield ob(R, f, "%s:P<->R" % qual, good, why)
    # the matrices are filled [ref index, est index] with a symmetric cell
    for qual, cellfun in (("pattern.establishment_FPR", "pattern._compute_score_matrix"), ("pattern.occurrence_FPR", "pattern._compute_score_matrix"), ("pattern.three_layer_FPR.compute_layer", None)):
        f = ctx.program.func(qual, R)
        s = ctx.S.get(qual)
        st = [m for m in s.by_kind("mutate") if m.how == "setitem" and m.key.op == "tuple" and len(m.key.a) >= 2]
        need(st, R, "%s: matrix fill not found" % qual)
        for i, m in enumerate(st[:1]):
            ki, kj = m.key.a[0], m.key.a[1]
            loops = symeval.pc_loops(m.pc)
            good = False
            why = "fill not recognised"
            if len(loops) >= 2:
                it_i, it_j = s.loops[loops[0]][1], s.loops[loops[1]][1]
                ri = roles(it_i) or _name_roles(it_i)
                rj = roles(it_j) or _name_roles(it_j)
                idx_ok = (ki.op == "idx" and ki.a[0] == loops[0] or ki.op == "iter" and ki.a[1] == loops[0]) and (kj.op == "idx" and kj.a[0] == loops[1] or kj.op == "iter" and kj.a[1] == loops[1])
                good = ri == {"R"} and rj == {"E"} and idx_ok
                why = "matrix[i, j] is filled with i over the reference side and j over the estimate side"
            yield ob(R, f, "%s:fill-orientation" % qual, good, why, node=m.node)
    # cell symmetry of _compute_score_matrix
    f = ctx.program.func("pattern._compute_score_matrix", R)
    s = ctx.S.get(f.qual)
    st = [m for m in s.by_kind("mutate") if m.how == "setitem" and m.key.op == "tuple"]
    if not st:
        # vectorised form: <matrix of |P_i & Q_j|> / np.maximum.outer(<sizes on the P side>, <sizes on the Q side>)
        main = [r for r in s.returns if not is_lit(r.term)]
        need(len(main) == 1, R, "_compute_score_matrix: neither a cell store nor a single matrix expression")
        t = main[0].term
        dens = [x for x in tm.walk(t) if x.op == "call" and call_name(x) == "np.maximum.outer" and len(x.a[1]) == 2]
        need(len(dens) == 1 and t.op == "bin" and t.a[0] == "/", R, "_compute_score_matrix: vectorised form is not <intersections> / np.maximum.outer(sizes, sizes)")
        A, B = dens[0].a[1]
        Mx = Mirror(f, subst={f.params[0]: tm.param(f.params[1]), f.params[1]: tm.param(f.params[0])})
        M0 = Mirror(f)
        sym_den = Mx.norm(A) is M0.norm(B)
        num = t.a[1]
        inter = [x for x in tm.walk(num) if x.op == "bin" and x.a[0] == "&"] + [x for x in tm.walk(num) if x.op == "call" and call_name(x) in (".intersection", "pattern._occurrence_intersection")]
        yield ob(R, f, "pattern._compute_score_matrix:cell-symmetric", sym_den and bool(inter), "cells are |P_i & Q_j| / max(|P_i|, |Q_j|) with both sizes taken the same way" if sym_den and inter else "the two size vectors of the denominator are not mirror images (%s vs %s): one side is de-duplicated or transformed and the other is not, so the matrix of the swapped call is not the transpose" % (tm.show(A, 3), tm.show(B, 3)))
        st = None
    need(st is None or len(st) == 1, R, "_compute_score_matrix: single cell store expected")
    cell = st[0].val if st else None
    ic = [x for x in tm.walk(cell) if x.op == "call" and call_name(x) == "pattern._occurrence_intersection"] if st else []
    if st:
        need(len(ic) == 1 and len(ic[0].a[1]) == 2, R, "_compute_score_matrix: intersection call not found")
        x, y = ic[0].a[1]
        swapped = tm.rebuild(cell, lambda z: y if z is x else (x if z is y else None))
        M0 = Mirror(f)
        # both operands must be the plain loop elements of the two sides (a transformation applied to one side only breaks the mirror)
        plain = x.op == "iter" and y.op == "iter" and x.a[0].op in ("param",) and y.a[0].op in ("param",)
        yield ob(R, f, "pattern._compute_score_matrix:cell-symmetric", plain and M0.norm(swapped) is M0.norm(cell), "the cell |P_i & Q_j| / max(|P_i|, |Q_j|) is unchanged when the two occurrences are exchanged, so the matrix of the swapped call is the transpose")
    g = ctx.program.func("pattern._occurrence_intersection", R)
    sg = ctx.S.get(g.qual)
    t = sg.returns[0].term
    Mx = Mirror(g, subst={"occ_P": tm.param("occ_Q"), "occ_Q": tm.param("occ_P")})
    yield ob(R, g, "pattern._occurrence_intersection:symmetric", Mx.norm(t) is Mirror(g).norm(t), "set intersection of the two occurrences is symmetric")
    # occurrence_FPR: layer 0 reduced along axis 0 twice (precision), layer 1 along axis 1 twice (recall)
    f = ctx.program.func("pattern.occurrence_FPR", R)
    s = ctx.S.get(f.qual)
    P, Rc, _ = _fm_args(s, R, f.qual)
    good, why = _occ_pair(s, P, Rc)
    yield ob(R, f, "pattern.occurrence_FPR:P<->R", good, why)


def _nce_decision_mirror(f, s, R):
    """nce with guard clauses: the exits form a decision list over the truth values of a few guards.  For every
    valuation of the guards the over-segmentation component must be the mirror image of the under-segmentation
    component at the mirrored valuation (each guard exchanged with its own mirror image)."""
    import itertools

    M = Mirror(f, equal_counts=True)
    rets = [r for r in s.returns if r.term.op == "tuple" and len(r.term.a) == 3]
    need(len(rets) == len(s.returns) and rets, R, "segment.nce: every exit must return (over, under, F)")
    # validation / emptiness exits that do not depend on the entropies are the same on both sides: keep the guards
    # that mention the contingency table only
    atoms = []
    for r in rets:
        for c, p in symeval.pc_conds(r.pc):
            if any(x.op == "call" and call_name(x) == "segment._contingency_matrix" for x in tm.walk(c)) and not any(a is c for a in atoms):
                atoms.append(c)
    need(1 <= len(atoms) <= 4, R, "segment.nce: %d entropy guards; the decision table is read for 1..4" % len(atoms))
    mirror_of = {}
    for a in atoms:
        sw = M.swap(a)
        for b2 in atoms:
            if M.norm(b2) is sw:
                mirror_of[a.id] = b2
    need(len(mirror_of) == len(atoms), R, "segment.nce: a guard has no mirror image among the guards (%s)" % "; ".join(tm.show(a, 3) for a in atoms if a.id not in mirror_of))

    # the other guards (validation, empty input) are fixed at the polarity they have on the fully computed exit
    full = max(rets, key=lambda r: len(symeval.pc_conds(r.pc)))
    fixed = {c.id: p for c, p in symeval.pc_conds(full.pc) if not any(a is c for a in atoms)}

    def pick(val):
        for r in rets:
            ok = True
            for c, p in symeval.pc_conds(r.pc):
                if any(a is c for a in atoms):
                    if val[c.id] != p:
                        ok = False
                        break
                elif fixed.get(c.id, p) != p:
                    ok = False
                    break
            if ok:
                return r
        return None

    bad = None
    n = 0
    for bits in itertools.product([False, True], repeat=len(atoms)):
        val = {a.id: b_ for a, b_ in zip(atoms, bits)}
        mval = {a.id: val[mirror_of[a.id].id] for a in atoms}
        r1, r2 = pick(val), pick(mval)
        if r1 is None or r2 is None:
            continue
        n += 1
        over, under = r1.term.a[0], r2.term.a[1]
        if M.swap(over) is not M.norm(under):
            bad = (val, tm.show(over, 2), tm.show(under, 2))
            break
    good = bad is None and n > 0
    yield ob(R, f, "segment.nce:over<->under", good, "on all %d valuations of the %d entropy guards the over-segmentation score is the mirror image of the under-segmentation score at the mirrored valuation" % (n, len(atoms)) if good else "with the guards %s the over-segmentation score is %s but the under-segmentation score at the mirrored guards is %s: not mirror images" % ({tm.show(a, 2): bad[0][a.id] for a in atoms}, bad[1], bad[2]))


def _name_roles(t):
    out = set()
    for x in tm.walk(t):
        if x.op == "param":
            n = x.a[0]
            if "ref" in n:
                out.add("R")
            if "est" in n:
                out.add("E")
    return out


def _reduce_axis(t, outer, inner):
    """t == outer(inner(M, axis=k)) -> (M, k)"""
    if t.op == "call" and call_name(t) == outer and len(t.a[1]) == 1:
        x = t.a[1][0]
        if x.op == "call" and call_name(x) == inner:
            ax = dict(x.a[2]).get("axis")
            if ax is not None and ax.op == "const":
                return x.a[1][0], int(ax.a[0])
    return None


def _axis_pair(P, Rc):
    p, r = None, None
    for x in resolve_ite_free(P):
        p = p or _reduce_axis(x, "np.mean", "np.max")
    for x in resolve_ite_free(Rc):
        r = r or _reduce_axis(x, "np.mean", "np.max")
    if p is None or r is None:
        return False, "precision/recall are not mean(max(M, axis=k))"
    good = p[0] is r[0] and p[1] == 0 and r[1] == 1
    return good, "precision = mean(max(M, axis=%d)), recall = mean(max(M, axis=%d)) of the same [ref, est] matrix" % (p[1], r[1])


def _occ_pair(s, P, Rc):
    pa = [x for x in resolve_ite_free(P) if not is_lit(x)]
    ra = [x for x in resolve_ite_free(Rc) if not is_lit(x)]
    if len(pa) != 1 or len(ra) != 1:
        return False, "occurrence precision/recall shape not recognised"
    p, r = _reduce_axis(pa[0], "np.mean", "np.max"), _reduce_axis(ra[0], "np.mean", "np.max")
    if p is None or r is None:
        return False, "occurrence precision/recall are not mean(max(., axis=k))"

    def root(a):
        return a.a[1] if a.op in ("loop", "loopvar") else None

    def layer(m):
        """M[np.ix_(rows, cols)] with M = O_PR[:, :, L] (one 3-D array, two layers) or M = a 2-D array of its own
        -> ((array variable, L or None), index term)"""
        if m.op != "sub":
            return None
        M, ix = m.a
        if M.op == "sub" and M.a[1].op == "tuple" and len(M.a[1].a) == 3 and M.a[1].a[2].op == "const" and all(z.op == "slice" for z in M.a[1].a[:2]):
            return (root(M.a[0]), int(M.a[1].a[2].a[0])), ix
        if M.op == "sub" and M.a[1].op == "tuple" and len(M.a[1].a) == 2 and M.a[1].a[1].op == "const" and (M.a[1].a[0].op == "ext" and "Ellipsis" in M.a[1].a[0].a[0] or (M.a[1].a[0].op == "const" and M.a[1].a[0].a[0] is Ellipsis)):
            return (root(M.a[0]), int(M.a[1].a[1].a[0])), ix  # O_PR[..., L]: the same layer of the 3-d array
        if root(M) is not None:
            return (root(M), None), ix
        return None

    lp, lr = layer(p[0]), layer(r[0])
    if lp is None or lr is None or lp[0][0] is None or lr[0][0] is None:
        return False, "layers of the occurrence matrix not recognised"
    # the two layers themselves: the precision layer = mean(max(s, axis=0)), the recall layer = mean(max(s, axis=1)),
    # stored at the same [i, j] under the same condition
    stores = {}
    for m in s.by_kind("mutate"):
        if m.how == "setitem" and m.key.op == "tuple" and m.root is not None:
            base = m.root
            if len(m.key.a) == 3 and m.key.a[2].op == "const":
                k = (base, int(m.key.a[2].a[0]))
                cell = m.key.a[:2]
            elif len(m.key.a) == 2:
                k = (base, None)
                cell = m.key.a
            else:
                continue
            stores.setdefault(k, []).append((_reduce_axis(m.val, "np.mean", "np.max"), tuple(cell), m.pc))
    sp, sr = stores.get(lp[0]), stores.get(lr[0])
    inner = (
        lp[0] != lr[0]
        and sp is not None
        and sr is not None
        and len(sp) == 1
        and len(sr) == 1
        and sp[0][0] is not None
        and sr[0][0] is not None
        and sp[0][0][0] is sr[0][0][0]
        and (sp[0][0][1], sr[0][0][1]) == (0, 1)
        and all(a is b for a, b in zip(sp[0][1], sr[0][1]))
        and sp[0][2] == sr[0][2]
    )
    # rows and columns: the two plain columns of one index table, np.ix_(X[:, 0], X[:, 1]), or two lists that
    # collect (i, j) in lockstep
    ix = lp[1]
    cols_ok = False
    if ix.op == "call" and call_name(ix) == "np.ix_" and len(ix.a[1]) == 2:
        a0, a1 = ix.a[1]

        def col(z):
            if z.op == "sub" and z.a[1].op == "tuple" and len(z.a[1].a) == 2 and z.a[1].a[0].op == "slice" and z.a[1].a[1].op == "const":
                return z.a[0], z.a[1].a[1].a[0]
            return None, None

        x0, k0 = col(a0)
        x1, k1 = col(a1)
        cols_ok = x0 is not None and x0 is x1 and (k0, k1) == (0, 1)
        if not cols_ok and root(a0) is not None and root(a1) is not None and root(a0) != root(a1):
            app = {}
            for m in s.by_kind("mutate"):
                if m.how == "method:append" and m.root is not None:
                    app.setdefault(m.root, []).append(m)
            r0, r1 = app.get(root(a0), []), app.get(root(a1), [])
            if len(r0) == 1 and len(r1) == 1 and r0[0].pc == r1[0].pc and sp and r0[0].pc == sp[0][2]:
                v0 = r0[0].val.a[0] if r0[0].val.op == "tuple" and len(r0[0].val.a) == 1 else r0[0].val
                v1 = r1[0].val.a[0] if r1[0].val.op == "tuple" and len(r1[0].val.a) == 1 else r1[0].val
                cols_ok = v0 is sp[0][1][0] and v1 is sp[0][1][1]
    if not cols_ok:
        return False, "the relevant rows/columns are not the two plain columns of one (reference index, estimate index) table: %s - a transformation of one side only (de-duplication, sorting) weights precision and recall differently" % tm.show(ix, 3)
    good = p[1] == 0 and r[1] == 1 and lp[1] is lr[1] and inner
    return good, "precision = mean(max(layerP[rel], axis=0)) with layerP = mean(max(s, axis=0)); recall = the same with the other layer and axis=1 (found layers %s/%s, axes %s/%s, layer stores consistent: %s)" % (lp[0], lr[0], p[1], r[1], inner)


def rule_twincall(ctx):
    R = "C06.TWINCALL"
    for qual in ("hierarchy.tmeasure", "hierarchy.lmeasure"):
        f = ctx.program.func(qual, R)
        s = ctx.S.get(qual)
        P, Rc, _ = _fm_args(s, R, qual)
        twin = P.op == "call" and Rc.op == "call" and call_name(P) == "hierarchy._gauc" and call_name(Rc) == "hierarchy._gauc"
        mirror = twin and swap_roles(P, f) is Rc and swap_roles(Rc, f) is P
        # recall is the call in (reference, estimate) order
        order = twin and roles(Rc.a[1][0]) == {"R"} and roles(Rc.a[1][1]) == {"E"} and roles(P.a[1][0]) == {"E"}
        if not twin and "hierarchy._gauc" in s.inlined:
            # _gauc evaluated in place (its signature changed): the two scores are each other's mirror image; which of
            # them is the (reference, estimate) one is read off the first matrix the ranking loop indexes
            mirror = common.shape_key(swap_roles(P, f)) == common.shape_key(Rc) and common.shape_key(swap_roles(Rc, f)) == common.shape_key(P)
            raise_if = not mirror
            if mirror:
                raise AnalysisError(R, "%s: _gauc is evaluated in place; precision/recall are mirror images but their orientation is not read in this form" % qual)
        yield ob(R, f, "%s:_gauc-twin" % qual, mirror and order, "precision = _gauc(est, ref, ...) is the exact mirror of recall = _gauc(ref, est, ...): all other arguments identical")
        # returned in (precision, recall, measure) order
        rt = s.returns[-1].term
        yield ob(R, f, "%s:return-order" % qual, rt.op == "tuple" and len(rt.a) == 3 and rt.a[0] is P and rt.a[1] is Rc, "returns (precision, recall, f_measure(precision, recall))")
    f = ctx.program.func("beat.information_gain", R)
    s = ctx.S.get(f.qual)
    calls = [c for c in s.calls() if c.callee == "beat._get_entropy"]
    main0 = [r for r in s.returns if not is_lit(r.term)]
    if len(calls) == 2:
        a, b = calls[0].term, calls[1].term
        g_ent = ctx.program.func("beat._get_entropy", R)

        def bound(c):
            bd = {}
            for i, x in enumerate(c.args):
                if i < len(g_ent.params):
                    bd[g_ent.params[i]] = x
            for n, v in c.kw:
                bd[n] = v
            return bd

        ba, bb = bound(calls[0]), bound(calls[1])
        mirror = set(ba) == set(bb) and all(swap_roles(ba[k], f) is bb[k] for k in ba)
    else:
        # the entropy helper was evaluated in place (it changed its signature / was split): the two entropies are the
        # terms compared to choose the larger one, and each must be the other with the roles exchanged
        lt = common.lift_outer_ite(main0[0].term) if len(main0) == 1 else None
        need(lt is not None and lt.op == "ite" and lt.a[0].op == "cmp" and lt.a[0].a[0] == "<", R, "information_gain: forward/backward entropy calls not found")
        a, b = lt.a[0].a[1], lt.a[0].a[2]
        mirror = common.shape_key(swap_roles(a, f)) == common.shape_key(b) and common.shape_key(swap_roles(b, f)) == common.shape_key(a)
    main = [r for r in s.returns if not is_lit(r.term)]
    sym = False
    if mirror and len(main) == 1 and common.lift_outer_ite(main[0].term).op == "ite":
        c, x, y = common.lift_outer_ite(main[0].term).a
        # ite(fwd > bwd, F[fwd], F[bwd]): the same function of whichever entropy is larger
        if c.op == "cmp" and c.a[0] == "<" and {c.a[1], c.a[2]} == {a, b}:
            big = c.a[2]
            small = c.a[1]
            sub1 = tm.rebuild(x, lambda z: tm.mk("HOLE") if z is big else None)
            sub2 = tm.rebuild(y, lambda z: tm.mk("HOLE") if z is small else None)
            sym = sub1 is sub2 and not any(z is small for z in tm.walk(x)) and not any(z is big for z in tm.walk(y))
    yield ob(R, f, "beat.information_gain:entropy-twin", mirror and sym, "forward and backward entropies are mirror calls and the score is one function of the larger of the two")
    fo, fu = ctx.program.func("chord.overseg", R), ctx.program.func("chord.underseg", R)
    so, su = ctx.S.get(fo.qual), ctx.S.get(fu.qual)
    good = len(so.returns) == 1 and len(su.returns) == 1 and swap_roles(so.returns[0].term, fo) is su.returns[0].term and fo.params == fu.params
    yield ob(R, fu, "chord.underseg=swap(overseg)", good, "underseg(ref, est) is overseg with the two interval arguments exchanged (1 - dhd(est, ref) vs 1 - dhd(ref, est))")
    fs = ctx.program.func("chord.seg", R)
    ss = ctx.S.get(fs.qual)
    t = ss.returns[0].term
    good = t.op == "call" and call_name(t) in ("builtins.min", "np.min") and {call_name(x) for x in t.a[1]} == {"chord.underseg", "chord.overseg"}
    yield ob(R, fs, "chord.seg:min", good, "seg = min(underseg, overseg) is symmetric")


def rule_symscore(ctx):
    R = "C06.SYMSCORE"
    for qual in ("segment.rand_index",):
        f = ctx.program.func(qual, R)
        s = ctx.S.get(qual)
        main = [r for r in s.returns if not is_lit(r.term)]
        need(len(main) == 1, R, "%s: main return not found" % qual)
        M = Mirror(f, equal_counts=True)
        yield ob(R, f, "%s:symmetric" % qual, M.swap(main[0].term) is M.norm(main[0].term), "the Rand index term is invariant under exchanging reference and estimate")
    for qual in ("segment._adjusted_rand_index", "segment._mutual_info_score", "segment._normalized_mutual_info_score"):
        f = ctx.program.func(qual, R)
        s = ctx.S.get(qual)
        main = [r for r in s.returns if not is_lit(r.term)]
        need(len(main) == 1, R, "%s: main return not found" % qual)
        t = main[0].term
        M = Mirror(f, equal_counts=True)
        if qual == "segment._mutual_info_score":
            # the optional table argument is the contingency matrix of the same two label sequences
            subst = {"contingency": tm.none()}
            M = Mirror(f, equal_counts=True, subst=subst)
        a, b = M.swap(t), M.norm(t)
        good = a is b
        if not good and qual == "segment._adjusted_rand_index":
            # decided algebraically instead: the textbook formula (C16.ARIFORM) is symmetric in the row / column pair counts
            from . import c16

            good = c16.ari_formula_ok(ctx)
        yield ob(R, f, "%s:symmetric" % qual, good, "%s is invariant under exchanging its two label sequences" % qual.split(".")[1] if good else "asymmetric or outside the normaliser: swap gives %s" % tm.show(a, 4)[:200])
        # the trivial-partition guard is symmetric too
        for r in s.returns:
            if is_lit(r.term):
                conds = symeval.pc_conds(r.pc)
                gs = all(M.swap(c) is M.norm(c) or _guard_symmetric(c, f) for c, _ in conds)
                yield ob(R, f, "%s:guard-symmetric" % qual, gs, "the trivial-partition special case tests both sides alike")
    f = ctx.program.func("util.f_measure", R)
    s = ctx.S.get(f.qual)
    main = [r for r in s.returns if not is_lit(r.term)]
    need(len(main) == 1, R, "util.f_measure: formula return not found")
    one = {"beta": tm.const(1.0)}
    M1 = Mirror(f, subst=dict(one))
    M2 = Mirror(f, subst=dict(one, precision=tm.param("recall"), recall=tm.param("precision")))
    yield ob(R, f, "util.f_measure:beta=1", M1.norm(main[0].term) is M2.norm(main[0].term), "with beta = 1 the F-measure term is invariant under exchanging precision and recall")
    okd, dv = f.default_value("beta")
    yield ob(R, f, "util.f_measure:default-beta", okd and dv == 1.0, "beta defaults to %r" % (dv,))
    # and the zero guard is symmetric
    lit0 = [r for r in s.returns if is_lit(r.term)]
    gs = bool(lit0) and all(M2.norm(c) is M1.norm(c) for r in lit0 for c, _ in symeval.pc_conds(r.pc))
    yield ob(R, f, "util.f_measure:guard-symmetric", gs, "the zero special case treats precision and recall alike")
    # F entries at the default beta: every caller passes (precision, recall) in that order - C16.FDERIV


def rule_closedwindow(ctx):
    """Shared with C05: the event window is closed on both sides (|r - e| <= w), which is what makes it symmetric."""
    from . import c05

    for o in c05.rule_windowsides(ctx):
        if o.rule == "C05.WINDOWSIDES":
            o.rule = "C06.CLOSEDWINDOW"
            yield o
    for o in c05.rule_moddist(ctx):
        if o.construct.endswith(":form"):
            o.rule = "C06.CLOSEDWINDOW"
            yield o


def rule_segtwin(ctx):
    """Shared with C12.PIPELINE: inside chord.evaluate overseg and underseg receive the *same* two merged segmentations,
    so evaluate(a, b)["overseg"] is evaluate(b, a)["underseg"] (given underseg = swap(overseg), rule TWINCALL)."""
    from . import c12

    for o in c12.rule_pipeline(ctx):
        if o.construct in ("chord.evaluate:merged-ref", "chord.evaluate:merged-est", "chord.evaluate:underseg", "chord.evaluate:overseg", "chord.evaluate:seg"):
            o.rule = "C06.SEGTWIN"
            yield o


def _guard_symmetric(c, f):
    """semantic fallback: the guard and its role-swapped image agree on every valuation of the compared counts"""
    from .. import finmodel

    sw = swap_roles(c, f)

    # both label sequences sample the same frame grid (validate_structure): their lengths are one quantity
    def same_len(x):
        if x.op == "call" and call_name(x) == "builtins.len" and len(x.a[1]) == 1 and x.a[1][0].op == "param" and x.a[1][0].a[0] == "estimated_indices":
            return tm.call(x.a[0], (tm.param("reference_indices"),), x.a[2])
        return None

    return finmodel.equivalent(tm.rebuild(c, same_len), tm.rebuild(sw, same_len)) is True


def rule_amibounds(ctx):
    """AMI: the upper summation limits min(a_i, b_j) + 1 are laid out on the (R, C) grid of the contingency table with
    the row marginals a along axis 0 and the column marginals b along axis 1 (a is resized to (C, R) and transposed, b
    to (R, C)); laying both out the same way mis-pairs the marginals and makes the expected MI depend on which side is
    the reference."""
    R = "C06.AMIBOUNDS"
    f = ctx.program.func("segment._adjusted_mutual_info_score", R)
    s = ctx.S.get(f.qual)
    def marg_axis(t):
        """the axis a marginal was summed over (1: row marginals a, length shape[0]; 0: column marginals b)"""
        ax = None
        for z in tm.walk(t):
            if z.op == "call" and call_name(z) == "np.sum":
                for k, v in z.a[2]:
                    if k == "axis" and v.op == "const":
                        ax = int(v.a[0])
        return ax

    mins = [c for c in s.calls() if c.callee in ("np.minimum", "np.minimum.outer") and len(c.args) == 2 and all(marg_axis(a) is not None for a in c.args[:2])]
    need(len(mins) == 1, R, "_adjusted_mutual_info_score: min(a, b) grid not found")
    x, y = mins[0].args

    def lay(t):
        """(summed axis of the marginal, grid axis it varies along) or a string saying why the layout is not read"""
        tr = False
        if t.op == "call" and call_name(t) == "np.transpose" and t.a[1]:
            tr = True
            t = t.a[1][0]
        ax = marg_axis(t)
        if t.op == "call" and call_name(t) == "np.resize" and len(t.a[1]) == 2 and t.a[1][1].op == "tuple" and len(t.a[1][1].a) == 2:
            dims = []
            for d in t.a[1][1].a:
                dims.append(common.dim_of(d)[1] if common.dim_of(d) is not None else None)
            own = {1: 0, 0: 1}.get(ax)  # a has shape[0] entries, b has shape[1]
            # row-major fill: the marginal repeats along the last axis only when the last dimension is its own length
            if dims[1] != own or dims[0] != 1 - own:
                return "resize(%s, shape dims %s) does not tile the marginal along one axis" % ("a" if ax == 1 else "b", dims)
            return ax, (0 if tr else 1)
        if t.op == "sub" and t.a[1].op == "tuple" and len(t.a[1].a) == 2:
            k0, k1 = t.a[1].a
            if k0.op == "slice" and tm._is_newaxis(k1):
                return ax, (1 if tr else 0)
            if k1.op == "slice" and tm._is_newaxis(k0):
                return ax, (0 if tr else 1)
        return "layout not recognised: %s" % tm.show(t, 3)

    if mins[0].callee == "np.minimum.outer":
        lx, ly = (marg_axis(x), 0), (marg_axis(y), 1)
    else:
        lx, ly = lay(x), lay(y)
    if isinstance(lx, str) or isinstance(ly, str):
        bad = lx if isinstance(lx, str) else ly
        if bad.startswith("layout not recognised"):
            need(False, R, "_adjusted_mutual_info_score: " + bad)
        good, why = False, bad
    else:
        # row marginals (sum over axis 1) must vary along axis 0 of the (R, C) grid, column marginals along axis 1
        good = {lx, ly} == {(1, 0), (0, 1)}
        why = "min(a_i, b_j) grid: the row marginals vary along axis 0 and the column marginals along axis 1" if good else "marginals are laid out as %s and %s (summed axis, grid axis): both on the same orientation, or exchanged, mis-pairs a_i with b_j" % (lx, ly)
    yield ob(R, f, "segment._adjusted_mutual_info_score:limit-grid", good, why, node=mins[0].node)






RULES = [
    ("C06.HELPERDEFAULTS", 3, common.rule_helperdefaults("C06.HELPERDEFAULTS")),
    ("C06.BOUNDARIES", 2, common.shared("c13", "rule_boundaries", "C06.BOUNDARIES")),
    ("C06.FRAMECOUNT", 4, common.shared("c05", "rule_framecount", "C06.FRAMECOUNT")),
    ("C06.NOOFFSETROUTE", 8, common.shared("c07", "rule_nooffsetroute", "C06.NOOFFSETROUTE")),
    ("C06.AMIBOUNDS", 1, rule_amibounds),
    ("C06.SEGTWIN", 5, rule_segtwin),
    ("C06.CLOSEDWINDOW", 3, rule_closedwindow),
    ("C06.PRMIRROR", 12, rule_prmirror),
    ("C06.AXISMIRROR", 13, rule_axismirror),
    ("C06.TWINCALL", 7, rule_twincall),
    ("C06.SYMSCORE", 9, rule_symscore),
]

from . import common as _common_purity
RULES = RULES + _common_purity.purity_rules("C06")
RULES = RULES + _common_purity.bundle_rules("C06")
