"""C07 - looser criteria never lower a score; nested criteria are ordered (structural clauses)."""

from __future__ import annotations

from .. import terms as tm
from ..model import AnalysisError
from .common import strip_numeric, count_form, ob, need, call_name, resolve_ite_free, role_of, is_lit, lit
from . import common
from .. import symeval

PROP = "C07"
EXPLANATION = (
    "Static decision of C07's mechanisms: (THRESH) every tolerance parameter the property lists is followed through every function that "
    "receives it; each occurrence in a returned value is the greater side of a `<`/`<=` comparison whose other side does not depend on it "
    "(through monotone wrappers: product with a non-negative duration, np.maximum, reshape), a sorted-window bound (est - w searched left, est + w "
    "searched right), an `is None` test, a validation guard that only raises or warns, or a forwarding to a callee parameter that is itself "
    "checked - so the feasible-pair set can only grow with the tolerance; (STRICTFLAG) strict selects `<` over `<=` on identical operands; "
    "(NESTEDCONJ) the note hit matrix is the product of the onset-only matrix, a pitch test and the offset-only matrix (or True without "
    "offsets); (MAXINCLUDES) best-metric-level scores are the max over a list whose element 0 is the score against the unmodified reference; "
    "tempo one/both-correct are max/min of one list; (CHROMATWIN) chroma scores are the same functions on octave-folded inputs and raw "
    "chroma accuracy differs from raw pitch accuracy only in the folded difference.  Inequalities between values are not decided."
)
RULE_TEXT = "THRESH: one obligation per (function, tolerance parameter) reached by forwarding from the twelve listed tolerances; others per clause"

SEEDS = [
    ("beat.f_measure", "f_measure_threshold"),
    ("onset.f_measure", "window"),
    ("segment.detection", "window"),
    ("multipitch.compute_num_true_positives", "window"),
    ("transcription.precision_recall_f1_overlap", "onset_tolerance"),
    ("transcription.precision_recall_f1_overlap", "pitch_tolerance"),
    ("transcription.precision_recall_f1_overlap", "offset_ratio"),
    ("transcription.precision_recall_f1_overlap", "offset_min_tolerance"),
    ("transcription.onset_precision_recall_f1", "onset_tolerance"),
    ("transcription.offset_precision_recall_f1", "offset_ratio"),
    ("transcription.offset_precision_recall_f1", "offset_min_tolerance"),
    ("transcription_velocity.precision_recall_f1_overlap", "onset_tolerance"),
    ("transcription_velocity.precision_recall_f1_overlap", "pitch_tolerance"),
    ("transcription_velocity.precision_recall_f1_overlap", "offset_ratio"),
    ("transcription_velocity.precision_recall_f1_overlap", "offset_min_tolerance"),
    ("transcription_velocity.precision_recall_f1_overlap", "velocity_tolerance"),
    ("melody.raw_pitch_accuracy", "cent_tolerance"),
    ("melody.raw_chroma_accuracy", "cent_tolerance"),
    ("melody.overall_accuracy", "cent_tolerance"),
    ("tempo.detection", "tol"),
    ("alignment.percentage_correct", "window"),
]

NONNEG_CALLS = {"util.intervals_to_durations", "np.abs", "builtins.len", "np.maximum"}
TRANSPARENT_TOL = {"np.reshape", "np.asarray", "builtins.float", "np.array", "np.atleast_1d", "np.atleast_2d"}


class Polarity(object):
    def __init__(self, ctx, f, p):
        self.ctx = ctx
        self.f = f
        self.p = p
        self.pt = tm.param(p)
        self.memo = {}
        self.problems = []
        self.forwards = set()
        self.uses = {"cmp": 0, "forward": 0, "none-test": 0, "window": 0}
        self._has = {}

    def has(self, t):
        r = self._has.get(t.id)
        if r is None:
            r = self.p in tm.params_of(t)
            self._has[t.id] = r
        return r

    def bad(self, t, why):
        self.problems.append("%s in %s" % (why, tm.show(t, 3)))

    def nonneg(self, t):
        if is_lit(t):
            return lit(t) is not None and lit(t) >= 0
        if t.op == "call" and call_name(t) in NONNEG_CALLS:
            return True
        return False

    def tol(self, t):
        """t is on the tolerance (greater) side: must be monotone non-decreasing in p."""
        if not self.has(t):
            return
        k = ("tol", t.id)
        if k in self.memo:
            return
        self.memo[k] = True
        if t is self.pt:
            return
        if t.op == "call":
            n = call_name(t)
            args = t.a[1]
            if n in TRANSPARENT_TOL and args:
                self.tol(args[0])
                for a in args[1:]:
                    if self.has(a):
                        self.bad(t, "tolerance used as a shape argument")
                return
            if n in ("np.maximum", "np.minimum", "builtins.max", "builtins.min") and args:
                for a in args:
                    self.tol(a)
                return
        if t.op == "bin":
            op, l, r = t.a
            if op == "*":
                for a, b in ((l, r), (r, l)):
                    if self.has(a) and not self.has(b):
                        if not self.nonneg(b):
                            self.bad(t, "tolerance multiplied by a factor not known to be non-negative")
                        self.tol(a)
                        return
                self.bad(t, "non-linear use of the tolerance")
                return
            if op == "+":
                self.tol(l)
                self.tol(r)
                return
            if op == "-":
                if self.has(r):
                    self.bad(t, "tolerance subtracted (anti-monotone)")
                self.tol(l)
                return
        if t.op == "ite":
            self.free_cond(t.a[0])
            self.tol(t.a[1])
            self.tol(t.a[2])
            return
        self.bad(t, "tolerance passes through a construct not known to be monotone")

    def free_cond(self, c):
        if not self.has(c):
            return
        if c.op == "cmp" and c.a[0] in ("is", "isnot") and (tm.is_const(c.a[1], None) or tm.is_const(c.a[2], None)):
            self.uses["none-test"] += 1
            return
        if c.op == "un" and c.a[0] == "not":
            return self.free_cond(c.a[1])
        if c.op == "cmp" and c.a[0] in ("in", "notin"):
            # membership bookkeeping (`if e not in G`): the tolerance decides *which* keys exist, checked where they are produced
            self.free(c.a[1])
            self.free(c.a[2])
            return
        from . import c05 as _c05

        if _c05._no_hits([(c, True)]) or _c05._no_hits([(c, False)]):
            # `if hits[0].size == 0: return []`: whether there are hits at all is decided by the hit matrix, whose
            # comparisons with the tolerance are judged where they are made
            for z in tm.walk(c):
                if z.op == "call" and call_name(z) == "np.where" and len(z.a[1]) == 1:
                    self.free(z.a[1][0])
            return
        if self.only_forwarded(c):
            # e.g. `if matching.size == 0`: the tolerance reaches the test only as an argument forwarded to a checked callee
            self.free(c)
            return
        self.bad(c, "tolerance decides a branch other than an `is None` test")

    def only_forwarded(self, t):
        """Every occurrence of the tolerance inside ``t`` is a plain argument of a repo call."""
        seen = set()

        def rec(x):
            if x.id in seen or not self.has(x):
                return True
            seen.add(x.id)
            if x is self.pt:
                return False
            if x.op == "call" and x.a[0].op in ("func", "localfunc"):
                for a in x.a[1]:
                    if a is self.pt:
                        continue
                    if not rec(a):
                        return False
                for _, v in x.a[2]:
                    if v is self.pt:
                        continue
                    if not rec(v):
                        return False
                return True
            return all(rec(y) for y in tm.children(x))

        return rec(t)

    def free(self, t):
        if not self.has(t):
            return
        k = ("free", t.id)
        if k in self.memo:
            return
        self.memo[k] = True
        if t is self.pt:
            self.bad(t, "tolerance value used outside a comparison")
            return
        op = t.op
        if op == "cmp":
            o, l, r = t.a
            if o in ("<", "<="):
                if self.has(l):
                    if self.only_forwarded(l):
                        self.free(l)
                    else:
                        self.bad(t, "tolerance on the smaller side of a comparison (anti-monotone) or in the distance")
                if self.has(r):
                    if self.only_forwarded(r) and r is not self.pt:
                        self.free(r)
                    else:
                        self.uses["cmp"] += 1
                        self.tol(r)
                return
            if o in ("in", "notin") or self.only_forwarded(t):
                self.free(l)
                self.free(r)
                return
            if o in ("is", "isnot") and (tm.is_const(l, None) or tm.is_const(r, None)):
                self.uses["none-test"] += 1
                return
            self.bad(t, "tolerance compared with `%s`" % o)
            return
        if op == "ite":
            self.free_cond(t.a[0])
            self.free(t.a[1])
            self.free(t.a[2])
            return
        if op == "call":
            fn, args, kw = t.a
            n = call_name(t)
            if fn.op in ("func", "localfunc") and self.ctx.program.has_func(n):
                g = self.ctx.program.func(n)
                bound = []
                for i, a in enumerate(args):
                    if a.op == "star":
                        break
                    if i < len(g.params):
                        bound.append((g.params[i], a))
                for kname, v in kw:
                    if kname == "**":
                        if self.has(v):
                            self.bad(t, "tolerance smuggled through **kwargs")
                    else:
                        bound.append((kname, v))
                for q, a in bound:
                    if self.has(a):
                        if a is self.pt:
                            self.forwards.add((n, q))
                            self.uses["forward"] += 1
                        else:
                            # data that depends on the tolerance (a matching, a ratio): the polarity inside it is what matters
                            self.free(a)
                return
            if n == "np.searchsorted" and len(args) >= 2:
                hay, needle = args[0], args[1]
                side = dict(kw).get("side") or (args[2] if len(args) > 2 else None)
                sv = side.a[0] if side is not None and side.op == "const" else "left"
                if self.has(hay):
                    self.bad(t, "tolerance in the searched array")
                if self.has(needle):
                    good = needle.op == "bin" and ((needle.a[0] == "-" and needle.a[2] is self.pt and not self.has(needle.a[1]) and sv == "left") or (needle.a[0] == "+" and self.pt in (needle.a[1], needle.a[2]) and sv == "right"))
                    if good:
                        self.uses["window"] += 1
                    else:
                        self.bad(t, "window bound is not (x - w, side=left) / (x + w, side=right)")
                return
            if fn.op == "param":
                # distance(ref, est): the tolerance must not be an argument
                for a in args:
                    if self.has(a):
                        self.bad(t, "tolerance passed to a caller-supplied function")
                return
            for a in args:
                self.free(a)
            for _, v in kw:
                self.free(v)
            return
        for x in tm.children(t):
            self.free(x)


def check_pair(ctx, qual, p):
    f = ctx.program.func(qual, "C07.THRESH")
    if p not in f.params:
        raise AnalysisError("C07.THRESH", "%s has no parameter %s" % (qual, p))
    s = ctx.S.get(qual)
    pol = Polarity(ctx, f, p)
    for r in s.returns:
        pol.free(r.term)
        for c, polr, origin in symeval.pc_conds_full(r.pc):
            if pol.has(c) and origin != "raise":
                pol.free_cond(c)
    # effects other than the return value: stores into caller-visible objects are C15's business; raises/warns are allowed
    return pol


def rule_thresh(ctx):
    work = list(SEEDS)
    seen = set()
    results = {}
    while work:
        qual, p = work.pop(0)
        if (qual, p) in seen:
            continue
        seen.add((qual, p))
        pol = check_pair(ctx, qual, p)
        results[(qual, p)] = pol
        for g, q in sorted(pol.forwards):
            if (g, q) not in seen:
                work.append((g, q))
    # a forwarder is only as good as what it forwards to
    bad_pairs = {k for k, pol in results.items() if pol.problems}
    changed = True
    while changed:
        changed = False
        for k, pol in results.items():
            if k not in bad_pairs and any(fw in bad_pairs for fw in pol.forwards):
                bad_pairs.add(k)
                changed = True
    for (qual, p), pol in sorted(results.items()):
        f = ctx.program.func(qual)
        total = sum(pol.uses.values())
        own_ok = not pol.problems
        down = sorted(fw for fw in pol.forwards if fw in bad_pairs)
        used = total > 0
        what = "%s(%s): %d comparison(s) with the tolerance on the greater side, %d window bound(s), %d forwarding(s), %d `is None` test(s)" % (qual, p, pol.uses["cmp"], pol.uses["window"], pol.uses["forward"], pol.uses["none-test"])
        if pol.problems:
            what = "%s(%s): %s" % (qual, p, "; ".join(pol.problems[:3]))
        elif down:
            what += "; forwards to a callee whose use is not monotone: %s" % down
        elif not used:
            what = "%s(%s): the tolerance never reaches a comparison (it has no effect)" % (qual, p)
        yield ob("C07.THRESH", f, "%s:%s" % (qual, p), own_ok and not down and used, what)


MATCHER3 = ["transcription.match_note_offsets", "transcription.match_note_onsets", "transcription.match_notes"]


def hit_matrix(ctx, q, rule):
    s = ctx.S.get(q)
    w = [c for c in s.calls() if c.callee == "np.where" and len(c.args) == 1]
    need(len(w) == 1, rule, "%s: np.where(<hit matrix>) not found" % q)
    from .common import factor_ite

    return factor_ite(w[0].args[0])


def _factors(t):
    if t.op == "bin" and t.a[0] in ("*", "&"):
        return _factors(t.a[1]) + _factors(t.a[2])
    return [t]


def rule_strictflag(ctx):
    for q in MATCHER3:
        f = ctx.program.func(q, "C07.STRICTFLAG")
        m = hit_matrix(ctx, q, "C07.STRICTFLAG")
        n = 0
        for fct in _factors(m):
            alts = [fct]
            # offset conjunct of match_notes: ite(offset_ratio is not None, X, True)
            if fct.op == "ite" and not (fct.a[0].op == "param"):
                alts = [x for x in (fct.a[1], fct.a[2]) if not tm.is_const(x, True)]
            for x in alts:
                good = x.op == "ite" and x.a[0].op == "param" and x.a[0].a[0] == "strict" and x.a[1].op == "cmp" and x.a[2].op == "cmp" and x.a[1].a[0] == "<" and x.a[2].a[0] == "<=" and x.a[1].a[1] is x.a[2].a[1] and x.a[1].a[2] is x.a[2].a[2]
                n += 1
                yield ob("C07.STRICTFLAG", f, "%s:conjunct@%d" % (q, n), good, "strict=True compares with `<`, strict=False with `<=`, on identical operands (%s)" % tm.show(x, 2))
        need(n >= 1, "C07.STRICTFLAG", "%s: no comparison conjunct" % q)
    # the flag is forwarded unchanged by every wrapper
    for q in ("transcription.precision_recall_f1_overlap", "transcription.onset_precision_recall_f1", "transcription.offset_precision_recall_f1", "transcription_velocity.match_notes", "transcription_velocity.precision_recall_f1_overlap"):
        f = ctx.program.func(q, "C07.STRICTFLAG")
        s = ctx.S.get(q)
        fw = False
        for c in s.calls():
            if c.fn is None or c.fn.op != "func" or not ctx.program.has_func(c.callee):
                continue
            g = ctx.program.func(c.callee)
            if "strict" not in g.params:
                continue
            i = g.params.index("strict")
            a = dict(c.kw).get("strict") or (c.args[i] if i < len(c.args) else None)
            fw = a is not None and a.op == "param" and a.a[0] == "strict"
        yield ob("C07.STRICTFLAG", f, "%s:forwards-strict" % q, fw, "the wrapper's strict flag reaches the matcher unchanged")


def rule_nestedconj(ctx):
    R = "C07.NESTEDCONJ"
    f = ctx.program.func("transcription.match_notes", R)
    full = _factors(hit_matrix(ctx, "transcription.match_notes", R))
    onset = hit_matrix(ctx, "transcription.match_note_onsets", R)
    offset = hit_matrix(ctx, "transcription.match_note_offsets", R)
    yield ob(R, f, "transcription.match_notes:three-conjuncts", len(full) == 3, "note hit matrix is a product of %d conjuncts" % len(full))
    has_on = any(x is onset for x in full)
    yield ob(R, f, "transcription.match_notes:onset-conjunct", has_on, "one conjunct is exactly the onset-only hit matrix of match_note_onsets (same term)")
    off = [x for x in full if x.op == "ite" and x.a[0].op == "cmp" and x.a[0].a[0] in ("is", "isnot") and "offset_ratio" in tm.params_of(x.a[0])]
    good_off = False
    if len(off) == 1:
        c, a, b = off[0].a
        with_off, without = (a, b) if c.a[0] == "isnot" else (b, a)
        good_off = with_off is offset and tm.is_const(without, True)
    yield ob(R, f, "transcription.match_notes:offset-conjunct", good_off, "one conjunct is the offset-only hit matrix of match_note_offsets when offset_ratio is not None, and the constant True otherwise")
    pitch = [x for x in full if x is not onset and x not in off]
    good_p = len(pitch) == 1 and {"ref_pitches", "est_pitches", "pitch_tolerance"} <= tm.params_of(pitch[0]) and not ({"ref_intervals", "est_intervals"} & tm.params_of(pitch[0]))
    yield ob(R, f, "transcription.match_notes:pitch-conjunct", good_p, "the remaining conjunct tests pitches only")


def rule_maxincludes(ctx):
    R = "C07.MAXINCLUDES"
    # _get_reference_beat_variations: component 0 is the unmodified parameter
    g = ctx.program.func("beat._get_reference_beat_variations", R)
    sg = ctx.S.get(g.qual)
    first_ok = len(sg.returns) == 1 and sg.returns[0].term.op == "tuple" and sg.returns[0].term.a[0].op == "param" and sg.returns[0].term.a[0].a[0] == g.params[0]
    yield ob(R, g, "beat._get_reference_beat_variations:first", first_ok, "the first metrical variation is the reference itself")
    for q, pairs in (("beat.cemgil", [(0, 1)]), ("beat.continuity", [(0, 2), (1, 3)])):
        f = ctx.program.func(q, R)
        s = ctx.S.get(q)
        rets = [r for r in s.returns if r.term.op == "tuple" and not all(is_lit(x) for x in r.term.a)]
        need(len(rets) == 1, R, "%s: main return not found" % q)
        t = rets[0].term
        for a, b in pairs:
            x, y = t.a[a], t.a[b]
            good = x.op == "sub" and tm.is_const(x.a[1], 0) and y.op == "call" and call_name(y) == "np.max" and y.a[1][0] is x.a[0]
            # the list is appended once per variation, in the order of the variations
            lst = x.a[0] if x.op == "sub" else None
            order = False
            if lst is not None and lst.op == "loop":
                it = s.loops[lst.a[0]][1]
                order = it.op == "call" and call_name(it) == "beat._get_reference_beat_variations" and any(u.op == "upd" and u.a[1] == "method:append" for u in tm.walk(lst.a[3]))
                it0 = it.a[1][0] if it.op == "call" and call_name(it) == "builtins.enumerate" and it.a[1] and (len(it.a[1]) == 1 or tm.is_const(it.a[1][1], 0)) else it
                if not order and it0.op == "call" and call_name(it0) == "beat._get_reference_beat_variations":
                    # a result vector with one slot per variation, filled at the running index (from 0): slot 0 is variation 0
                    ups = []
                    b_ = lst.a[3]
                    while b_.op == "upd":  # the stores into the result vector itself (not those inside the stored values)
                        if b_.a[1] == "setitem":
                            ups.append(b_)
                        b_ = b_.a[0]
                    order = bool(ups) and all((u.a[2].op == "idx" and u.a[2].a[0] == lst.a[0]) or (u.a[2].op == "sub" and tm.is_const(u.a[2].a[1], 0) and u.a[2].a[0].op == "iter" and u.a[2].a[0].a[0] is it) for u in ups)
            elif lst is not None and lst.op == "comp" and lst.a[0] == "list" and len(lst.a[2]) == 1 and not lst.a[3]:
                # one element per variation, in the order of the variations (append loop or comprehension)
                it = lst.a[2][0]
                order = it.op == "call" and call_name(it) == "beat._get_reference_beat_variations"
            yield ob(R, f, "%s:%d<=%d" % (q, a, b), good and order, "component %d is element 0 and component %d the max of the same per-variation list (appended in variation order)" % (a, b))
    f = ctx.program.func("tempo.detection", R)
    s = ctx.S.get(f.qual)
    t = s.returns[0].term
    need(t.op == "tuple" and len(t.a) == 3, R, "tempo.detection: 3-tuple return expected")

    def inner(x, fn):
        if x.op == "call" and call_name(x) == "builtins.bool":
            x = x.a[1][0]
        if x.op == "call" and call_name(x) == fn:
            return x.a[1][0]
        return None

    a, b = inner(t.a[1], "np.max"), inner(t.a[2], "np.min")
    yield ob(R, f, "tempo.detection:one>=both", a is not None and a is b, "one-correct is max(hits) and both-correct is min(hits) of the same list")


def rule_chromatwin(ctx):
    R = "C07.CHROMATWIN"
    # multipitch: chroma true positives come from the same function on mod-12 inputs with the mod-12 distance
    f = ctx.program.func("multipitch.metrics", R)
    s = ctx.S.get(f.qual)
    tp = [c for c in s.calls() if c.callee == "multipitch.compute_num_true_positives"]
    need(len(tp) == 2, R, "multipitch.metrics: two true-positive computations expected")
    raw = [c for c in tp if not any(n == "chroma" for n, _ in c.kw)]
    chroma = [c for c in tp if any(n == "chroma" and tm.is_const(v, True) for n, v in c.kw)]
    good = len(raw) == 1 and len(chroma) == 1
    if good:
        ra, ca = raw[0].args, chroma[0].args
        good = all(c.op == "call" and call_name(c) == "multipitch.midi_to_chroma" and c.a[1][0] is r for r, c in zip(ra[:2], ca[:2]))
    yield ob(R, f, "multipitch.metrics:chroma-inputs", good, "chroma true positives = compute_num_true_positives(midi_to_chroma(ref_midi), midi_to_chroma(est_midi), chroma=True)")
    # both computations see the caller's keywords (window) in the same way
    if len(raw) == 1 and len(chroma) == 1:
        def routing(c):
            return (bool(c.d.get("via_filter")), tuple(sorted((n, v.id) for n, v in c.kw if n != "chroma")))

        same = routing(raw[0]) == routing(chroma[0])
        yield ob(R, f, "multipitch.metrics:same-keywords", same, "the plain and the chroma true-positive computations receive the caller's keywords identically (same `window`)" if same else "the plain and the chroma true-positive computations are routed differently (%s vs %s): a caller's `window` reaches only one of them" % (routing(raw[0]), routing(chroma[0])), node=chroma[0].node)
    g = ctx.program.func("multipitch.midi_to_chroma", R)
    sg = ctx.S.get(g.qual)
    t = sg.returns[0].term
    fold = t.op == "comp" and t.a[1].op == "call" and call_name(t.a[1]) == "np.mod" and tm.is_const(t.a[1].a[1][1], 12)
    yield ob(R, g, "multipitch.midi_to_chroma:fold", fold, "chroma = np.mod(midi, 12) per frame")
    h = ctx.program.func("multipitch.compute_num_true_positives", R)
    sh = ctx.S.get(h.qual)
    me = [c for c in sh.calls() if c.callee == "util.match_events"]
    need(len(me) >= 1, R, "compute_num_true_positives: no match_events call")
    if len(me) != 2 and any(n_ == "**" for c in me for n_, _ in c.kw):
        raise AnalysisError(R, "compute_num_true_positives: match_events receives its keywords through a computed dict (**%s); which call uses the modular distance is not read" % "; ".join(tm.show(v_, 2) for c in me for n_, v_ in c.kw if n_ == "**"))
    if len(me) != 2:
        has_mod = any(dict(c.kw).get("distance") is not None for c in me)
        yield ob(R, h, "multipitch.compute_num_true_positives:twin", False, "chroma=True no longer selects a separate match with distance=_outer_distance_mod_n (%s): pitch classes across the octave wrap (11.9 vs 0.1) stop matching" % ("a single call, always with the modular distance" if has_mod else "a single call without the modular distance"))
        yield from _melody_twin(ctx, R)
        return
    under_chroma = [c for c in me if any(cc.op == "param" and cc.a[0] == "chroma" and p for cc, p in symeval.pc_conds(c.pc))]
    other = [c for c in me if c not in under_chroma]
    def bound(c):
        names = ["ref", "est", "window", "distance"]
        b = {}
        for i, a in enumerate(c.args):
            if i < len(names):
                b[names[i]] = a
        for n, v in c.kw:
            b[n] = v
        return b

    good = len(under_chroma) == 1 and len(other) == 1
    dist = None
    if good:
        bc, bo = bound(under_chroma[0]), bound(other[0])
        dist = bc.get("distance")
        good = all(bc.get(k) is bo.get(k) for k in ("ref", "est", "window")) and set(bo) <= {"ref", "est", "window"}
    good = good and dist is not None and dist.op == "func" and dist.a[0] == "util._outer_distance_mod_n"
    yield ob(R, h, "multipitch.compute_num_true_positives:twin", good, "chroma=True differs from chroma=False only by distance=_outer_distance_mod_n (same frames, same window)")
    yield from _melody_twin(ctx, R)


def _melody_twin(ctx, R):
    # melody: raw chroma vs raw pitch
    a = ctx.S.get("melody.raw_pitch_accuracy")
    b = ctx.S.get("melody.raw_chroma_accuracy")
    fa = ctx.program.func("melody.raw_chroma_accuracy", R)
    guards_a = [[(c.id, p) for c, p in symeval.pc_conds(r.pc)] for r in a.returns]
    guards_b = [[(c.id, p) for c, p in symeval.pc_conds(r.pc)] for r in b.returns]
    same_guards = guards_a == guards_b
    if not same_guards:
        # the same exits arranged differently (one combined test / a chain of early returns): compare the conditions
        # under which each function returns its constant, as predicates
        from .. import finmodel

        def exit_pred(s_):
            alts = []
            for r in s_.returns:
                if not is_lit(r.term):
                    continue
                cs = [c if p else tm.unop("not", c) for c, p in symeval.pc_conds(r.pc)]
                if not cs:
                    return None
                alts.append(cs[0] if len(cs) == 1 else tm.mk("bool", "and", *cs))
            if not alts:
                return None
            return alts[0] if len(alts) == 1 else tm.mk("bool", "or", *alts)

        pa, pb = exit_pred(a), exit_pred(b)
        lits_a = sorted(str(lit(r.term)) for r in a.returns if is_lit(r.term))
        lits_b = sorted(str(lit(r.term)) for r in b.returns if is_lit(r.term))
        if pa is not None and pb is not None and set(lits_a) == set(lits_b) and len(set(lits_a)) == 1:
            same_guards = finmodel.equivalent(pa, pb) is True
    yield ob(R, fa, "melody.raw_chroma_accuracy:guards", same_guards, "raw chroma accuracy has the same emptiness/zero exits as raw pitch accuracy")
    va = [c.callee for c in a.calls() if (c.callee or "").startswith("melody.validate")]
    vb = [c.callee for c in b.calls() if (c.callee or "").startswith("melody.validate")]
    yield ob(R, fa, "melody.raw_chroma_accuracy:validation", va == vb and len(va) == 2, "same validation calls %s" % vb)
    ta, tb = a.returns[-1].term, b.returns[-1].term
    good = False
    why = "main returns not comparable"
    if ta.op == "bin" and tb.op == "bin" and ta.a[0] == "/" and tb.a[0] == "/":
        den_same = ta.a[2] is tb.a[2]
        ca = [x for x in tm.walk(ta.a[1]) if x.op == "cmp" and x.a[0] == "<" and "cent_tolerance" in tm.params_of(x.a[2])]
        cb = [x for x in tm.walk(tb.a[1]) if x.op == "cmp" and x.a[0] == "<" and "cent_tolerance" in tm.params_of(x.a[2])]
        if len(ca) == 1 and len(cb) == 1:
            da, db = ca[0].a[1], cb[0].a[1]
            # db = |da - 1200*floor(da/1200 + 0.5)|
            folded = db.op == "call" and call_name(db) == "np.abs" and db.a[1][0].op == "bin" and db.a[1][0].a[0] == "-" and db.a[1][0].a[1] is da
            octave = db.a[1][0].a[2] if folded else None
            oct_ok = False
            if octave is not None and octave.op == "bin" and octave.a[0] == "*" and any(tm.is_const(z, 1200) for z in (octave.a[1], octave.a[2])):
                fl = [z for z in (octave.a[1], octave.a[2]) if z.op == "call" and call_name(z) == "np.floor"]
                if fl:
                    arg = fl[0].a[1][0]
                    # floor(d / 1200 + 0.5): round to the nearest octave
                    if arg.op == "bin" and arg.a[0] == "+":
                        half = [z for z in (arg.a[1], arg.a[2]) if tm.is_const(z, 0.5)]
                        quo = [z for z in (arg.a[1], arg.a[2]) if z.op == "bin" and z.a[0] == "/" and z.a[1] is da and tm.is_const(z.a[2], 1200)]
                        oct_ok = bool(half) and bool(quo)
            # everything else equal: replace the comparison and compare the numerators
            na = tm.rebuild(ta.a[1], lambda x: tm.mk("HOLE") if x is ca[0] else None)
            nb = tm.rebuild(tb.a[1], lambda x: tm.mk("HOLE") if x is cb[0] else None)
            good = den_same and folded and oct_ok and na is nb and ca[0].a[2] is cb[0].a[2]
            why = "raw chroma = raw pitch with the difference d replaced by |d - 1200*floor(d/1200 + 0.5)|; same mask, weights and normaliser"
    yield ob(R, fa, "melody.raw_chroma_accuracy:twin", good, why)


def rule_edgepred(ctx):
    """Shared with C05: the graph contains every feasible pair, so a larger feasible set can only add edges."""
    from . import c05

    for o in c05.rule_edgepred(ctx):
        o.rule = "C07.EDGEPRED"
        yield o


def rule_contnorm(ctx):
    """beat.continuity: the continuous score (longest run of matched beats) and the total score (number of matched
    beats) are normalised by the same count - the length of the success vector - so longest run <= sum gives
    continuous <= total at every metrical level."""
    R = "C07.CONTNORM"
    f = ctx.program.func("beat.continuity", R)
    s = ctx.S.get(f.qual)
    apps = []
    for m in s.by_kind("mutate"):
        if m.how == "method:append" and m.val.op == "tuple" and len(m.val.a) == 1:
            v = m.val.a[0]
            if v.op == "bin" and v.a[0] == "/":
                apps.append((m, v))
    if not apps:
        # comprehension form: the per-variation lists are [E for variation in variations]; np.max(list) is returned
        for r in s.returns:
            if r.term.op == "tuple":
                for z in r.term.a:
                    if z.op == "call" and call_name(z) == "np.max" and z.a[1] and z.a[1][0].op == "comp" and z.a[1][0].a[0] == "list":
                        v = z.a[1][0].a[1]
                        if v.op == "bin" and v.a[0] == "/" and not any(v is w for _, w in apps):
                            apps.append((r, v))
    need(len(apps) == 2, R, "continuity: the two appended accuracies (continuous, total) were not found")
    cont = [(m, v) for m, v in apps if any(x.op == "call" and call_name(x) == "np.diff" for x in tm.walk(v.a[1]))]
    tot = [(m, v) for m, v in apps if v.a[1].op == "call" and call_name(v.a[1]) in ("np.sum", "builtins.sum")]
    need(len(cont) == 1 and len(tot) == 1, R, "continuity: longest-run / sum numerators not recognised")
    dc, dt = strip_numeric(cont[0][1].a[2]), strip_numeric(tot[0][1].a[2])
    yield ob(R, f, "beat.continuity:same-normaliser", dc is dt, "continuous and total accuracy are divided by the same count %s" % tm.show(dt, 3) if dc is dt else "continuous accuracy is divided by %s but total accuracy by %s: the ordering continuous <= total is lost when the counts differ" % (tm.show(dc, 3), tm.show(dt, 3)), node=cont[0][0].node)
    cf = count_form(dt)
    summed = tot[0][1].a[1].a[1][0]
    good_len = cf is not None and cf[1] is summed
    if not good_len:
        # ... or the very size the success vector was allocated with: np.zeros(N) summed, divided by N
        o = summed
        for _ in range(60):
            if o.op == "upd":
                o = o.a[0]
            elif o.op in ("loop", "loopvar"):
                o = o.a[2]
            elif o.op == "ite":
                o = o.a[1]
            else:
                break
        if o.op == "call" and call_name(o) in ("np.zeros", "np.ones", "np.empty") and o.a[1] and strip_numeric(o.a[1][0]) is dt:
            good_len = True
    yield ob(R, f, "beat.continuity:normaliser-is-length", good_len, "the normaliser is the length of the very success vector that is summed", node=tot[0][0].node)


def rule_nooffsetroute(ctx):
    """Shared with C03.FILTERIMPL / C03.KEYPARAM: the `no offset` entries reach their scorer with offset_ratio=None (the
    keyword router passes every accepted keyword with its own value, None included), so they are computed on a superset
    of the with-offset tolerance graph."""
    from . import c03

    for o in c03.rule_filterimpl(ctx):
        o.rule = "C07.NOOFFSETROUTE"
        yield o
    for o in c03.rule_keyparam(ctx):
        if "no_offset" in o.construct or "no offset" in o.construct.lower():
            o.rule = "C07.NOOFFSETROUTE"
            yield o


RULES = [
    ("C07.IMPULSETRAIN", 3, common.shared("c04", "rule_impulsetrain", "C07.IMPULSETRAIN")),
    ("C07.FRAMECOUNT", 4, common.shared("c05", "rule_framecount", "C07.FRAMECOUNT")),
    ("C07.CONTNORM", 2, rule_contnorm),
    ("C07.NOOFFSETROUTE", 12, rule_nooffsetroute),
    ("C07.EDGEPRED", 4, rule_edgepred),
    ("C07.THRESH", 33, rule_thresh),
    ("C07.STRICTFLAG", 10, rule_strictflag),
    ("C07.NESTEDCONJ", 4, rule_nestedconj),
    ("C07.MAXINCLUDES", 5, rule_maxincludes),
    ("C07.CHROMATWIN", 7, rule_chromatwin),
]

from . import common as _common_purity
RULES = RULES + _common_purity.purity_rules("C07")
RULES = RULES + _common_purity.bundle_rules("C07")
