"""C08 - scores ignore time origin, item order and segment label names (structural clauses)."""

from __future__ import annotations

from .. import terms as tm
from ..affine import Affine
from ..model import AnalysisError
from . import common
from .common import ob, need, call_name, is_lit, role_of, roles
from .. import symeval

PROP = "C08"
EXPLANATION = (
    "Static decision of C08's mechanisms: (AFFINE) in the metrics the property lists, every time-valued term is well-typed in an affine "
    "type system - times are points, windows are displacements; only point - point, point +/- displacement, comparisons between points and "
    "order/shape-preserving operations occur, never point * scalar, point + point or a point compared with an absolute number - so adding one "
    "constant to all times cannot change a score (validators and beat trimming are the property's own caveats; the explicit-duration PCS is "
    "excluded by the property); (EQONLY) segment and hierarchy label values reach the scores only through util.index_labels and then only "
    "through equality-class-preserving operations (np.equal.outer, np.unique, the contingency table, len), never ordering or arithmetic on the "
    "index values, which is sound for every bijective renaming; (ORDERINS) the unordered collections the property names are consumed only by "
    "order-insensitive operations (outer distances, column projections, symmetric reductions), never by positional subscripts, np.diff or "
    "slicing.  Order-independence of the maximum-matching size and exactness on the time lattice are not decided."
)
RULE_TEXT = "AFFINE: one obligation per function (all typed nodes of its return terms and branch conditions); EQONLY/ORDERINS: one per (function, collection)"

AFFINE_SPEC = {
    "beat.f_measure": (["reference_beats", "estimated_beats"], ["f_measure_threshold"]),
    "beat.cemgil": (["reference_beats", "estimated_beats"], ["cemgil_sigma"]),
    "beat.goto": (["reference_beats", "estimated_beats"], []),
    "beat.p_score": (["reference_beats", "estimated_beats"], []),
    "beat.continuity": (["reference_beats", "estimated_beats"], []),
    "beat.information_gain": (["reference_beats", "estimated_beats"], []),
    "beat._get_entropy": (["reference_beats", "estimated_beats"], []),
    "beat._get_reference_beat_variations": (["reference_beats"], []),
    "onset.f_measure": (["reference_onsets", "estimated_onsets"], ["window"]),
    "segment.detection": (["reference_intervals", "estimated_intervals"], ["window"]),
    "segment.deviation": (["reference_intervals", "estimated_intervals"], []),
    "util.match_events": (["ref", "est"], ["window"]),
    "util._fast_hit_windows": (["ref", "est"], ["window"]),
    "transcription.match_notes": (["ref_intervals", "est_intervals"], ["onset_tolerance", "offset_min_tolerance"]),
    "transcription.match_note_onsets": (["ref_intervals", "est_intervals"], ["onset_tolerance"]),
    "transcription.match_note_offsets": (["ref_intervals", "est_intervals"], ["offset_min_tolerance"]),
    "transcription.average_overlap_ratio": (["ref_intervals", "est_intervals"], []),
    "transcription.precision_recall_f1_overlap": (["ref_intervals", "est_intervals"], ["onset_tolerance", "offset_min_tolerance"]),
    "transcription.onset_precision_recall_f1": (["ref_intervals", "est_intervals"], ["onset_tolerance"]),
    "transcription.offset_precision_recall_f1": (["ref_intervals", "est_intervals"], ["offset_min_tolerance"]),
    "multipitch.metrics": (["ref_time", "est_time"], []),
    "multipitch.resample_multipitch": (["times", "target_times"], []),
    "alignment.absolute_error": (["reference_timestamps", "estimated_timestamps"], []),
    "alignment.percentage_correct": (["reference_timestamps", "estimated_timestamps"], ["window"]),
    "alignment.percentage_correct_segments": (["reference_timestamps", "estimated_timestamps"], []),
    "alignment.karaoke_perceptual_metric": (["reference_timestamps", "estimated_timestamps"], []),
    "pattern.standard_FPR": (["reference_patterns", "estimated_patterns"], []),
    "chord.evaluate": (["ref_intervals", "est_intervals"], []),
    "chord.directional_hamming_distance": (["reference_intervals", "estimated_intervals"], []),
    "chord.merge_chord_intervals": (["intervals"], []),
    "util.merge_labeled_intervals": (["x_intervals", "y_intervals"], []),
    "util.intervals_to_durations": (["intervals"], []),
}


def meet_label_uses(s, enc):
    """(compared?, other uses): the integer codes of a level's labels may only be compared for equality - all at once
    (np.equal.outer(enc, enc)) or pairwise (enc[i] == enc[j], enc[i] != enc[j]) - and counted (len, shape)."""
    compared = False
    other = []
    seen = set()
    for st in s.sites:
        if st.kind not in ("call", "cmp", "subscript", "div", "mutate", "return"):
            continue
        for key in ("term", "val", "key"):
            term = st.d.get(key)
            if term is None or not hasattr(term, "op") or term.id in seen:
                continue
            seen.add(term.id)
            for p in _parents(term, enc):
                if p.op == "call" and call_name(p) == "np.equal.outer":
                    compared = compared or list(p.a[1]) == [enc, enc]
                    continue
                if p.op == "call" and call_name(p) == "builtins.len":
                    continue
                if p.op == "attr" and p.a[1] in ("shape", "size"):
                    continue
                if p.op == "sub" and p.a[0] is enc:
                    bad_here = False
                    for q in _parents(term, p):
                        if q.op == "cmp" and q.a[0] in ("==", "!=") and all(z.op == "sub" and z.a[0] is enc for z in q.a[1:]):
                            compared = True
                        else:
                            bad_here = True
                            other.append(tm.show(q, 2))
                    continue
                other.append(tm.show(p, 2))
    # path conditions (`if enc[i] != enc[j]: continue`)
    for st in s.sites:
        for c, _p in symeval.pc_conds(st.pc):
            if c.id in seen:
                continue
            seen.add(c.id)
            for p in _parents(c, enc):
                if p.op == "sub" and p.a[0] is enc:
                    for q in _parents(c, p):
                        if q.op == "cmp" and q.a[0] in ("==", "!=") and all(z.op == "sub" and z.a[0] is enc for z in q.a[1:]):
                            compared = True
                        else:
                            other.append(tm.show(q, 2))
                elif not ((p.op == "call" and call_name(p) in ("np.equal.outer", "builtins.len")) or (p.op == "attr" and p.a[1] in ("shape", "size"))):
                    other.append(tm.show(p, 2))
    return compared, other


def rule_affine(ctx):
    R = "C08.AFFINE"
    for q, (pp, dp) in sorted(AFFINE_SPEC.items()):
        if symeval._resigned(ctx.program, q):
            continue  # a private helper with a new signature is evaluated inside its callers, which are typed themselves
        f = ctx.program.func(q, R)
        for p in pp + dp:
            need(p in f.all_params, R, "%s has no parameter %s" % (q, p))
        s = ctx.S.get(q)
        A = Affine(f, pp, dp)
        for r in s.returns:
            A.ty(r.term)
            for c, p, o in symeval.pc_conds_full(r.pc):
                if o != "raise":
                    A.ty(c)
        # decisions taken inside loops (accumulators, stores): their conditions are typed as well
        for m in s.by_kind("mutate"):
            for c, p, o in symeval.pc_conds_full(m.pc):
                if o != "raise":
                    A.ty(c)
        # values stored into results / passed on: every call argument that carries times
        for c in s.calls():
            if c.fn is not None and c.fn.op in ("func", "localfunc") and not (c.callee or "").split(".")[-1].startswith("validate"):
                for a in c.args:
                    A.ty(a)
        probs = []
        seen = set()
        for w, t in A.problems:
            if (w, t) not in seen:
                seen.add((w, t))
                probs.append("%s: %s" % (w, t))
        # alignment PCS: the explicit-duration branch mixes the absolute origin 0 with timestamps by design (excluded by the property)
        yield ob(R, f, "%s:time-typing" % q, not probs, ("%d typed nodes: only point - point, point +/- displacement, comparisons of like with like" % A.nodes) if not probs else "; ".join(probs[:3]))
    # p_score re-bases at the minimum beat before scaling to samples
    f = ctx.program.func("beat.p_score", R)
    s = ctx.S.get(f.qual)
    rebased = False
    for x in s.by_kind("call"):
        if x.callee == "np.ceil" and x.args:
            a = x.args[0]
            for z in tm.walk(a):
                if z.op == "bin" and z.a[0] == "-" and z.a[1].op == "param" and z.a[2].op == "call" and call_name(z.a[2]) == "builtins.min":
                    rebased = True
    yield ob(R, f, "beat.p_score:rebase", rebased, "beats are shifted by the minimum of both sequences before being quantised to samples")
    # trimming is the one documented absolute-time operation, applied by evaluate() only
    f = ctx.program.func("beat.trim_beats", R)
    s = ctx.S.get(f.qual)
    t = s.returns[0].term
    good = t.op == "sub" and t.a[1].op == "cmp" and t.a[1].a[0] == "<=" and t.a[1].a[1].op == "param" and t.a[1].a[1].a[0] == "min_beat_time"
    if not good:
        # any spelling C03.BEATTRIM accepts as "keeps exactly the beats >= min_beat_time"
        from . import c03

        try:
            good = all(o.ok for o in c03.rule_beattrim(ctx))
        except AnalysisError:
            good = False
    callers = sorted({g.qual for g in ctx.program.all_funcs() for c in ctx.S.get(g.qual).calls() if c.callee == "beat.trim_beats"})
    yield ob(R, f, "beat.trim_beats:only-in-evaluate", good and callers == ["beat.evaluate"], "beats >= min_beat_time are kept; the only caller is beat.evaluate (the property's stated caveat)")


LABEL_METRICS = ["segment.pairwise", "segment.rand_index", "segment.ari", "segment.mutual_information", "segment.nce"]
INDEX_FUNCS = ["segment._contingency_matrix", "segment._adjusted_rand_index", "segment._mutual_info_score", "segment._entropy", "segment._adjusted_mutual_info_score", "segment._normalized_mutual_info_score"]
EQ_CONSUMERS = {"np.equal.outer", "np.unique", "builtins.len", "segment._contingency_matrix", "segment._adjusted_rand_index", "segment._mutual_info_score", "segment._entropy", "segment._adjusted_mutual_info_score", "segment._normalized_mutual_info_score"}


def _uses(t, target, consumers):
    """Contexts in which ``target`` occurs inside ``t``: list of offending parent descriptions."""
    bad = []
    seen = set()

    def rec(x):
        if x.id in seen:
            return
        seen.add(x.id)
        if x is target:
            return
        kids = tm.children(x)
        for k in kids:
            if k is target:
                okk = x.op == "call" and call_name(x) in consumers and any(a is target for a in x.a[1])
                if not okk:
                    bad.append("%s" % tm.show(x, 2))
            else:
                rec(k)

    rec(t)
    return bad


def rule_eqonly(ctx):
    R = "C08.EQONLY"
    for q in LABEL_METRICS:
        f = ctx.program.func(q, R)
        s = ctx.S.get(q)
        main = [r for r in s.returns if not (is_lit(r.term) or (r.term.op == "tuple" and all(is_lit(x) for x in r.term.a)))]
        need(len(main) == 1, R, "%s: main return not found" % q)
        t = main[0].term
        # (1) raw labels reach the score only as argument 1 of intervals_to_samples, whose result only goes to index_labels
        lab_params = [p for p in f.params if "labels" in p]
        bad = []
        for p in lab_params:
            bad += _uses(t, tm.param(p), {"util.intervals_to_samples"})
        samp = [x for x in tm.walk(t) if x.op == "sub" and x.a[0].op == "call" and call_name(x.a[0]) == "util.intervals_to_samples"]
        for x in samp:
            bad += _uses(t, x, {"util.index_labels"})
        idx = [x for x in tm.walk(t) if x.op == "sub" and x.a[0].op == "call" and call_name(x.a[0]) == "util.index_labels" and tm.is_const(x.a[1], 0)]
        for x in idx:
            bad += _uses(t, x, EQ_CONSUMERS)
        good = not bad and len(idx) == 2 and len(samp) == 2
        yield ob(R, f, "%s:labels" % q, good, "labels -> intervals_to_samples -> index_labels -> only np.equal.outer / np.unique / contingency / len (no ordering, arithmetic or positional use of label indices)" if good else "label values are used by: %s" % "; ".join(sorted(set(bad))[:3]))
    for q in INDEX_FUNCS:
        f = ctx.program.func(q, R)
        s = ctx.S.get(q)
        params = [p for p in f.params if p.endswith("_indices") or p == "labels"]
        bad = []
        for r in s.returns:
            for p in params:
                bad += _uses(r.term, tm.param(p), EQ_CONSUMERS)
            for c, pol in symeval.pc_conds(r.pc):
                for p in params:
                    bad += _uses(c, tm.param(p), EQ_CONSUMERS)
        yield ob(R, f, "%s:indices" % q, not bad, "frame label indices are consumed only by np.unique / len / the contingency helpers" if not bad else "; ".join(sorted(set(bad))[:3]))
    # np.unique's sorted class values are used only for their count; the inverse (class index) only as table coordinates
    f = ctx.program.func("segment._contingency_matrix", R)
    s = ctx.S.get(f.qual)
    t = s.returns[0].term
    un = [x for x in tm.walk(t) if x.op == "call" and call_name(x) == "np.unique"]
    bad = []
    for u in un:
        for x in tm.walk(t):
            if x.op == "sub" and x.a[0] is u:
                k = x.a[1]
                if tm.is_const(k, 0):
                    bad += _uses(t, x, set()) if False else [p for p in _parents(t, x) if not (p.op == "attr" and p.a[1] == "shape") and not (p.op == "call" and call_name(p) == "builtins.len")]
    yield ob(R, f, "segment._contingency_matrix:classes", not bad, "the sorted class values are only counted (shape[0]); class membership enters through the inverse indices as table coordinates")
    # hierarchy._meet
    f = ctx.program.func("hierarchy._meet", R)
    s = ctx.S.get(f.qual)
    il = [c for c in s.calls() if c.callee == "util.index_labels"]
    need(len(il) == 1, R, "_meet: index_labels call not found")
    enc = tm.sub(il[0].term, tm.const(0))
    good, other = meet_label_uses(s, enc)
    yield ob(R, f, "hierarchy._meet:labels", good and not other, "level labels are indexed and compared only by np.equal.outer(lab, lab)" if good and not other else "label indices also used by %s" % sorted(set(other))[:3])


def _parents(t, target):
    out = []
    seen = set()

    def rec(x):
        if x.id in seen:
            return
        seen.add(x.id)
        for k in tm.children(x):
            if k is target:
                out.append(x)
            else:
                rec(k)

    rec(t)
    return out


ORDER_SPEC = [
    # (function, [unordered collection parameters])
    ("transcription.match_notes", ["ref_intervals", "ref_pitches", "est_intervals", "est_pitches"]),
    ("transcription.match_note_onsets", ["ref_intervals", "est_intervals"]),
    ("transcription.match_note_offsets", ["ref_intervals", "est_intervals"]),
    ("util.match_events", ["ref", "est"]),
    ("util._outer_distance_mod_n", ["ref", "est"]),
    ("tempo.detection", ["estimated_tempi"]),
    ("pattern.establishment_FPR", ["reference_patterns"]),
    ("pattern.occurrence_FPR", ["reference_patterns"]),
    ("pattern.three_layer_FPR", ["reference_patterns"]),
    ("pattern.standard_FPR", ["reference_patterns"]),
]


def _positional_uses(t, target):
    """Order-sensitive consumers of ``target`` inside ``t``."""
    bad = []
    for p in _parents(t, target):
        if p.op == "sub":
            idx = p.a[1]
            if idx.op == "tuple" and idx.a and idx.a[0].op == "slice" and all(tm.is_const(z, None) for z in idx.a[0].a):
                continue  # column projection x[:, k]
            if idx.op in ("iter", "idx") or (idx.op == "sub" and idx.a[0].op == "iter"):
                continue  # indexed by a loop variable / a matched pair
            if idx.op == "call" and call_name(idx) in ("np.argsort",):
                continue
            if idx.op in ("cmp", "bool") or (idx.op == "call" and call_name(idx) in ("np.logical_and", "np.logical_or", "np.where", "np.flatnonzero")):
                continue
            bad.append("positional subscript %s" % tm.show(p, 2))
        elif p.op == "call":
            n = call_name(p)
            if n in ("np.diff", "np.cumsum", "np.searchsorted", "np.interp", "np.correlate"):
                if n == "np.searchsorted" and p.a[1] and p.a[1][0] is target:
                    bad.append("searchsorted on the collection itself")
                elif n != "np.searchsorted":
                    bad.append("%s of the collection" % n)
    return bad


def rule_orderins(ctx):
    R = "C08.ORDERINS"
    for q, params in ORDER_SPEC:
        if symeval._resigned(ctx.program, q):
            continue
        f = ctx.program.func(q, R)
        s = ctx.S.get(q)
        for p in params:
            need(p in f.all_params, R, "%s has no parameter %s" % (q, p))
            bad = []
            for r in s.returns:
                bad += _positional_uses(r.term, tm.param(p))
            yield ob(R, f, "%s:%s" % (q, p), not bad, "%s is consumed only by order-insensitive operations (outer distances, column projections, loops feeding symmetric reductions)" % p if not bad else "; ".join(sorted(set(bad))[:3]))
    # the sorted-window enumerator sorts the collection before searching it
    f = ctx.program.func("util._fast_hit_windows", R)
    s = ctx.S.get(f.qual)
    ss = [c for c in s.calls() if c.callee == "np.searchsorted"]
    good = bool(ss) and all(c.args[0].op == "sub" and c.args[0].a[1].op == "call" and call_name(c.args[0].a[1]) == "np.argsort" for c in ss)
    yield ob(R, f, "util._fast_hit_windows:sorts-first", good, "the reference is sorted (argsort) before the window search, and indices are mapped back (C05.INDEXSPACE)")
    # multipitch frames: frequencies inside a frame only go to the matcher and to .size
    f = ctx.program.func("multipitch.compute_num_true_positives", R)
    s = ctx.S.get(f.qual)
    me = [c for c in s.calls() if c.callee == "util.match_events"]
    good = len(me) == 2 and all(a.op == "iter" for c in me for a in c.args[:2])
    yield ob(R, f, "multipitch.compute_num_true_positives:frames", good, "each frame's frequencies are handed whole to util.match_events (no positional access)")
    # ... and nothing else in the function (guards, shortcuts) reads a frame by position
    pos = []
    seen = set()

    def scan(t):
        for x in tm.walk(t):
            if x.id in seen:
                continue
            seen.add(x.id)
            if x.op == "sub" and x.a[0].op == "iter" and x.a[0].a[0].op == "param" and x.a[0].a[0].a[0] in ("ref_freqs", "est_freqs"):
                pos.append(tm.show(x, 3))

    for st in s.sites:
        for v in st.d.values():
            if isinstance(v, tm.T):
                scan(v)
            elif isinstance(v, (list, tuple)):
                for z in v:
                    if isinstance(z, tm.T):
                        scan(z)
        for c, _p in symeval.pc_conds(st.pc):
            scan(c)
    yield ob(R, f, "multipitch.compute_num_true_positives:no-positional-frame-access", not pos, "no element of a frame is read by position" if not pos else "frame elements are read by position (%s): the result depends on the order of the frequencies inside a frame" % ", ".join(sorted(set(pos))[:3]))
    # pattern.standard_FPR: the verdict for one reference pattern does not depend on earlier iterations
    f = ctx.program.func("pattern.standard_FPR", R)
    s = ctx.S.get(f.qual)
    carried = set()
    for st in s.sites:
        if not any(x[0] == "loop" for x in st.pc):
            continue
        for c, _p in symeval.pc_conds(st.pc):
            for x in tm.walk(c):
                if x.op == "loopvar":
                    carried.add(x.a[1])
    # state that is written in the loop matters only if a decision reads it back (then it is in `carried`); a list that
    # merely collects the per-pattern verdicts is not a decision input
    muts = sorted({m.root or "?" for m in s.by_kind("mutate") if m.how != "aug" and any(x[0] == "loop" for x in m.pc) and (m.root in carried or m.root is None)})
    yield ob(R, f, "pattern.standard_FPR:no-loop-carried-decision", not carried and not muts, "whether a reference pattern is found depends only on that pattern and the set of estimated patterns" if not carried and not muts else "the match decision reads state carried over from earlier iterations (%s): the count depends on the order of the pattern lists" % ", ".join(sorted(carried | set(muts))))
    # pattern: every reference pattern is visited and the per-pattern results are reduced symmetrically
    for q in ("pattern.establishment_FPR", "pattern.occurrence_FPR"):
        f = ctx.program.func(q, R)
        s = ctx.S.get(q)
        loops = [it for lid, (node, it) in s.loops.items() if it.op == "call" and call_name(it) == "builtins.enumerate" and it.a[1][0].op == "param" and it.a[1][0].a[0] == "reference_patterns"]
        yield ob(R, f, "%s:visits-all-reference-patterns" % q, len(loops) == 1, "the reference pattern list is traversed completely (enumerate(reference_patterns))")


def rule_genreuse(ctx):
    """A generator expression bound to a name is consumed by its first traversal.  Iterating it inside a loop or
    comprehension entered after it was created (or a second time) silently sees nothing from the second pass on, so the
    result depends on which element of the outer collection comes first - an order dependence no permutation-blind
    formula survives."""
    R = "C08.GENREUSE"
    n = 0
    for f in ctx.program.all_funcs(include_new=True):
        if f.module.name in ("sonify", "display"):
            continue
        s = ctx.S.get(f.qual)
        for g in s.by_kind("gen_reuse"):
            n += 1
            yield ob(R, f, "%s:generator[%s]" % (f.qual, g.name), False, "the generator %s is traversed %s: from the second traversal on it is empty" % (g.name, "inside a loop / comprehension entered after it was created" if g.nested else "more than once"), node=g.node)
    yield ob(R, "mir_eval/", "package:generators-consumed-once", True, "every generator object held in a variable is traversed once (%d re-traversals reported)" % n)


def rule_labelcanon(ctx):
    """Shared with C16.CASEFOLD: label identity is equality of str(label).lower(); a bijective renaming that keeps
    labels distinct keeps them distinct after canonicalisation only if nothing else is normalised away."""
    from . import c16

    yield from c16.fold_exact(ctx, "C08.LABELCANON")


def rule_labellist(ctx):
    from . import c13

    for o in c13.rule_labellist(ctx, rule="C08.LABELLIST"):
        yield o


def rule_shiftshared(ctx):
    """Shared obligations that a common time shift / a reordering relies on: onset and offset *distances* are rounded,
    never the absolute times (C04.ROUNDING); tempo hits are per reference tempo, the minimum taken over the estimates
    (C04.TEMPOFORM); chord.evaluate scores the reference on its own span - only the estimate is padded or cropped to
    it, nothing is anchored at an absolute time (C12.PIPELINE)."""
    from . import c04, c12

    for o in c04.rule_rounding(ctx):
        o.rule = "C08.SHIFTSHARED"
        yield o
    for o in c04.rule_tempoform(ctx):
        o.rule = "C08.SHIFTSHARED"
        yield o
    for o in c12.rule_pipeline(ctx):
        if o.construct in ("chord.evaluate:reference-not-adjusted", "chord.evaluate:adjust-estimate"):
            o.rule = "C08.SHIFTSHARED"
            yield o


def rule_nonetruth(ctx):
    """time origin: an optional time bound that is tested by its truth value behaves differently at exactly 0.0"""
    from . import common as _c

    yield from _c.rule_nonetruth(ctx, "C08.NONETRUTH", ("beat.py", "onset.py", "transcription.py", "multipitch.py", "alignment.py", "pattern.py", "chord.py", "segment.py", "hierarchy.py", "tempo.py", "util.py"))




def _labelcolumn():
    from . import common as _c

    return _c.shared("c20", "rule_converters", "C08.LABELCOLUMN", keep=lambda o: o.construct == "io.load_delimited:split")


def rule_allitems(ctx):
    """A score that is a sum / count over all items of an annotation visits every item: the loop over the reference
    patterns of pattern.standard_FPR (and over the frames / variations of the other list-driven metrics) has no `break`
    or `return` of its own - an early stop makes the result depend on where in the list the stopping item sits."""
    import ast

    R = "C08.ALLITEMS"
    n = 0
    for q, itname in (("pattern.standard_FPR", "reference_patterns"), ("pattern.occurrence_FPR", None), ("pattern.three_layer_FPR", None), ("multipitch.compute_num_true_positives", None), ("multipitch.compute_num_freqs", None)):
        if not ctx.program.has_func(q):
            continue
        f = ctx.program.func(q, R)
        for loop in ast.walk(f.node):
            if not isinstance(loop, ast.For):
                continue
            it = ast.unparse(loop.iter)
            if itname is not None and itname not in it:
                continue
            if itname is None and not any(isinstance(x, ast.Name) and x.id in f.params for x in ast.walk(loop.iter)):
                continue

            def own(node):
                for ch in ast.iter_child_nodes(node):
                    if isinstance(ch, (ast.For, ast.While, ast.FunctionDef, ast.Lambda)):
                        continue
                    if isinstance(ch, (ast.Break, ast.Return)):
                        yield ch
                    yield from own(ch)

            stops = list(own(loop))
            n += 1
            yield ob(R, f, "%s:loop@%d" % (q, n), not stops, "the loop over %s visits every item" % it[:40] if not stops else "the loop over %s can stop early (line %d): items listed after the stopping one are never scored, so the result depends on their order" % (it[:40], stops[0].lineno), node=loop)
    need(n >= 1, R, "only %d item loops found" % n)


RULES = [
    ("C08.FIRSTN", 4, common.shared("c04", "rule_firstn", "C08.FIRSTN")),
    ("C08.ALLITEMS", 2, rule_allitems),
    ("C08.LABELCOLUMN", 1, _labelcolumn()),
    ("C08.NONETRUTH", 5, rule_nonetruth),
    ("C08.GENREUSE", 1, rule_genreuse),
    ("C08.SHIFTSHARED", 10, rule_shiftshared),
    ("C08.LABELCANON", 1, rule_labelcanon),
    ("C08.LABELLIST", 7, rule_labellist),
    ("C08.AFFINE", 30, rule_affine),
    ("C08.EQONLY", 12, rule_eqonly),
    ("C08.ORDERINS", 20, rule_orderins),
]

from . import common as _common_purity
RULES = RULES + _common_purity.purity_rules("C08")
RULES = RULES + _common_purity.bundle_rules("C08")
