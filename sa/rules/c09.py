"""C09 - pitch spelling, joint transposition and octave are handled as documented (structural clauses)."""

from __future__ import annotations

from .. import terms as tm
from .. import oracles
from ..constfold import table
from ..model import AnalysisError
from .common import ob, need, call_name, is_lit, lit, role_of, roles, resolve_ite_free
from .. import symeval
from . import c04, c07, c10, c11, c12, common

PROP = "C09"
EXPLANATION = (
    "Static decision of C09's mechanisms: (PITCHTABLES) note-name tables are letter arithmetic mod 12 and pitch_class_to_semitone adds +1 per "
    "'#', -1 per 'b' and reduces mod 12, so enharmonic spellings share a number; (ROOTEQONLY) encoded chord roots are consumed only by "
    "mirror equality, sentinel tests and the rotation of a side's own bitmap, bitmaps being root-relative, so a joint transposition cannot "
    "change a comparison; consecutive chords are merged on the encoded triple, not on spelling; (KEYDIFFONLY) key numbers are used only in "
    "equality, `is None` and (est - ref) % 12 == const; (LOGPITCH) frequencies enter melody, multipitch and transcription scores only as "
    "differences of log-frequency (cents / MIDI), besides the unvoiced marker and validators; (MODFOLD) octave equivalence is np.mod(., 12) "
    "with the mod-12 wrapped distance, and 1200*floor(d/1200 + 0.5) in melody; (NONINTERF) raw pitch and raw chroma accuracy do not depend "
    "on the estimate's voicing, resampled frequencies do not depend on the voicing series, and pitch is taken from |f| with voicing from its "
    "sign.  Rounding effects near the tolerance and resampling effects are not decided."
)
RULE_TEXT = "one obligation per table / per use-context of roots and key numbers / per pitch-difference site / per non-interference pair"


def rule_pitchtables(ctx):
    R = "C09.PITCHTABLES"
    for o in c10.rule_tables(ctx):
        if o.construct in ("chord.PITCH_CLASSES", "chord.SCALE_DEGREES"):
            o.rule = R
            yield o
    for o in c04.rule_keytable(ctx):
        if o.construct == "key.KEY_TO_SEMITONE":
            o.rule = R
            yield o
    f = ctx.program.func("chord.pitch_class_to_semitone", R)
    s = ctx.S.get(f.qual)
    main = [r for r in s.returns if not is_lit(r.term)]
    # a table of precomputed spellings in front of the character walk: every entry must be what the walk computes
    # (letter + sharps - flats, reduced mod 12)
    looked_up = []
    for r in list(main):
        t0 = r.term
        tab = None
        if t0.op == "call" and call_name(t0) == ".get" and len(t0.a[1]) == 2 and t0.a[1][0].op == "glob" and t0.a[1][1].op == "param":
            tab = t0.a[1][0]
        elif t0.op == "sub" and t0.a[0].op == "glob" and t0.a[1].op == "param":
            tab = t0.a[0]
        if tab is not None:
            main.remove(r)
            looked_up.append((r, tab))
    for r, tab in looked_up:
        from ..constfold import table as _table
        from .. import oracles as _or

        vals = _table(ctx, tab.a[0], R)
        need(isinstance(vals, dict) and vals, R, "pitch_class_to_semitone: the look-up table %s is not a table of constants" % tab.a[0])
        letters = dict(zip("CDEFGAB", _or.MAJOR_SCALE))
        bad = []
        for k_, v_ in sorted(vals.items(), key=lambda kv: str(kv[0])):
            exp = None
            if isinstance(k_, str) and k_[:1] in letters and set(k_[1:]) <= {"#", "b"}:
                exp = (letters[k_[0]] + k_[1:].count("#") - k_[1:].count("b")) % 12
            if exp is None or v_ != exp:
                bad.append("%r -> %r (the character walk gives %s)" % (k_, v_, exp if exp is not None else "an error"))
        yield ob(R, f, "chord.pitch_class_to_semitone:table:%s" % tab.a[0], not bad, "every precomputed entry of %s equals letter + sharps - flats mod 12" % tab.a[0] if not bad else "precomputed entries differ from the spelled-out computation: %s" % "; ".join(bad[:4]), node=r.node)
    need(len(main) == 1, R, "pitch_class_to_semitone: single computed return expected")
    lits_ok = all(isinstance(lit(r.term), (int, float)) and 0 <= lit(r.term) < 12 for r in s.returns if is_lit(r.term))
    if not lits_ok:
        yield ob(R, f, "chord.pitch_class_to_semitone:mod12", False, "a literal return lies outside 0..11")
    t = main[0].term
    mod = t.op == "bin" and t.a[0] == "%" and tm.is_const(t.a[2], 12)
    yield ob(R, f, "chord.pitch_class_to_semitone:mod12", mod, "the result is reduced mod 12 (B# == C, Cb == B)")
    body = t.a[1] if mod else t
    sharp = flat = base = False
    # read from the update sites: `+= 1` where the current character is '#', `-= 1` where it is 'b' (whatever the
    # arrangement of the tests around them), and the letter looked up in PITCH_CLASSES
    from .common import facts as _facts

    def _leaves(t, conds):
        if t.op == "ite":
            yield from _leaves(t.a[1], conds + [(t.a[0], True)])
            yield from _leaves(t.a[2], conds + [(t.a[0], False)])
        else:
            yield t, conds

    for m in s.by_kind("mutate"):
        if m.how == "aug" and m.val.op == "ite" and m.key is not None and m.key.op == "const" and m.key.a[0] == "+":
            # semitone += step with step looked up from the character: +1 under '#', -1 under 'b'
            for leaf, conds in _leaves(m.val, []):
                chars = set()
                for c, pol in conds:
                    if pol and c.op == "cmp" and c.a[0] == "==" and any(z.op == "const" and z.a[0] in ("#", "b") for z in c.a[1:]) and any(z.op == "iter" for z in c.a[1:]):
                        chars.add([z.a[0] for z in c.a[1:] if z.op == "const"][0])
                if chars == {"#"} and tm.is_const(leaf, 1):
                    sharp = True
                if chars == {"b"} and tm.is_const(leaf, -1):
                    flat = True
            continue
        if m.how != "aug" or not tm.is_const(m.val, 1):
            continue
        op = m.key.a[0] if m.key is not None and m.key.op == "const" else None
        chars = set()
        for c, pol in _facts(m.pc):
            if symeval.holds(c, pol, "==") and any(z.op == "const" and z.a[0] in ("#", "b") for z in c.a[1:]) and any(z.op == "iter" for z in c.a[1:]):
                chars.add([z.a[0] for z in c.a[1:] if z.op == "const"][0])
        if chars == {"#"} and op == "+":
            sharp = True
        if chars == {"b"} and op == "-":
            flat = True
    for x in tm.walk(body):
        if x.op == "call" and call_name(x) == ".get" and x.a[1][0].op == "glob" and x.a[1][0].a[0] == "chord.PITCH_CLASSES":
            base = True
    yield ob(R, f, "chord.pitch_class_to_semitone:accidentals", sharp and flat and base, "each '#' adds 1, each 'b' subtracts 1, the letter comes from PITCH_CLASSES")
    g = ctx.program.func("key.split_key_string", R)
    sg = ctx.S.get(g.qual)
    def _lookup_ok(t):
        if not (t.op == "tuple" and t.a and t.a[0].op == "sub" and t.a[0].a[0].op == "glob" and t.a[0].a[0].a[0] == "key.KEY_TO_SEMITONE"):
            return False
        k = t.a[0].a[1]
        # the lower-cased name, or a literal that is already lower case
        return any(x.op == "call" and call_name(x) == ".lower" for x in tm.walk(k)) or (k.op == "const" and isinstance(k.a[0], str) and k.a[0] == k.a[0].lower())

    good = bool(sg.returns) and all(_lookup_ok(r.term) for r in sg.returns)
    yield ob(R, g, "key.split_key_string:lookup", good, "the key number is KEY_TO_SEMITONE[name.lower()]")


COMPARISONS = ["thirds", "thirds_inv", "triads", "triads_inv", "tetrads", "tetrads_inv", "root", "majmin", "majmin_inv", "sevenths", "sevenths_inv", "mirex"]


def rule_rooteqonly(ctx):
    R = "C09.ROOTEQONLY"
    for name in COMPARISONS:
        f = ctx.program.func("chord." + name, R)
        s = ctx.S.get(f.qual)
        need(len(s.returns) == 1, R, "chord.%s: single return expected" % name)
        t = s.returns[0].term
        bad = []
        n = 0
        for x in tm.walk(t):
            for k in tm.children(x):
                fa = c11.facet_of(k)
                if fa is None or fa[1] != "ROOT":
                    continue
                n += 1
                okk = False
                if x.op == "cmp" and x.a[0] == "==":
                    other = x.a[2] if x.a[1] is k else x.a[1]
                    fo = c11.facet_of(other)
                    okk = (fo is not None and fo[1] == "ROOT" and role_of(fo[0]) != role_of(fa[0])) or tm.is_const(other, -1)
                elif x.op == "cmp" and x.a[0] == "<" and x.a[1] is k and tm.is_const(x.a[2], 0):
                    okk = True  # sentinel: no root
                elif x.op == "call" and call_name(x) == "chord.rotate_bitmaps_to_roots" and len(x.a[1]) == 2 and x.a[1][1] is k:
                    fb = c11.facet_of(x.a[1][0])
                    okk = fb is not None and fb[1] == "SEMIall" and fb[0] == fa[0]
                if not okk:
                    bad.append(tm.show(x, 2))
        yield ob(R, f, "chord.%s:root-uses" % name, not bad and n >= 1, "%d uses of an encoded root: mirror equality, sentinel test, or rotation of the same side's bitmap" % n if not bad else "root number used by %s" % sorted(set(bad))[:3])
    # bitmaps are root-relative: encode() adds scale degrees relative to the root and never uses root_number in the bitmap
    f = ctx.program.func("chord.encode", R)
    s = ctx.S.get(f.qual)
    normal = [r for r in s.returns if r.term.op == "tuple"]
    need(normal, R, "chord.encode: normal return not found")
    rt, bm, bs = normal[0].term.a
    indep = not any(x is rt for x in tm.walk(bm)) and not any(x is rt for x in tm.walk(bs))
    yield ob(R, f, "chord.encode:root-relative", indep, "bitmap and bass are computed without the root number (intervals relative to the root)")
    # rotation: (idx + root) % 12
    g = ctx.program.func("chord.rotate_bitmap_to_root", R)
    sg = ctx.S.get(g.qual)
    def _rot(x):
        return x.op == "bin" and x.a[0] == "%" and tm.is_const(x.a[2], 12) and x.a[1].op == "bin" and x.a[1].a[0] == "+" and any(z.op == "param" and z.a[0] == "chord_root" for z in (x.a[1].a[1], x.a[1].a[2])) and any(y.op == "call" and call_name(y) in ("np.nonzero", "np.where") for y in tm.walk(x))

    rot = False
    for st in sg.sites:
        if st.kind != "mutate":
            continue
        for fld in ("val", "key"):
            v = st.d.get(fld)
            if isinstance(v, tm.T) and any(_rot(x) for x in tm.walk(v)):
                rot = True
    yield ob(R, g, "chord.rotate_bitmap_to_root:mod12", rot, "active semitones are moved to (index + root) % 12")
    # merging neighbours uses the encoding, not the label text (shared with C12)
    for o in c12.rule_segmerge(ctx):
        if o.construct.endswith("fusion-condition") or o.construct.endswith(":encoding"):
            o.rule = R
            yield o


def rule_keydiffonly(ctx):
    R = "C09.KEYDIFFONLY"
    f = ctx.program.func("key.weighted_score", R)
    s = ctx.S.get(f.qual)
    bad = []
    n = 0
    conds = {c for r in s.returns for c, p in symeval.pc_conds(r.pc)}
    for c in conds:
        for x in tm.walk(c):
            for k in tm.children(x):
                if not c04._is_keynum(k, "R") and not c04._is_keynum(k, "E"):
                    continue
                n += 1
                okk = False
                if x.op == "cmp" and x.a[0] in ("==", "is", "isnot"):
                    okk = True
                elif x.op == "bin" and x.a[0] == "-":
                    # (est - ref) must be reduced mod 12 and compared with a constant
                    okk = any(p.op == "bin" and p.a[0] == "%" and p.a[1] is x and tm.is_const(p.a[2], 12) for p in tm.walk(c))
                if not okk:
                    bad.append(tm.show(x, 2))
    ret_lit = all(is_lit(r.term) for r in s.returns)
    if bad or n < 6 or not ret_lit:
        # decide the clause itself on the evaluated decision table: transposing both keys by t leaves the score unchanged
        tab = c04.key_decision_table(ctx)
        if tab is None:
            raise AnalysisError(R, "weighted_score: key numbers are used outside ==, `is None`, (est - ref) % 12 and the decision table cannot be evaluated")
        viol = None
        for (rk, rm, ek, em), v in tab.items():
            if rk is None or ek is None:
                continue
            for t in range(1, 12):
                if tab[((rk + t) % 12, rm, (ek + t) % 12, em)] != v:
                    viol = ((rk, rm), (ek, em), t, v, tab[((rk + t) % 12, rm, (ek + t) % 12, em)])
                    break
            if viol:
                break
        yield ob(R, f, "key.weighted_score:key-number-uses", viol is None, "evaluated on all %d key pairs: transposing both keys by any number of semitones leaves the score unchanged" % len(tab) if viol is None else "weighted_score(ref=%s, est=%s) = %s but after transposing both keys by %d semitones it is %s" % (viol[0], viol[1], viol[3], viol[2], viol[4]))
        yield ob(R, f, "key.weighted_score:score-independent-of-number", viol is None, "the score depends on the key numbers only through their difference mod 12 (decision table)")
        return
    yield ob(R, f, "key.weighted_score:key-number-uses", not bad and n >= 6, "%d uses of a key number: equality, `is None`, or (est - ref) %% 12 == const" % n if not bad else "key number used by %s" % sorted(set(bad))[:3])
    ret_lit = all(is_lit(r.term) for r in s.returns)
    yield ob(R, f, "key.weighted_score:score-independent-of-number", ret_lit, "returned scores are constants (they depend on the keys only through the tests above)")


def _log_leaf(t):
    """Is t a log-frequency quantity built from a frequency parameter?  (np.log2(f), hz2cents(f), 69 + 12*log2(f/ref))"""
    return any(x.op == "call" and call_name(x) == "np.log2" for x in tm.walk(t))


def rule_logpitch(ctx):
    R = "C09.LOGPITCH"
    # transcription: pitches only as log2 outer difference
    f = ctx.program.func("transcription.match_notes", R)
    s = ctx.S.get(f.qual)
    t = s.returns[0].term
    bad = []
    n = 0
    for p in ("ref_pitches", "est_pitches"):
        pt = tm.param(p)
        for x in tm.walk(t):
            if any(k is pt for k in tm.children(x)):
                n += 1
                if not (x.op == "call" and call_name(x) == "np.log2"):
                    bad.append(tm.show(x, 2))
    lg = [x for x in tm.walk(t) if x.op == "call" and call_name(x) == "np.log2"]
    outer = all(any(p.op == "call" and call_name(p) == "np.subtract.outer" and any(a is x for a in p.a[1]) for p in tm.walk(t)) for x in lg)
    yield ob(R, f, "transcription.match_notes:pitch-as-log-difference", not bad and n == 2 and outer, "pitches enter only as np.subtract.outer(log2(ref_pitches), log2(est_pitches)) (x 1200 cents)")
    scale = any(x.op == "bin" and x.a[0] == "*" and any(tm.is_const(z, 1200) for z in (x.a[1], x.a[2])) and any(z.op == "call" and call_name(z) == "np.subtract.outer" for z in (x.a[1], x.a[2])) for x in tm.walk(t))
    yield ob(R, f, "transcription.match_notes:cents", scale, "the log2 difference is scaled by 1200 (cents)")
    # multipitch: frequencies -> midi by 69 + 12*log2(f/ref); only the matcher (differences) and .size see them
    g = ctx.program.func("multipitch.frequencies_to_midi", R)
    sg = ctx.S.get(g.qual)
    tt = sg.returns[0].term
    good = tt.op == "comp" and tt.a[1].op == "bin" and tt.a[1].a[0] == "+" and any(tm.is_const(z, 69) for z in (tt.a[1].a[1], tt.a[1].a[2]))
    inner = [z for z in (tt.a[1].a[1], tt.a[1].a[2]) if not tm.is_const(z, 69)][0] if good else None
    good = good and inner.op == "bin" and inner.a[0] == "*" and any(tm.is_const(z, 12) for z in (inner.a[1], inner.a[2])) and any(z.op == "call" and call_name(z) == "np.log2" and z.a[1][0].op == "bin" and z.a[1][0].a[0] == "/" for z in (inner.a[1], inner.a[2]))
    yield ob(R, g, "multipitch.frequencies_to_midi:form", good, "midi = 69 + 12 * log2(f / ref_frequency)")
    h = ctx.program.func("multipitch.metrics", R)
    sh = ctx.S.get(h.qual)
    midi = [c for c in sh.calls() if c.callee == "multipitch.frequencies_to_midi"]
    uses_ok = True
    for c in midi:
        for other in sh.calls():
            if other is c:
                continue
            for a in other.args:
                if a is c.term and other.callee not in ("multipitch.midi_to_chroma", "multipitch.compute_num_freqs", "multipitch.compute_num_true_positives"):
                    uses_ok = False
    yield ob(R, h, "multipitch.metrics:midi-uses", len(midi) == 2 and uses_ok, "MIDI values go only to the matcher (differences), the chroma fold and the per-frame count")
    # melody: cents only as ref_cent - est_cent and as the `!= 0` unvoiced marker
    for q in ("melody.raw_pitch_accuracy", "melody.raw_chroma_accuracy", "melody.overall_accuracy"):
        f = ctx.program.func(q, R)
        s = ctx.S.get(q)
        main = [r for r in s.returns if not is_lit(r.term)]
        need(len(main) == 1, R, "%s: main return not found" % q)
        t = main[0].term
        bad = []
        rc, ec = tm.param("ref_cent"), tm.param("est_cent")
        for x in tm.walk(t):
            kids = tm.children(x)
            for k in kids:
                if k is rc or k is ec:
                    okk = (x.op == "bin" and x.a[0] == "-" and {x.a[1], x.a[2]} == {rc, ec}) or (x.op == "cmp" and x.a[0] in ("!=", "==") and any(tm.is_const(z, 0) for z in (x.a[1], x.a[2])))
                    # the number of frames is not a pitch value
                    okk = okk or (x.op == "attr" and x.a[1] in ("size", "shape")) or (x.op == "call" and call_name(x) == "builtins.len")
                    if not okk:
                        bad.append(tm.show(x, 2))
        yield ob(R, f, "%s:cents-as-difference" % q, not bad, "cent values are used only in ref_cent - est_cent and in the `!= 0` unvoiced test" if not bad else "cent value used by %s" % sorted(set(bad))[:3])
    g = ctx.program.func("melody.hz2cents", R)
    sg = ctx.S.get(g.qual)
    st = [m for m in sg.by_kind("mutate") if m.how == "setitem"]
    good = False
    for m in st:
        v = m.val
        if v.op == "bin" and v.a[0] == "*" and any(tm.is_const(z, 1200) for z in (v.a[1], v.a[2])):
            lgs = [z for z in (v.a[1], v.a[2]) if z.op == "call" and call_name(z) == "np.log2"]
            if lgs:
                arg = lgs[0].a[1][0]
                good = arg.op == "bin" and arg.a[0] == "/" and arg.a[1].op == "call" and call_name(arg.a[1]) == "np.abs" and arg.a[2].op == "param" and arg.a[2].a[0] == "base_frequency"
    yield ob(R, g, "melody.hz2cents:form", good, "cents = 1200 * log2(|f| / base_frequency) for non-zero frequencies, 0 otherwise")


def rule_modfold(ctx):
    R = "C09.MODFOLD"
    for o in c07.rule_chromatwin(ctx):
        o.rule = R
        yield o
    f = ctx.program.func("util._outer_distance_mod_n", R)
    okd, dv = f.default_value("modulus")
    yield ob(R, f, "util._outer_distance_mod_n:modulus", okd and dv == 12, "default modulus 12 (semitones per octave), same unit as midi_to_chroma's np.mod(., 12)")


def rule_noninterf(ctx):
    R = "C09.NONINTERF"
    for q in ("melody.raw_pitch_accuracy", "melody.raw_chroma_accuracy"):
        f = ctx.program.func(q, R)
        s = ctx.S.get(q)
        dep = set()
        for r in s.returns:
            dep |= tm.params_of(r.term)
            for c, p, o in symeval.pc_conds_full(r.pc):
                if o != "raise":
                    dep |= tm.params_of(c)
        yield ob(R, f, "%s:independent-of-est_voicing" % q, "est_voicing" not in dep, "the score and its exits do not depend on est_voicing (only the validators see it); depends on %s" % sorted(dep))
    f = ctx.program.func("melody.resample_melody_series", R)
    s = ctx.S.get(f.qual)
    main = [r for r in s.returns if r.term.op == "tuple" and not all(x.op == "param" for x in r.term.a)]
    need(len(main) == 1, R, "resample_melody_series: main return not found")
    fr = main[0].term.a[0]
    yield ob(R, f, "melody.resample_melody_series:frequencies-independent-of-voicing", "voicing" not in tm.params_of(fr), "resampled frequencies are a function of times, frequencies, times_new and kind only - not of the voicing series")
    g = ctx.program.func("melody.freq_to_voicing", R)
    sg = ctx.S.get(g.qual)
    need(len(sg.returns) == 1 and sg.returns[0].term.op == "tuple", R, "freq_to_voicing: (frequencies, voicing) expected")
    fq, vc = sg.returns[0].term.a
    good = fq.op == "call" and call_name(fq) == "np.abs" and fq.a[1][0].op == "param" and fq.a[1][0].a[0] == "frequencies"
    yield ob(R, g, "melody.freq_to_voicing:magnitude", good, "returned frequencies are |frequencies|")
    sign = any(x.op == "cmp" and x.a[0] == "<" and tm.is_const(x.a[1], 0) and x.a[2].op == "param" and x.a[2].a[0] == "frequencies" for x in tm.walk(vc))
    yield ob(R, g, "melody.freq_to_voicing:sign", sign, "default voicing is (frequencies > 0)")
    # with an explicit voicing array only frames whose frequency is exactly 0 are forced unvoiced ("voicing inferred by
    # negative frequency values is ignored")
    zs = [m for m in sg.by_kind("mutate") if m.how == "setitem" and m.key is not None and "frequencies" in tm.params_of(m.key)]
    if zs:
        k = zs[0].key
        exact = k.op == "cmp" and k.a[0] == "==" and any(tm.is_const(z, 0) for z in k.a[1:]) and any(z.op == "param" and z.a[0] == "frequencies" for z in k.a[1:]) and tm.is_const(zs[0].val, 0)
        yield ob(R, g, "melody.freq_to_voicing:explicit-voicing", exact and len(zs) == 1, "a given voicing is zeroed exactly where frequencies == 0" if exact and len(zs) == 1 else "a given voicing is zeroed where %s: frames with a negative frequency lose the voicing the caller supplied, although the sign is documented to be ignored then" % tm.show(k, 3), node=zs[0].node)
    h = ctx.program.func("melody.hz2cents", R)
    sh = ctx.S.get(h.qual)
    absd = any(x.op == "call" and call_name(x) == "np.abs" for m in sh.by_kind("mutate") for x in tm.walk(m.val))
    yield ob(R, h, "melody.hz2cents:magnitude", absd, "cents are computed from |freq_hz|")
    # to_cent_voicing feeds freq_to_voicing's magnitude into hz2cents for both sides
    k = ctx.program.func("melody.to_cent_voicing", R)
    sk = ctx.S.get(k.qual)
    hz = [c for c in sk.calls() if c.callee == "melody.hz2cents"]
    good = len(hz) == 2 and all(c.args[0].op == "sub" and tm.is_const(c.args[0].a[1], 0) and c.args[0].a[0].op == "call" and call_name(c.args[0].a[0]) == "melody.freq_to_voicing" for c in hz)
    yield ob(R, k, "melody.to_cent_voicing:pipeline", good, "both sides: hz2cents(freq_to_voicing(freq, voicing)[0], base_frequency)")


def rule_rotaterows(ctx):
    """rotate_bitmaps_to_roots rotates every row by *its own* root through rotate_bitmap_to_root (one call per
    (bitmap, root) pair of zip(bitmaps, roots), results collected in order) - no batched roll that can spill between rows."""
    R = "C09.ROTATEROWS"
    f = ctx.program.func("chord.rotate_bitmaps_to_roots", R)
    s = ctx.S.get(f.qual)
    need(len(s.returns) == 1, R, "rotate_bitmaps_to_roots: single return expected")
    calls = [c for c in s.calls() if c.callee == "chord.rotate_bitmap_to_root"]
    good = len(calls) == 1 and len(calls[0].args) == 2 and all(a.op == "iter" and a.a[0].op == "param" for a in calls[0].args) and [a.a[0].a[0] for a in calls[0].args] == ["bitmaps", "roots"] and calls[0].args[0].a[1] == calls[0].args[1].a[1]
    t = s.returns[0].term
    collected = any(x is calls[0].term for x in tm.walk(t)) if calls else False
    if calls and symeval.pc_conds(calls[0].pc):
        # every row is rotated: a row that is skipped under a test (root 0 is the pitch class C, not "no root") keeps
        # whatever the result buffer was initialised with
        good = False
    g = ctx.program.func("chord.rotate_bitmap_to_root", R)
    sg = ctx.S.get(g.qual)
    if not calls and len(sg.returns) == 1:
        # both functions share helpers evaluated in place: row i must be what rotate_bitmap_to_root computes for
        # (bitmaps[i], roots[i]) - its returned term with the row and the row's own root substituted
        comps = [x for x in tm.walk(t) if x.op == "comp" and x.a[0] == "list" and len(x.a[2]) == 1 and not x.a[3]]
        for c in comps:
            it = c.a[2][0]
            if it.op == "call" and call_name(it) == "builtins.zip" and [z.a[0] if z.op == "param" else None for z in it.a[1]] == ["bitmaps", "roots"]:
                row, root = tm.mk("iter", it.a[1][0], c.a[4]), tm.mk("iter", it.a[1][1], c.a[4])
                bind = {g.params[0]: row, g.params[1]: root}
                inst = tm.rebuild(sg.returns[0].term, lambda z: bind.get(z.a[0]) if z.op == "param" else None)
                if common.shape_key(inst) == common.shape_key(c.a[1]):
                    good = collected = True
    yield ob(R, f, "chord.rotate_bitmaps_to_roots:per-row", good and collected, "row i is rotate_bitmap_to_root(bitmaps[i], roots[i])" if good and collected else "rows are not rotated one by one by rotate_bitmap_to_root(bitmap, its own root): %s" % tm.show(t, 4), node=s.returns[0].node)
    one_d = any(a.kind == "assert" and any(x.op == "attr" and x.a[1] == "ndim" for x in tm.walk(a.d.get("cond"))) for a in sg.by_kind("assert"))
    yield ob(R, g, "chord.rotate_bitmap_to_root:single-row", one_d, "rotate_bitmap_to_root asserts a one-dimensional bitmap, so an index shift never crosses rows")


def rule_encodepure_shared(ctx):
    """Shared with C10.TABLESAFE: the encoding of a label does not depend on labels encoded before it (no module table
    or cached template is written in place), so a transposed or respelled progression is encoded independently of history."""
    from . import c10

    for o in c10.rule_tablesafe(ctx):
        o.rule = "C09.ENCODEPURE"
        yield o


def rule_zerohold(ctx):
    """resample_melody_series carries the last reported value over the samples that are exactly 0 (the unvoiced marker).
    The test that selects them must be an equality with 0: a sign test (`> 0`) also treats negative values - cents below
    the base frequency, i.e. a mere transposition - as unvoiced."""
    R = "C09.ZEROHOLD"
    f = ctx.program.func("melody.resample_melody_series", R)
    s = ctx.S.get(f.qual)
    tests = []
    for m in s.by_kind("mutate"):
        if m.how == "setitem" and m.root and "frequencies" in tm.params_of(m.d.get("old") or tm.none()):
            for c, p in symeval.pc_conds(m.pc):
                if any(z.op == "iter" and "frequencies" in tm.params_of(z) for z in tm.walk(c)):
                    tests.append((c, m.node))
    for c in s.calls():
        if c.callee == "np.where" and len(c.args) == 3 and "frequencies" in tm.params_of(c.args[0]):
            acc = [x for x in s.calls() if x.callee == "np.maximum.accumulate" and any(z is c.term for z in tm.walk(x.term))]
            if acc:
                tests.append((c.args[0], c.node))
    if not tests:
        # index form: positions[np.flatnonzero(<test on the frequencies>) ...] = 0 before the running maximum
        for m in s.by_kind("mutate"):
            if m.how == "setitem" and m.key is not None:
                for z in tm.walk(m.key):
                    if z.op == "call" and call_name(z) in ("np.flatnonzero", "np.nonzero", "np.where") and len(z.a[1]) == 1 and "frequencies" in tm.params_of(z.a[1][0]):
                        tests.append((z.a[1][0], m.node))
    need(tests, R, "resample_melody_series: the test selecting the samples to hold was not found")
    n = 0
    for c, node in tests:
        n += 1
        atoms = [x for x in tm.walk(c) if x.op == "cmp" and any(tm.is_const(z, 0) for z in x.a[1:]) and "frequencies" in tm.params_of(x)]
        need(atoms, R, "resample_melody_series: hold test %s is not a comparison with 0" % tm.show(c, 3))
        good = all(x.a[0] in ("==", "!=") for x in atoms)
        yield ob(R, f, "melody.resample_melody_series:hold-test#%d" % n, good, "held samples are selected by equality with 0 (%s)" % tm.show(c, 3) if good else "held samples are selected by the ordering test %s: negative values (pitches below the base frequency) are treated as unvoiced, so transposing the melody changes which frames are held" % tm.show(c, 3), node=node)




RULES = [
    ("C09.HELPERDEFAULTS", 3, common.rule_helperdefaults("C09.HELPERDEFAULTS")),
    ("C09.ZEROHOLD", 1, rule_zerohold),
    ("C09.ROTATEROWS", 2, rule_rotaterows),
    ("C09.ENCODEPURE", 9, rule_encodepure_shared),
    ("C09.PITCHTABLES", 6, rule_pitchtables),
    ("C09.ROOTEQONLY", 16, rule_rooteqonly),
    ("C09.KEYDIFFONLY", 2, rule_keydiffonly),
    ("C09.LOGPITCH", 8, rule_logpitch),
    ("C09.MODFOLD", 7, rule_modfold),
    ("C09.NONINTERF", 7, rule_noninterf),
]

from . import common as _common_purity
RULES = RULES + _common_purity.purity_rules("C09")
RULES = RULES + _common_purity.bundle_rules("C09")
