"""C10 - chord labels: total parsing, sound encoding, split/join round trip (structural clauses)."""

from __future__ import annotations

import ast
import re
from collections import deque

from .. import terms as tm
from .. import oracles
from .. import regexfa
from ..constfold import table, NpArray
from ..model import AnalysisError
from .common import ob, need, call_name, resolve_ite_free, positive_facts, facts
from . import common
from .. import symeval

PROP = "C10"
EXPLANATION = (
    "Static decision of C10's structural clauses: the language accepted by CHORD_RE as used by validate_chord_label (automaton built "
    "from the regex *literal*, $ modelled as Python does) equals the documented Harte grammar written independently in the checker, for "
    "every string; every accepted label has at most one '/', '(' and ':' so split()'s two-target unpackings cannot fail; every raise "
    "reachable from validate/split/join/encode/encode_many is InvalidChordException and every partial table lookup is dominated by a "
    "membership/None test or by validation; QUALITIES, EXTENDED_QUALITY_REDUX, SCALE_DEGREES and PITCH_CLASSES equal the Harte tables "
    "(Appendix C); encode() returns root % 12, a binarised bitmap with root and bass bits set, bass % 12, and exactly the reserved sentinels "
    "for N and X.  The value-level round trip encode(join(split(l))) == encode(l) is not decided."
)
RULE_TEXT = "GRAMMAR/SPLITSAFE: one obligation per language query (exhaustive over all strings via automata); TABLES: one per table entry; EXC/ENCODEPOST: one per raise site / lookup / post-condition"


def reference_pattern():
    deg = r"(b*|#*)([1-9]|1[0-3])"
    degs = r"\*?%s(,\*?%s)*" % (deg, deg)
    sh = "|".join(sorted(oracles.GRAMMAR_SHORTHANDS, key=lambda s: -len(s)))
    return r"^(N|X|[A-G](b*|#*)(:(%s)(\(%s\))?|:\(%s\))?(/%s)?)\Z" % (sh, degs, degs, deg)


def chord_re(ctx, rule):
    key = "c10_re"
    if key in ctx.cache:
        return ctx.cache[key]
    m = ctx.program.modules["chord"]
    node = m.const_nodes.get("CHORD_RE")
    need(node is not None, rule, "chord.CHORD_RE vanished")
    if not (isinstance(node, ast.Call) and ast.unparse(node.func) in ("re.compile",) and node.args):
        raise AnalysisError(rule, "CHORD_RE is not re.compile(<literal>)")
    if len(node.args) > 1 or node.keywords:
        flags = " ".join(ast.unparse(x) for x in list(node.args[1:]) + [k.value for k in node.keywords])
        if "IGNORECASE" in flags or re.search(r"\bre\.I\b", flags):
            ctx.cache["c10_re_flags"] = flags
        else:
            raise AnalysisError(rule, "CHORD_RE is compiled with flags (%s)" % flags)
    try:
        pat = ast.literal_eval(node.args[0])
    except Exception:
        # assembled from named parts: "..." + _PART + "..." over module-level string constants
        try:
            from ..model import _const_eval

            pat = _const_eval(node.args[0], m)
        except Exception:
            pat = None
        if not isinstance(pat, str):
            raise AnalysisError(rule, "CHORD_RE pattern is not a string literal or a concatenation of module-level string constants")
    # how is it used by the validator?
    s = ctx.S.get("chord.validate_chord_label")
    uses = [c for c in s.calls() if c.method in ("match", "fullmatch", "search") and c.base is not None and c.base.op == "glob" and c.base.a[0] == "chord.CHORD_RE"]
    need(len(uses) == 1, rule, "validate_chord_label no longer consults CHORD_RE exactly once")
    method = uses[0].method
    if method == "search":
        raise AnalysisError(rule, "CHORD_RE.search is outside the modelled uses")
    if method == "fullmatch":
        pat2 = pat
        if not pat2.startswith("^"):
            pat2 = "^" + pat2
        pat2 = "(?:%s)\\Z" % pat2 if False else pat2
        A = regexfa.Automaton(pat if pat.endswith(("$", "\\Z")) else pat + "\\Z", rule=rule)
    else:
        A = regexfa.Automaton(pat, rule=rule)
    ctx.cache[key] = (A, pat, uses[0], method)
    return ctx.cache[key]


def _rule_grammar_inner(ctx):
    A, pat, use, method = chord_re(ctx, "C10.GRAMMAR")
    f = ctx.program.func("chord.validate_chord_label")
    s = ctx.S.get(f.qual)
    # the validator raises InvalidChordException exactly when the match fails
    raises = s.by_kind("raise")
    guarded = False
    for r in raises:
        for c, p in symeval.pc_conds(r.pc):
            is_none = c.op == "cmp" and c.a[0] == "is" and any(z is use.term for z in c.a[1:]) and any(tm.is_const(z, None) for z in c.a[1:])
            if (c is use.term and not p) or (c.op == "un" and c.a[0] == "not" and c.a[1] is use.term and p) or (is_none and p):
                guarded = r.exc == "InvalidChordException"
    yield ob("C10.GRAMMAR", f, "chord.validate_chord_label:raise-iff-nomatch", guarded, "raises InvalidChordException exactly when CHORD_RE.%s(label) fails" % method, node=use.node)
    arg_ok = len(use.args) == 1 and use.args[0].op == "param"
    yield ob("C10.GRAMMAR", f, "chord.validate_chord_label:subject", arg_ok, "the whole label is matched")
    # ... and accepts only then: a return that does not depend on the match (a fast path for "simple" labels) accepts
    # exactly the strings its own condition describes; that set must lie inside the grammar
    for k, r in enumerate(s.returns):
        conds = list(symeval.pc_conds(r.pc))
        if any((c is use.term and p) or (c.op == "cmp" and c.a[0] == "isnot" and any(z is use.term for z in c.a[1:]) and p) or (c.op == "cmp" and c.a[0] == "is" and any(z is use.term for z in c.a[1:]) and not p) for c, p in conds):
            continue
        lang, exact, negs = _fastpath_language(ctx, conds, use.args[0] if use.args else None)
        if lang is None:
            raise AnalysisError("C10.GRAMMAR", "validate_chord_label accepts labels on a path that does not consult CHORD_RE (under %s), and that condition is not one the string model covers" % "; ".join(tm.show(c, 3) for c, _ in conds))
        L = regexfa.Automaton(lang, rule="C10.GRAMMAR")
        w = regexfa.excess(L, A)
        if w is None:
            yield ob("C10.GRAMMAR", f, "chord.validate_chord_label:fast-path@%d" % (k + 1), True, "the labels accepted without the regex (%s) all belong to the grammar" % lang, node=r.node)
            continue
        if not exact or any(w in ng for ng in negs):
            raise AnalysisError("C10.GRAMMAR", "validate_chord_label accepts labels without consulting CHORD_RE under %s; only part of that condition is modelled (as %s) and that part alone admits %r, which the grammar rejects" % ("; ".join(tm.show(c, 3) for c, _ in conds), lang, w))
        yield ob("C10.GRAMMAR", f, "chord.validate_chord_label:fast-path@%d" % (k + 1), False, "a path that does not consult CHORD_RE accepts %r (every label matching %s), which the Harte grammar rejects" % (w, lang), node=r.node, detail={"witness": w})
    B = regexfa.Automaton(reference_pattern(), rule="C10.GRAMMAR")
    d = regexfa.difference(A, B)
    if d is None:
        what = "language of CHORD_RE (%d NFA states, %s) equals the documented Harte grammar (%d NFA states) on every string" % (A.nstates, ", ".join("%s:%d" % kv for kv in sorted(A.kinds.items())), B.nstates)
    else:
        what = "shortest distinguishing string %r is accepted only by %s" % (d[0], "CHORD_RE" if d[1] == "A" else "the documented grammar")
    yield ob("C10.GRAMMAR", "mir_eval/chord.py:%d" % ctx.program.modules["chord"].const_nodes["CHORD_RE"].lineno, "chord.CHORD_RE:language", d is None, what, detail={"witness": d[0] if d else None})
    # tiny positive example that must differ on every run (rule with expected count zero)
    C = regexfa.Automaton(reference_pattern().replace("|hdim7", ""), rule="C10.GRAMMAR")
    need(regexfa.difference(B, C) is not None, "C10.GRAMMAR", "self-test: removing a shorthand from the grammar is not detected")


def _fastpath_language(ctx, conds, label):
    """(regex, exact, excluded-sets): the strings for which a conjunction of simple string tests on the label holds.
    Modelled: `label in (constants)`, `label == constant`, `label[:1] in TABLE` / `label[0] in TABLE`, `not
    label[1:].strip(chars)`, `len(label) == 1`.  Tests that must be *false* on the path only shrink the set: they are
    left out (the regex then describes a superset) except `label not in (constants)`, returned as excluded sets.
    `exact` is False as soon as a test that must be true is left out."""
    import re as _re

    mod = ctx.program.modules["chord"]

    def const_strs(t):
        """the strings a display / module constant holds (keys of a dict), or None"""
        if t.op == "const" and isinstance(t.a[0], str):
            return [t.a[0]], "str"
        if t.op == "glob":
            v = mod.const_values.get(t.a[0].split(".", 1)[1]) if t.a[0].startswith("chord.") else None
            if v is None:
                try:
                    v = table(ctx, t.a[0], "C10.GRAMMAR")
                except AnalysisError:
                    v = None
            if isinstance(v, str):
                return [v], "str"
            if isinstance(v, (dict, tuple, list, set, frozenset)) and all(isinstance(x, str) for x in v):
                return list(v), "coll"
            return None
        if t.op in ("tuple", "list", "set"):
            out = []
            for x in t.a:
                r_ = const_strs(x)
                if r_ is None or r_[1] != "str":
                    return None
                out += r_[0]
            return out, "coll"
        if t.op == "dict":
            out = []
            for kv in t.a:
                r_ = const_strs(kv.a[0])
                if r_ is None or r_[1] != "str":
                    return None
                out += r_[0]
            return out, "coll"
        return None

    lits = []
    for c, p in conds:
        common.decompose(c, p, lits) if hasattr(common, "decompose") and False else None
    # own decomposition: conjunctions that hold, disjunctions that fail
    def split(c, p):
        if c.op == "un" and c.a[0] == "not":
            split(c.a[1], not p)
        elif c.op == "bool" and ((c.a[0] == "and" and p) or (c.a[0] == "or" and not p)):
            for x in c.a[1:]:
                split(x, p)
        else:
            lits.append((c, p))

    for c, p in conds:
        split(c, p)
    finite = None
    first = None
    first_allows_empty = False
    rest = None
    exact = True
    negs = []
    is_label = lambda t: label is not None and t is label
    for c, p in lits:
        if c.op == "cmp" and c.a[0] in ("in", "notin", "==", "!=") and is_label(c.a[1] if c.a[0] in ("in", "notin") else (c.a[1] if is_label(c.a[1]) else c.a[2])):
            other = c.a[2] if is_label(c.a[1]) else c.a[1]
            cs = const_strs(other)
            holds = (c.a[0] in ("in", "==")) == p
            if cs is not None and (c.a[0] in ("==", "!=") or cs[1] == "coll"):
                if holds:
                    finite = set(cs[0]) if finite is None else finite & set(cs[0])
                else:
                    negs.append(set(cs[0]))
                continue
        if c.op == "cmp" and c.a[0] in ("in", "notin") and c.a[1].op == "sub" and is_label(c.a[1].a[0]) and ((c.a[0] == "in") == p):
            ix = c.a[1].a[1]
            head = (ix.op == "slice" and tm.is_const(ix.a[0], None) and tm.is_const(ix.a[1], 1) and tm.is_const(ix.a[2], None)) or tm.is_const(ix, 0)
            cs = const_strs(c.a[2])
            if head and cs is not None:
                chars = [x for x in (cs[0] if cs[1] == "coll" else list(cs[0][0])) if len(x) == 1]
                first = set(chars) if first is None else first & set(chars)
                if cs[1] == "str" and ix.op == "slice":
                    first_allows_empty = True  # '' in 'ABC' is True
                continue
        t = c
        if t.op == "call" and call_name(t) == ".strip" and len(t.a[1]) == 2 and not p:
            base, chars = t.a[1]
            if base.op == "sub" and is_label(base.a[0]) and base.a[1].op == "slice" and tm.is_const(base.a[1].a[0], 1) and tm.is_const(base.a[1].a[1], None) and chars.op == "const" and isinstance(chars.a[0], str):
                rest = set(chars.a[0]) if rest is None else rest & set(chars.a[0])
                continue
        if c.op == "cmp" and c.a[0] == "==" and p and any(tm.is_const(z, 1) for z in c.a[1:]) and any(z.op == "call" and call_name(z) == "builtins.len" and is_label(z.a[1][0]) for z in c.a[1:]):
            rest = set() if rest is None else set()
            continue
        if p or True:
            # a test that is not modelled: leaving it out keeps a superset
            exact = False
    if finite is not None:
        return "(%s)\\Z" % "|".join(_re.escape(x) for x in sorted(finite)), exact, negs
    if first is None and rest is None:
        return None, False, negs

    def cls(chars):
        return "[%s]" % "".join(_re.escape(x) for x in sorted(chars))

    head = cls(first) if first else ("." if first is None else None)
    if head is None:
        return "\\Z", exact, negs  # no first character possible: only the empty label (if at all)
    tail = "" if rest is None else ("%s*" % cls(rest) if rest else "")
    if rest is None:
        pat = "%s" % head  # anything may follow: .match semantics without an end anchor
        return (("(%s)?" % head) if first_allows_empty else head), exact, negs
    body = "%s%s" % (head, tail)
    if first_allows_empty or first is None:
        body = "(%s)?" % body  # label[1:] of the empty label is empty too
    return body + "\\Z", exact, negs


def rule_splitsafe(ctx):
    A, pat, use, method = chord_re(ctx, "C10.SPLITSAFE")
    f = ctx.program.func("chord.split", "C10.SPLITSAFE")
    s = ctx.S.get(f.qual)
    n = 0
    for u in s.by_kind("unpack"):
        v = u.value
        if v.op == "call" and call_name(v) == ".split" and len(v.a[1]) == 2 and v.a[1][1].op == "const":
            ch = v.a[1][1].a[0]
            k, wit = regexfa.max_count(A, ch)
            inpc = any(symeval.holds(c, p, "in") and tm.is_const(c.a[1], ch) for c, p in symeval.pc_conds(u.pc))
            n += 1
            yield ob("C10.SPLITSAFE", f, "chord.split:split(%r)" % ch, k <= 1 and inpc and u.n == 2, "every accepted label has at most %d %r (witness %r); unpacking into %d targets under `%r in label`" % (k, ch, wit, u.n, ch), node=u.node)
    # str.partition(ch) always returns a 3-tuple: unpacking it into three targets cannot fail whatever the label holds
    for u in s.by_kind("unpack"):
        v = u.value
        if v.op == "call" and call_name(v) in (".partition", ".rpartition") and len(v.a[1]) == 2 and v.a[1][1].op == "const":
            ch = v.a[1][1].a[0]
            k, wit = regexfa.max_count(A, ch)
            n += 1
            yield ob("C10.SPLITSAFE", f, "chord.split:split(%r)" % ch, u.n == 3 and k <= 1, "label.partition(%r) unpacked into %d targets (always a 3-tuple); every accepted label has at most %d %r" % (ch, u.n, k, ch), node=u.node)
    need(n >= 3, "C10.SPLITSAFE", "chord.split no longer splits on '/', '(' and ':' by two-target unpacking")
    # split validates before anything else; join validates its output
    first = [c for c in s.calls() if c.fn is not None and c.fn.op == "func"]
    yield ob("C10.SPLITSAFE", f, "chord.split:validates-first", bool(first) and first[0].callee == "chord.validate_chord_label", "validate_chord_label is the first repo call of split()")
    fj = ctx.program.func("chord.join", "C10.SPLITSAFE")
    sj = ctx.S.get(fj.qual)
    vcalls = [c for c in sj.calls() if c.callee == "chord.validate_chord_label"]
    good = bool(vcalls) and all(r.term is vcalls[-1].args[0] for r in sj.returns) and not symeval.pc_conds(vcalls[-1].pc)
    yield ob("C10.SPLITSAFE", fj, "chord.join:validates-output", good, "join() validates exactly the label it returns, unconditionally")


def rule_joinform(ctx):
    """join() emits its arguments unchanged: root [':' quality] ['(' ','.join(extensions) ')'] ['/' bass]."""
    R = "C10.JOINFORM"
    f = ctx.program.func("chord.join", R)
    s = ctx.S.get(f.qual)
    need(len(s.returns) == 1, R, "chord.join: single return expected")
    t = s.returns[0].term
    pieces = []

    def rec(x):
        if x.op == "ite":
            rec(x.a[1])
            rec(x.a[2])
        elif x.op == "bin" and x.a[0] == "+":
            rec(x.a[1])
            rec(x.a[2])
        else:
            pieces.append(x)

    rec(t)
    seenp = set()
    bad = []
    for p_ in pieces:
        if p_.op == "fstr" and sum(1 for z in p_.a if z.op != "const") == 1 and all(z.op != "const" or isinstance(z.a[0], str) for z in p_.a):
            # f"({','.join(extensions)})" is "(%s)" % ','.join(extensions)
            p_ = tm.mk("bin", "%", tm.const("".join(z.a[0] if z.op == "const" else "%s" for z in p_.a)), [z for z in p_.a if z.op != "const"][0])
        if p_.op == "param":
            seenp.add(p_.a[0])
        elif p_.op == "bin" and p_.a[0] == "%" and p_.a[1].op == "const":
            arg = p_.a[2]
            fmt = p_.a[1].a[0]
            if arg.op == "param":
                seenp.add(arg.a[0])
                exp = {"quality": ":%s", "bass": "/%s"}.get(arg.a[0])
                if exp is not None and fmt != exp:
                    bad.append("%s is emitted with format %r" % (arg.a[0], fmt))
            elif arg.op == "call" and call_name(arg) == ".join" and tm.is_const(arg.a[1][0], ",") and arg.a[1][1].op == "param":
                seenp.add(arg.a[1][1].a[0])
                if fmt != "(%s)":
                    bad.append("extensions are emitted with format %r" % fmt)
            else:
                bad.append("a component is transformed before being emitted: %s" % tm.show(arg, 3))
        else:
            bad.append("unexpected piece %s" % tm.show(p_, 3))
    good = not bad and seenp == {"chord_root", "quality", "extensions", "bass"}
    yield ob(R, f, "chord.join:components", good, "label = chord_root [+ ':' + quality] [+ '(' + ','.join(extensions) + ')'] [+ '/' + bass], each argument emitted unchanged" if good else "; ".join(bad) or "components %s" % sorted(seenp))
    # the conditions under which pieces are emitted test the arguments themselves
    conds = set()

    def crec(x):
        if x.op == "ite":
            conds.add(x.a[0])
            crec(x.a[1])
            crec(x.a[2])
        elif x.op == "bin":
            crec(x.a[1])
            crec(x.a[2])

    crec(t)
    okc = all(_join_cond_ok(c) for c in conds) and len(conds) == 3
    yield ob(R, f, "chord.join:conditions", okc, "':quality' is emitted iff quality or extensions, '(...)' iff extensions, '/bass' iff bass and bass != '1' (%s)" % "; ".join(tm.show(c, 3) for c in conds))


def _join_cond_ok(c):
    if c.op == "param":
        return c.a[0] == "extensions"
    if c.op == "bool" and c.a[0] == "or":
        return {x.a[0] if x.op == "param" else None for x in c.a[1:]} == {"quality", "extensions"}
    if c.op == "bool" and c.a[0] == "and":
        its = c.a[1:]
        return len(its) == 2 and its[0].op == "param" and its[0].a[0] == "bass" and its[1].op == "cmp" and its[1].a[0] == "!=" and {tm.show(its[1].a[1], 1), tm.show(its[1].a[2], 1)} == {"bass", "'1'"}
    return False


def rule_tablesafe(ctx):
    """No function of the label pipeline writes through a module-level chord table."""
    from .c15 import get_alias

    A = get_alias(ctx)
    n = 0
    for q in reachable(ctx, PIPELINE):
        f = ctx.program.func(q)
        probs = []
        node = None
        for m, roots in A.direct_mutations(f):
            for r in roots:
                if r[0] == "g":
                    probs.append("writes %s in place (%s)" % (r[1], m.how))
                    node = m.node
        for dec in getattr(f.node, "decorator_list", []):
            txt = ast.unparse(dec)
            if any(k in txt for k in ("lru_cache", "functools.cache", "memoize", "memoise")) or txt == "cache":
                probs.append("memoising decorator @%s: the template it returns is shared between calls and encode() edits it in place" % txt)
                node = dec
        n += 1
        yield ob("C10.TABLESAFE", f, "%s:tables" % q, not probs, "; ".join(probs) if probs else "no in-place write reaches a module-level table (QUALITIES, EXTENDED_QUALITY_REDUX, sentinels)", node=node)


PIPELINE = ["chord.validate_chord_label", "chord.split", "chord.join", "chord.encode", "chord.encode_many"]


def reachable(ctx, roots):
    seen = set()
    work = list(roots)
    while work:
        q = work.pop()
        if q in seen or not ctx.program.has_func(q):
            continue
        seen.add(q)
        for c in ctx.S.get(q).calls():
            if c.fn is not None and c.fn.op in ("func", "localfunc"):
                work.append(tm.callee_name(c.fn))
    return sorted(seen)


TABLES = {"chord.QUALITIES", "chord.EXTENDED_QUALITY_REDUX", "chord.SCALE_DEGREES", "chord.PITCH_CLASSES"}


def rule_exc(ctx):
    reach = reachable(ctx, PIPELINE)
    need(len(reach) >= 9, "C10.EXC", "label pipeline call graph shrank to %d functions" % len(reach))
    for q in reach:
        f = ctx.program.func(q)
        s = ctx.S.get(q)
        for i, r in enumerate(s.by_kind("raise")):
            yield ob("C10.EXC", f, "%s:raise@%d" % (q, i), r.exc == "InvalidChordException", "raises %s" % r.exc, node=r.node)
        for i, a in enumerate(s.by_kind("assert")):
            yield ob("C10.EXC", f, "%s:assert@%d" % (q, i), False, "assert statement in the label pipeline (AssertionError is not InvalidChordException)", node=a.node)
        # partial lookups on the tables
        k = 0
        for sb in s.by_kind("subscript"):
            if sb.base.op == "glob" and sb.base.a[0] in TABLES:
                key = sb.index
                good = False
                for c, p in facts(sb.pc):
                    if c.op == "cmp" and c.a[0] in ("notin", "in") and c.a[1] is key and c.a[2] is sb.base and ((c.a[0] == "notin") != p):
                        good = True
                if not good:
                    # ... or sits in a try whose handler takes the KeyError (look-up with a default written as try/except)
                    good = any(x[0] == "try" and any("KeyError" in str(h) or "LookupError" in str(h) or str(h) in ("None", "Exception", "BaseException") for h in (x[2] or ())) for x in sb.pc)
                yield ob("C10.EXC", f, "%s:lookup:%s@%d" % (q, sb.base.a[0], k), good, "subscript of %s is dominated by a membership test that raises" % sb.base.a[0], node=sb.node)
                k += 1
        for c in s.calls():
            if c.method == "get" and c.base is not None and c.base.op == "glob" and c.base.a[0] in TABLES:
                # the result is either None-tested before use, or given a total default, or the function is only reached after validation
                has_default = len(c.args) >= 2 and not tm.is_const(c.args[1], None)
                none_tested = any(r.exc == "InvalidChordException" and any(cc.op == "cmp" and cc.a[0] in ("is", "isnot") and tm.is_const(cc.a[1], None) and _mentions(cc.a[2], c.term) for cc, _ in symeval.pc_conds(r.pc)) for r in s.by_kind("raise"))
                after_validation = q in ("chord.pitch_class_to_semitone",) and _only_called_after_split(ctx, q)
                # `r = T.get(k); return r if r is not None else default`: a default spelled as a conditional expression
                def none_defaulted(t):
                    if t.op == "ite" and t.a[0].op == "cmp" and t.a[0].a[0] in ("is", "isnot") and any(tm.is_const(z, None) for z in t.a[0].a[1:]) and any(z is c.term for z in t.a[0].a[1:]):
                        other = t.a[2] if t.a[0].a[0] == "isnot" else t.a[1]
                        return not any(z is c.term for z in tm.walk(other))
                    return False

                # (a conditional return is summarised as two returns, each under its branch condition)
                using = [r_ for r_ in s.returns if any(y is c.term for y in tm.walk(r_.term))]
                def not_none_on(r_):
                    for cc, pp in symeval.pc_conds(r_.pc):
                        if cc.op == "cmp" and cc.a[0] in ("is", "isnot") and any(tm.is_const(z, None) for z in cc.a[1:]) and any(z is c.term for z in cc.a[1:]) and ((cc.a[0] == "isnot") == pp):
                            return True
                    return False

                if not has_default and using and all(not_none_on(r_) for r_ in using) and len(s.returns) > len(using):
                    has_default = True
                uses_ = [z for r_ in s.returns for z in tm.walk(r_.term) if any(y is c.term for y in tm.children(z))]
                if not has_default and uses_ and all(none_defaulted(z) or (z.op == "cmp" and z.a[0] in ("is", "isnot")) for z in uses_):
                    has_default = True
                yield ob("C10.EXC", f, "%s:get:%s" % (q, c.base.a[0]), has_default or none_tested or after_validation, ".get on %s: %s" % (c.base.a[0], "total default" if has_default else "None-tested with InvalidChordException" if none_tested else "reached only after validation" if after_validation else "result may be None and is used arithmetically"), node=c.node)


def _mentions(t, sub):
    return any(x is sub for x in tm.walk(t))


def _only_called_after_split(ctx, q):
    """Every repo caller of q passes a component of chord.split(...)."""
    n = 0
    for f in ctx.program.all_funcs():
        if f.module.name != "chord":
            continue
        for c in ctx.S.get(f.qual).calls():
            if c.callee == q:
                n += 1
                if not any(x.op == "call" and call_name(x) == "chord.split" for a in c.args for x in tm.walk(a)):
                    return False
    return n > 0


def _bitmap(degrees, scale, length=12):
    bm = [0] * length
    for d in degrees:
        off = 0
        dd = d
        while dd.startswith("#"):
            off += 1
            dd = dd[1:]
        while dd.startswith("b"):
            off -= 1
            dd = dd[1:]
        st = scale[dd] + off
        if st < length:
            bm[st] = 1
    return bm


def rule_tables(ctx):
    R = "C10.TABLES"
    Q = table(ctx, "chord.QUALITIES", R)
    if isinstance(Q, dict):
        # the templates may be stored as lists or as arrays of the same numbers
        Q = dict((k_, v_.data if isinstance(v_, NpArray) else v_) for k_, v_ in Q.items())
    X = table(ctx, "chord.EXTENDED_QUALITY_REDUX", R)
    SD = table(ctx, "chord.SCALE_DEGREES", R)
    PC = table(ctx, "chord.PITCH_CLASSES", R)
    BL = table(ctx, "chord.BITMAP_LENGTH", R)
    loc = "mir_eval/chord.py:%d" % ctx.program.modules["chord"].const_nodes["QUALITIES"].lineno
    yield ob(R, loc, "chord.BITMAP_LENGTH", BL == 12, "BITMAP_LENGTH is %r" % (BL,))
    # major-scale arithmetic
    exp_sd = {str(d): oracles.MAJOR_SCALE[(d - 1) % 7] + 12 * ((d - 1) // 7) for d in range(1, 14)}
    yield ob(R, loc, "chord.SCALE_DEGREES", SD == exp_sd, "SCALE_DEGREES equals major-scale arithmetic for degrees 1..13" if SD == exp_sd else "SCALE_DEGREES differs from major-scale arithmetic at %s" % sorted(k for k in set(SD) | set(exp_sd) if SD.get(k) != exp_sd.get(k)))
    exp_pc = dict(zip("CDEFGAB", oracles.MAJOR_SCALE))
    yield ob(R, loc, "chord.PITCH_CLASSES", PC == exp_pc, "PITCH_CLASSES maps C D E F G A B to 0 2 4 5 7 9 11")
    need(isinstance(Q, dict) and len(Q) >= 20, R, "QUALITIES is not the expected table")
    for q in sorted(set(Q) | set(oracles.HARTE)):
        if q not in Q:
            yield ob(R, loc, "chord.QUALITIES[%r]" % q, False, "documented shorthand %r missing from QUALITIES" % q)
            continue
        bm = Q[q]
        shape_ok = isinstance(bm, list) and len(bm) == BL and all(x in (0, 1) for x in bm) and (q == "" or bm[0] == 1)
        if q not in oracles.HARTE:
            yield ob(R, loc, "chord.QUALITIES[%r]" % q, False, "shorthand %r is not in the documented table" % q)
            continue
        exp = _bitmap(oracles.HARTE[q], exp_sd)
        yield ob(R, loc, "chord.QUALITIES[%r]" % q, shape_ok and bm == exp, "bitmap %s %s Harte intervals %s -> %s" % (bm, "equals" if bm == exp else "DIFFERS from", oracles.HARTE[q], exp))
    for q in sorted(set(X) | set(oracles.HARTE_REDUX)):
        got = X.get(q)
        exp = oracles.HARTE_REDUX.get(q)
        good = got is not None and exp is not None and got[0] == exp[0] and set(got[1]) == set(exp[1]) and got[0] in Q and got[0] not in X
        if good:
            # QUALITIES[q] == QUALITIES[base] + additions below the octave
            expbm = list(Q[got[0]])
            for d in got[1]:
                add = _bitmap([d], exp_sd)
                expbm = [max(a, b) for a, b in zip(expbm, add)]
            good = Q.get(q) == expbm
        yield ob(R, loc, "chord.EXTENDED_QUALITY_REDUX[%r]" % q, good, "reduces to %r; documented %r; bitmap consistent with base + additions below the octave" % (got, exp))
    # every shorthand the grammar accepts is encodable or in the reviewed unsupported set
    A, pat, use, method = chord_re(ctx, R)
    sh = accepted_shorthands(A)
    for x in sorted(sh):
        good = x in Q or x in oracles.ACCEPTED_UNSUPPORTED
        yield ob(R, loc, "chord.CHORD_RE:shorthand[%r]" % x, good, "accepted shorthand %r is %s" % (x, "in QUALITIES" if x in Q else "in the reviewed accepted-but-unsupported set" if good else "neither encodable nor reviewed"))
    missing = sorted(set(oracles.GRAMMAR_SHORTHANDS) - sh)
    yield ob(R, loc, "chord.CHORD_RE:shorthands", not missing, "grammar accepts %d shorthands; documented ones missing: %s" % (len(sh), missing))
    # sentinels
    N = table(ctx, "chord.NO_CHORD_ENCODED", R)
    Xc = table(ctx, "chord.X_CHORD_ENCODED", R)
    yield ob(R, loc, "chord.NO_CHORD_ENCODED", N == (-1, NpArray([0] * 12), -1), "N encodes to (-1, zeros(12), -1): %r" % (N,))
    yield ob(R, loc, "chord.X_CHORD_ENCODED", Xc == (-1, NpArray([-1] * 12), -1), "X encodes to (-1, -ones(12), -1): %r" % (Xc,))
    yield ob(R, loc, "chord.NO_CHORD", table(ctx, "chord.NO_CHORD", R) == "N" and table(ctx, "chord.X_CHORD", R) == "X", "NO_CHORD == 'N' and X_CHORD == 'X'")


def accepted_shorthands(A, maxlen=9):
    """Strings s (no '(' '/' ':') such that 'C:' + s is accepted."""
    sigma, other = regexfa.alphabet(A)
    S = regexfa._norm(A, A.initial())
    for ch in "C:":
        S = regexfa._norm(A, regexfa._step(A, S, ch))
    out = set()
    q = deque([(S, "")])
    seen = {(S, "")}
    while q:
        T, s = q.popleft()
        if s and regexfa._acc(A, T):
            out.add(s)
        if len(s) >= maxlen:
            continue
        for ch in sigma:
            if ch in "(/:\n" or ch == other:
                continue
            U = regexfa._norm(A, regexfa._step(A, T, ch))
            if U and (U, s + ch) not in seen:
                seen.add((U, s + ch))
                q.append((U, s + ch))
    return out


def rule_encodepost(ctx):
    R = "C10.ENCODEPOST"
    f = ctx.program.func("chord.encode", R)
    s = ctx.S.get(f.qual)
    need(len(s.returns) >= 3, R, "chord.encode: sentinel and normal returns not found")
    sent = {"chord.NO_CHORD": "chord.NO_CHORD_ENCODED", "chord.X_CHORD": "chord.X_CHORD_ENCODED"}
    found = set()
    normal = []
    for r in s.returns:
        if r.term.op == "glob":
            # must be returned exactly when the label equals the matching sentinel name
            last = symeval.pc_conds(r.pc)[-1] if symeval.pc_conds(r.pc) else None
            good = False
            if last is not None and last[1] and last[0].op == "cmp" and last[0].a[0] == "==":
                names = {x.a[0] for x in (last[0].a[1], last[0].a[2]) if x.op == "glob"}
                good = any(sent.get(nm) == r.term.a[0] for nm in names)
                if good:
                    found.add(r.term.a[0])
            yield ob(R, f, "chord.encode:sentinel:%s" % r.term.a[0], good, "returns %s exactly under label == its reserved name" % r.term.a[0], node=r.node)
        else:
            normal.append(r)
    yield ob(R, f, "chord.encode:sentinels", found == set(sent.values()), "both N and X return their reserved constants (%s)" % sorted(found))
    need(normal, R, "chord.encode: normal return not found")
    for i, r in enumerate(normal):
        t = r.term
        need(t.op == "tuple" and len(t.a) == 3, R, "chord.encode normal return is not a 3-tuple")
        root, bitmap, bass = t.a
        # root: result of pitch_class_to_semitone, which returns ... % 12
        g = ctx.S.get("chord.pitch_class_to_semitone")
        root_ok = root.op == "call" and call_name(root) == "chord.pitch_class_to_semitone" and all(_is_mod12(x.term) for x in g.returns)
        yield ob(R, f, "chord.encode:root-mod12@%d" % i, root_ok, "root number is pitch_class_to_semitone(root) and that function returns `... %% 12`", node=r.node)
        yield ob(R, f, "chord.encode:bass-mod12@%d" % i, _is_mod12(bass), "bass number is `... %% 12`: %s" % tm.show(bass, 3), node=r.node)
        # bitmap: last write sets the bass bit, base is binarised, root bit set before the additions
        b_ok = bitmap.op == "upd" and bitmap.a[1] == "setitem" and bitmap.a[2] is bass and tm.is_const(bitmap.a[3], 1)
        # ... or the bit was tested true on this path
        if not b_ok:
            b_ok = any(x.op == "sub" and x.a[1] is bass for x in positive_facts(r.pc))
        yield ob(R, f, "chord.encode:bass-bit@%d" % i, b_ok, "bitmap[bass_number] = 1 dominates the return (or the bit was tested true)", node=r.node)
        base = bitmap
        while base.op == "upd":
            base = base.a[0]
        bin_ok = base.op == "call" and call_name(base) == "astype" and base.a[1][0].op == "cmp" and base.a[1][0].a[0] == "<" and tm.is_const(base.a[1][0].a[1], 0)
        yield ob(R, f, "chord.encode:binarised@%d" % i, bin_ok, "bitmap is (accumulated > 0) cast to an integer type", node=r.node)
        rootbit = any(x.op == "upd" and x.a[1] == "setitem" and tm.is_const(x.a[2], 0) and tm.is_const(x.a[3], 1) and _from_quality(x.a[0]) for x in tm.walk(bitmap))
        yield ob(R, f, "chord.encode:root-bit@%d" % i, rootbit, "semitone_bitmap[0] = 1 is applied to the quality bitmap before additions", node=r.node)
    # the strict check raises InvalidChordException and only when the bass bit is absent
    rs = s.by_kind("raise")
    yield ob(R, f, "chord.encode:strict-raise", all(x.exc == "InvalidChordException" for x in rs), "strict bass check raises InvalidChordException")


def _is_mod12(t):
    if t.op == "const" and isinstance(t.a[0], (int, float)) and not isinstance(t.a[0], bool):
        return 0 <= t.a[0] < 12  # a literal pitch class
    return t.op == "bin" and t.a[0] == "%" and tm.is_const(t.a[2], 12)


def _from_quality(t):
    while t.op == "upd":
        t = t.a[0]
    return t.op == "call" and call_name(t) == "chord.quality_to_bitmap"


def rule_bitmapguard(ctx):
    """scale_degree_to_bitmap: a degree at or beyond the octave (semitone >= length) is discarded unless modulo is set;
    the one store into the edit map is guarded by `semitone < length or modulo` and indexes semitone % length."""
    R = "C10.BITMAPGUARD"
    f = ctx.program.func("chord.scale_degree_to_bitmap", R)
    s = ctx.S.get(f.qual)
    st = [m for m in s.by_kind("mutate") if m.how == "setitem"]
    need(len(st) == 1, R, "scale_degree_to_bitmap: single edit-map store expected")
    m = st[0]
    sem = [c for c in s.calls() if c.callee == "chord.scale_degree_to_semitone"]
    need(len(sem) == 1, R, "scale_degree_to_bitmap: scale_degree_to_semitone call not found")
    idx = sem[0].term
    L = tm.param("length")
    conds = list(symeval.pc_conds(m.pc))
    good = False
    why = "store guard not recognised: %s" % "; ".join(tm.show(c, 3) for c, _ in conds)
    # semantic reading first: the conjunction of the path facts is equivalent to `semitone < length or modulo`
    from .. import finmodel

    parts = [c if pol else tm.unop("not", c) for c, pol in conds]
    if parts:
        path = parts[0] if len(parts) == 1 else tm.boolop("and", parts)
        ref = tm.boolop("or", [tm.cmp("<", idx, L), tm.param("modulo")])
        loose = tm.boolop("or", [tm.cmp("<=", idx, L), tm.param("modulo")])
        eq = finmodel.equivalent(path, ref)
        if eq is True:
            yield ob(R, f, "chord.scale_degree_to_bitmap:octave-guard", True, "edit_map is written exactly when semitone < length or modulo (finite model of the guard)", node=m.node)
            conds = []
        elif finmodel.equivalent(path, loose) is True:
            yield ob(R, f, "chord.scale_degree_to_bitmap:octave-guard", False, "guard is semitone <= length: a degree exactly one octave up (index == length) wraps onto the root bit instead of being discarded", node=m.node)
            conds = []
        elif eq is None:
            raise AnalysisError(R, "scale_degree_to_bitmap: store guard outside the comparison forms: %s" % "; ".join(tm.show(c, 3) for c, _ in symeval.pc_conds(m.pc)))
    semantic_done = not conds and bool(parts)
    for c, pol in conds:
        if pol and c.op == "bool" and c.a[0] == "or":
            parts = list(c.a[1:])
            strict = [x for x in parts if x.op == "cmp" and x.a[0] == "<" and x.a[1] is idx and x.a[2] is L]
            loose = [x for x in parts if x.op == "cmp" and x.a[0] == "<=" and x.a[1] is idx and x.a[2] is L]
            mod = [x for x in parts if x.op == "param" and x.a[0] == "modulo"]
            if strict and mod and len(parts) == 2:
                good = True
                why = "edit_map is written only when semitone < length or modulo"
            elif loose:
                why = "guard is semitone <= length: a degree exactly one octave up (index == length) wraps onto the root bit instead of being discarded"
    if not semantic_done:
        yield ob(R, f, "chord.scale_degree_to_bitmap:octave-guard", good, why, node=m.node)
    key = m.key
    wrap = key.op == "bin" and key.a[0] == "%" and key.a[1] is idx and key.a[2] is L
    yield ob(R, f, "chord.scale_degree_to_bitmap:index", wrap, "the written position is semitone % length")
    okd, dv = f.default_value("modulo")
    yield ob(R, f, "chord.scale_degree_to_bitmap:modulo-default", okd and dv is False, "modulo defaults to %r" % (dv,))


def rule_grammar(ctx):
    chord_re(ctx, "C10.GRAMMAR")
    if ctx.cache.get("c10_re_flags"):
        f = ctx.program.func("chord.validate_chord_label", "C10.GRAMMAR")
        yield ob("C10.GRAMMAR", f, "chord.CHORD_RE:language", False, "CHORD_RE is compiled with %s: the Harte grammar is case-sensitive (pitch names A-G, qualities in lower case, N/X), so labels such as 'c:maj' or 'n' are accepted although they are outside the documented grammar" % ctx.cache["c10_re_flags"])
        return
    yield from _rule_grammar_inner(ctx)


def rule_degreeparse(ctx):
    """scale_degree_to_semitone looks the degree up after removing exactly its leading accidentals: strip/lstrip of the
    accidental character, or a slice from the (non-negative) number of accidentals."""
    R = "C10.DEGREEPARSE"
    f = ctx.program.func("chord.scale_degree_to_semitone", R)
    s = ctx.S.get(f.qual)
    gets = [c for c in s.calls() if c.method == "get" and c.base is not None and c.base.op == "glob" and c.base.a[0] == "chord.SCALE_DEGREES"]
    subs = [x for x in s.by_kind("subscript") if x.base.op == "glob" and x.base.a[0] == "chord.SCALE_DEGREES"]
    if not gets and len({x.index.id for x in subs}) == 1:
        # SCALE_DEGREES[degree] after a membership test
        class _G(object):
            pass

        g0 = _G()
        g0.args = [subs[0].index]
        g0.node = subs[0].node
        gets = [g0]
    need(len(gets) == 1 and gets[0].args, R, "scale_degree_to_semitone: SCALE_DEGREES.get lookup not found")
    key = gets[0].args[0]
    P = tm.param("scale_degree")
    alts = resolve_ite_free(key)
    bad = []
    for a in alts:
        if a is P:
            continue
        if a.op == "call" and call_name(a) in (".strip", ".lstrip") and len(a.a[1]) == 2 and a.a[1][0] is P and a.a[1][1].op == "const" and a.a[1][1].a[0] in ("#", "b"):
            continue
        if a.op == "sub" and a.a[0] is P and a.a[1].op == "slice":
            lo, hi, st = a.a[1].a
            cnt = lo.op == "call" and call_name(lo) == ".count" and lo.a[1][0] is P
            if cnt and tm.is_const(hi, None) and tm.is_const(st, None):
                continue
        bad.append(tm.show(a, 4))
    yield ob(R, f, "chord.scale_degree_to_semitone:lookup-key", not bad, "the degree is looked up with its leading accidentals removed (%d alternative forms)" % len(alts) if not bad else "the looked-up degree is %s: not the label minus its leading accidentals (a negative or shifted slice start drops digits instead)" % "; ".join(bad), node=gets[0].node)
    # offset sign: sharps add, flats subtract
    rets = [r for r in s.returns]
    need(rets, R, "scale_degree_to_semitone: return not found")
    t = rets[-1].term
    sharp = any(x.op == "call" and call_name(x) == ".count" and x.a[1][1].op == "const" and x.a[1][1].a[0] == "#" for x in tm.walk(t))
    flat_neg = any((x.op == "bin" and x.a[0] == "*" and any(tm.is_const(z, -1) for z in x.a[1:]) and any(z.op == "call" and call_name(z) == ".count" and z.a[1][1].op == "const" and z.a[1][1].a[0] == "b" for z in x.a[1:])) or (x.op == "un" and x.a[0] == "-" and x.a[1].op == "call" and call_name(x.a[1]) == ".count" and x.a[1].a[1][1].a[0] == "b") for x in tm.walk(t))
    def _len_of(z, stripped):
        """len(scale_degree) / len(scale_degree.strip(ch)) -> ('raw', None) / ('strip', ch)"""
        if not (z.op == "call" and call_name(z) == "builtins.len" and len(z.a[1]) == 1):
            return None
        a = z.a[1][0]
        if a.op == "param":
            return ("raw", None)
        if a.op == "call" and call_name(a) in (".strip", ".lstrip") and len(a.a[1]) == 2 and a.a[1][0].op == "param" and a.a[1][1].op == "const":
            return ("strip", a.a[1][1].a[0])
        return None

    # the same numbers as a change of length: len(label) - len(label.strip('#')) sharps, len(label.strip('b')) - len(label)
    for x in tm.walk(t):
        if x.op == "bin" and x.a[0] == "-":
            l_, r_ = _len_of(x.a[1], None), _len_of(x.a[2], None)
            if l_ == ("raw", None) and r_ == ("strip", "#"):
                sharp = True
            if l_ == ("strip", "b") and r_ == ("raw", None):
                flat_neg = True
    yield ob(R, f, "chord.scale_degree_to_semitone:offset-sign", sharp and flat_neg, "semitone = table value + (#sharps) or - (#flats)")
    # the result is the absolute distance above the root (degree 9 is 14 semitones): scale_degree_to_bitmap discards what does
    # not fit the bitmap length by comparing this value with the length, so a value wrapped to one octave is never discarded
    wrapped = [x for r in rets for x in tm.walk(r.term) if (x.op == "bin" and x.a[0] == "%") or (x.op == "call" and call_name(x) in ("np.mod", "np.remainder", "builtins.divmod", "np.fmod", "builtins.max", "builtins.min", "np.clip", "np.maximum", "np.minimum", "np.abs"))]
    yield ob(R, f, "chord.scale_degree_to_semitone:unwrapped", not wrapped, "the semitone distance is returned as computed - neither reduced nor clamped (the caller decides by its size whether the degree fits the bitmap; a flattened unison is -1, i.e. 11 after the caller's own reduction)" if not wrapped else "the returned distance is reduced or clamped (%s): degrees beyond the bitmap length (9, 11, 13) are folded into it instead of being discarded, a flattened unison (b1) no longer comes out one below the root" % ", ".join(sorted({call_name(x) or "%" for x in wrapped})), node=rets[-1].node)


def rule_strictbass(ctx):
    """encode(strict_bass_intervals=True) tests the bass against the *final* interval set: the bitmap that is tested is
    the binarised bitmap after all added/omitted degrees, the same one that is returned."""
    R = "C10.STRICTBASS"
    f = ctx.program.func("chord.encode", R)
    s = ctx.S.get(f.qual)
    rs = [r for r in s.by_kind("raise") if any("strict_bass_intervals" in tm.params_of(c) for c, _ in symeval.pc_conds(r.pc))]
    need(len(rs) == 1, R, "encode: strict bass raise not found")
    tested = None
    for c, pol in symeval.pc_conds(rs[0].pc):
        for x in tm.walk(c):
            if tested is None and x.op == "sub" and x.a[0].op != "param" and any(y.op == "call" and call_name(y) == "chord.quality_to_bitmap" for y in tm.walk(x.a[0])):
                tested = x.a[0]  # the outermost read: in-place edits inside the loop read single slots of the bitmap as well
    need(tested is not None, R, "encode: tested bitmap not found")
    final = any(y.op == "call" and call_name(y) == "astype" for y in tm.walk(tested)) and any(y.op in ("loop", "loopvar") for y in tm.walk(tested))
    yield ob(R, f, "chord.encode:strict-tests-final-bitmap", final, "the strict check reads the binarised bitmap after the loop over added/omitted degrees" if final else "the strict check reads %s: the bitmap before the added/omitted degrees are applied (a bass that an addition introduces is rejected, one that an omission removes is accepted)" % tm.show(tested, 3), node=rs[0].node)
    normal = [r for r in s.returns if r.term.op == "tuple" and len(r.term.a) == 3]
    need(normal, R, "encode: normal return not found")
    base = normal[-1].term.a[1]
    while base.op == "upd":
        base = base.a[0]
    yield ob(R, f, "chord.encode:strict-tests-returned-bitmap", base is tested, "the tested bitmap is the returned one before the bass bit is set")


def rule_formatsafe(ctx):
    yield from common.rule_formatsafe(ctx, "C10.FORMATSAFE", ("chord.py",))


def rule_degreemodulo(ctx):
    """encode() hands its reduce_extended_chords flag to scale_degree_to_bitmap for every added / omitted degree: that
    flag decides whether a 9th / 11th / 13th is folded into the octave or discarded (the helper's own default is False,
    whatever its docstring says)."""
    R = "C10.DEGREEMODULO"
    f = ctx.program.func("chord.encode", R)
    s = ctx.S.get(f.qual)
    cs = [c for c in s.calls() if c.callee == "chord.scale_degree_to_bitmap"]
    need(cs or "chord.scale_degree_to_bitmap" in getattr(s, "inlined", ()) or any(c.callee == "chord.scale_degree_to_semitone" for c in s.calls()), R, "encode: the degrees are no longer turned into bitmap edits by a call this rule knows")
    g = ctx.program.func("chord.scale_degree_to_bitmap", R) if ctx.program.has_func("chord.scale_degree_to_bitmap") else None
    for k, c in enumerate(cs):
        b = {}
        for i_, a in enumerate(c.args):
            if g is not None and i_ < len(g.params):
                b[g.params[i_]] = a
        for n_, v_ in c.kw:
            b[n_] = v_
        m = b.get("modulo")
        good = m is not None and m.op == "param" and m.a[0] == "reduce_extended_chords"
        yield ob(R, f, "chord.encode:degree-modulo@%d" % k, good, "scale_degree_to_bitmap(.., modulo=reduce_extended_chords)" if good else "scale_degree_to_bitmap is called with modulo=%s: with reduce_extended_chords=True the extended degrees (9, 11, 13) are discarded instead of folded into the octave" % (tm.show(m, 2) if m is not None else "its default (False)"), node=c.node)
    if not cs:
        yield ob(R, f, "chord.encode:degree-modulo", True, "degrees are applied in place by encode() itself (no call of scale_degree_to_bitmap)")


RULES = [
    ("C10.DEGREEMODULO", 1, rule_degreemodulo),
    ("C10.FORMATSAFE", 1, rule_formatsafe),
    ("C10.GRAMMAR", 3, rule_grammar),
    ("C10.SPLITSAFE", 5, rule_splitsafe),
    ("C10.EXC", 9, rule_exc),
    ("C10.TABLES", 75, rule_tables),
    ("C10.ENCODEPOST", 9, rule_encodepost),
    ("C10.JOINFORM", 2, rule_joinform),
    ("C10.TABLESAFE", 9, rule_tablesafe),
    ("C10.BITMAPGUARD", 3, rule_bitmapguard),
    ("C10.DEGREEPARSE", 2, rule_degreeparse),
    ("C10.STRICTBASS", 2, rule_strictbass),
]

from . import common as _common_purity
RULES = RULES + _common_purity.purity_rules("C10")
