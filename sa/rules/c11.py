"""C11 - chord comparison rules form the documented lattice."""

from __future__ import annotations

import ast

from .. import terms as tm
from ..model import AnalysisError
from .common import count_form, ob, need, call_name, roles, swap_roles, role_of, lit, is_lit, resolve_ite_free
from . import common
from .. import symeval
from ..constfold import table, NpArray

PROP = "C11"
EXPLANATION = (
    "Static decision of C11 on the 12 comparison functions: each equality rule is a product of mirror equalities on facets of "
    "encode_many(labels, False) - ROOT, BASS, SEMI[3], SEMI[0:8], SEMI[all]; the extracted facet sets realise every arrow of the documented "
    "lattice by set inclusion; every -1 store is indexed by a term that depends on the reference only; the looser rule is never masked where "
    "the stricter one matches; results are created from Boolean factors and afterwards only assigned constants in {-1, 1}; the vocabularies "
    "of majmin/sevenths (and the chord-tone test of the _inv variants) read the documented QUALITIES entries; every conjunct compares a facet "
    "with its own mirror image (reflexivity); mirex uses one threshold for hit and skip, rotates both sides by their own roots and scores N-N as 1."
)
RULE_TEXT = "one obligation per (comparison function, clause); lattice arrows are one obligation each; exhaustive over the 12 functions"

PLAIN = ["root", "thirds", "thirds_inv", "triads", "triads_inv", "tetrads", "tetrads_inv"]
VOCAB = ["majmin", "majmin_inv", "sevenths", "sevenths_inv"]
EXPECTED = {
    "root": {"ROOT"},
    "thirds": {"ROOT", "SEMI3"},
    "thirds_inv": {"ROOT", "SEMI3", "BASS"},
    "triads": {"ROOT", "SEMI0:8"},
    "triads_inv": {"ROOT", "SEMI0:8", "BASS"},
    "tetrads": {"ROOT", "SEMIall"},
    "tetrads_inv": {"ROOT", "SEMIall", "BASS"},
    "majmin": {"ROOT", "SEMI0:8"},
    "majmin_inv": {"ROOT", "SEMI0:8", "BASS"},
    "sevenths": {"ROOT", "SEMIall"},
    "sevenths_inv": {"ROOT", "SEMIall", "BASS"},
}
# documented lattice: stricter => looser
ARROWS = [
    ("tetrads_inv", "tetrads"),
    ("tetrads", "triads"),
    ("triads", "thirds"),
    ("thirds", "root"),
    ("thirds_inv", "thirds"),
    ("triads_inv", "triads"),
    ("tetrads_inv", "triads_inv"),
    ("triads_inv", "thirds_inv"),
    ("majmin", "triads"),
    ("majmin_inv", "majmin"),
    ("sevenths", "tetrads"),
    ("sevenths_inv", "sevenths"),
    ("majmin_inv", "triads_inv"),
    ("sevenths_inv", "tetrads_inv"),
]
IMPLIES = {"SEMIall": {"SEMIall", "SEMI0:8", "SEMI3"}, "SEMI0:8": {"SEMI0:8", "SEMI3"}, "SEMI3": {"SEMI3"}, "ROOT": {"ROOT"}, "BASS": {"BASS"}}


def component(t):
    """(labels param name, component index 0/1/2, remaining index term or None) for a facet of
    encode_many(<labels>, False)."""
    rest = None
    x = t
    # optional trailing facet index, e.g. [:, 3] or [:, :8]
    if x.op == "sub" and x.a[0].op == "sub":
        inner = _comp_only(x.a[0])
        if inner is not None:
            return inner + (x.a[1],)
    c = _comp_only(x)
    if c is not None:
        return c + (None,)
    return None


def _comp_only(x):
    if x.op != "sub" or not (x.a[1].op == "const" and isinstance(x.a[1].a[0], float)):
        return None
    k = int(x.a[1].a[0])
    base = x.a[0]
    if base.op == "sub" and base.a[1].op == "slice":
        lo, hi, st = base.a[1].a
        if not (tm.is_const(lo, None) and tm.is_const(st, None)):
            return None
        if not tm.is_const(hi, None):
            if not (hi.op == "const" and k < hi.a[0]):
                return None
        base = base.a[0]
    if base.op == "call" and call_name(base) == "chord.encode_many" and len(base.a[1]) >= 1 and base.a[1][0].op == "param":
        red = base.a[1][1] if len(base.a[1]) > 1 else None
        for n, v in base.a[2]:
            if n == "reduce_extended_chords":
                red = v
        if red is not None and not tm.is_const(red, False):
            return None
        return (base.a[1][0].a[0], k)
    return None


def facet_of(t):
    c = component(t)
    if c is None:
        return None
    p, k, rest = c
    if k == 0 and rest is None:
        return (p, "ROOT")
    if k == 2 and rest is None:
        return (p, "BASS")
    if k == 1:
        if rest is None:
            return (p, "SEMIall")
        if rest.op == "tuple" and len(rest.a) == 2 and rest.a[0].op == "slice" and all(tm.is_const(z, None) for z in rest.a[0].a):
            j = rest.a[1]
            if tm.is_const(j, 3):
                return (p, "SEMI3")
            if j.op == "slice" and tm.is_const(j.a[0], None) and tm.is_const(j.a[1], 8) and tm.is_const(j.a[2], None):
                return (p, "SEMI0:8")
            if j.op == "slice" and all(tm.is_const(z, None) for z in j.a):
                return (p, "SEMIall")
            if j.op == "slice" and tm.is_const(j.a[0], None) and tm.is_const(j.a[2], None) and (tm.is_const(j.a[1], 12) or (j.a[1].op == "glob" and j.a[1].a[0] == "chord.BITMAP_LENGTH")):
                return (p, "SEMIall")  # the first BITMAP_LENGTH (= 12, C10.TABLES) columns are all of them
    return None


def _and_pair(t):
    """(a, b) when t is the element-wise conjunction of two Boolean arrays: np.logical_and(a, b), a & b, a * b"""
    if t.op == "call" and call_name(t) == "np.logical_and" and len(t.a[1]) == 2:
        return t.a[1][0], t.a[1][1]
    if t.op == "bin" and t.a[0] in ("&", "*"):
        return t.a[1], t.a[2]
    return None


def split_product(t):
    if t.op == "bin" and t.a[0] in ("*", "&"):
        return split_product(t.a[1]) + split_product(t.a[2])
    if t.op == "call" and call_name(t) == "np.logical_and" and len(t.a[1]) == 2:
        return split_product(t.a[1][0]) + split_product(t.a[1][1])
    return [t]


def conjunct_facet(c):
    """Facet name when ``c`` is a mirror equality on one facet, else (None, why)."""
    eq = c
    if c.op == "call" and call_name(c) == "np.all" and c.a[1]:
        ax = None
        for n, v in c.a[2]:
            if n == "axis":
                ax = v
        if len(c.a[1]) > 1:
            ax = c.a[1][1]
        if ax is None or not (tm.is_const(ax, 1) or tm.is_const(ax, -1)):
            return None, "np.all without axis=1"
        eq = c.a[1][0]
    if not (eq.op == "cmp" and eq.a[0] == "=="):
        return None, "not an equality: %s" % tm.show(eq, 3)
    fa, fb = facet_of(eq.a[1]), facet_of(eq.a[2])
    if fa is None or fb is None:
        return None, "operand is not a facet of encode_many(labels, False): %s" % tm.show(eq, 3)
    if fa[1] != fb[1]:
        return None, "compares different facets %s vs %s" % (fa[1], fb[1])
    ra, rb = role_of(fa[0]), role_of(fb[0])
    if {ra, rb} != {"R", "E"}:
        return None, "does not compare reference with estimate"
    if fa[1].startswith("SEMI") and fa[1] != "SEMI3" and eq is c:
        return None, "bitmap equality not reduced with np.all(axis=1)"
    return fa[1], None


def result_chain(t):
    """(base term, [(index term, value term)]) of the result array's store chain."""
    stores = []
    while t.op == "upd" and t.a[1] == "setitem":
        stores.append((t.a[2], t.a[3]))
        t = t.a[0]
    stores.reverse()
    return t, stores


def _has_marks(t):
    """the result carries -1 stores (directly, or in a block of scores stored into it)"""
    return any(z.op == "upd" and z.a[1] == "setitem" and is_lit(z.a[3]) and lit(z.a[3]) < 0 for z in tm.walk(t))


def model(ctx, name, rule):
    f = ctx.program.func("chord." + name, rule)
    s = ctx.S.get(f.qual)
    rets = list(s.returns)
    if len(rets) > 1:
        # several exits: the comparison proper is the one whose result receives the -1 ("not comparable") marks; an
        # exit that returns nothing (an empty array) needs none; an exit that hands out a constant-filled score vector
        # has skipped the marks - judged by rule_fastexit; anything else is not a shape these rules read
        masked = [r for r in rets if _has_marks(r.term)]
        need(len(masked) == 1, rule, "chord.%s: expected a single return" % name)
        for r in rets:
            if r is masked[0]:
                continue
            t = r.term
            empty = t.op == "call" and call_name(t) == "np.array" and t.a[1] and t.a[1][0].op in ("list", "tuple") and not t.a[1][0].a
            const_fill = t.op == "call" and call_name(t) in ("np.ones", "np.zeros", "np.full", "np.ones_like", "np.zeros_like")
            need(empty or const_fill, rule, "chord.%s: expected a single return" % name)
        rets = masked
    base, stores = result_chain(rets[0].term)
    return f, s, base, stores


def rule_fastexit(ctx):
    """Every exit of a comparison function that returns scores has applied the reference-only "not comparable" marks:
    a fast path that hands out a constant-filled vector (all ones for "identical pairs") scores X and out-of-vocabulary
    references that the documented comparison marks -1."""
    R = "C11.FASTEXIT"
    n = 0
    for name in list(PLAIN) + [x for x in ("mirex", "thirds_inv", "triads_inv", "tetrads_inv", "majmin_inv", "sevenths_inv") if x not in PLAIN]:
        if not ctx.program.has_func("chord." + name):
            continue
        f = ctx.program.func("chord." + name, R)
        s = ctx.S.get(f.qual)
        rets = list(s.returns)
        masked = [r for r in rets if _has_marks(r.term)]
        if len(rets) == 1:
            n += 1
            yield ob(R, f, "chord.%s:exits" % name, True, "single exit")
            continue
        for k, r in enumerate(rets):
            if r in masked:
                continue
            t = r.term
            empty = t.op == "call" and call_name(t) == "np.array" and t.a[1] and t.a[1][0].op in ("list", "tuple") and not t.a[1][0].a
            if empty:
                n += 1
                yield ob(R, f, "chord.%s:exit@%d" % (name, k + 1), True, "an exit that returns no scores at all", node=r.node)
                continue
            const_fill = t.op == "call" and call_name(t) in ("np.ones", "np.zeros", "np.full", "np.ones_like", "np.zeros_like")
            if const_fill:
                n += 1
                yield ob(R, f, "chord.%s:exit@%d" % (name, k + 1), False, "an exit returns the constant-filled vector %s (under %s) without the reference-only -1 marks: an X / out-of-vocabulary reference is scored instead of ignored" % (tm.show(t, 2), "; ".join(tm.show(c, 2) for c, _ in symeval.pc_conds(r.pc))), node=r.node)
                continue
            raise AnalysisError(R, "chord.%s: an exit returns %s, which is neither the marked result nor a constant vector" % (name, tm.show(t, 2)))
    need(n >= 5, R, "comparison functions not found")


def rule_conj(ctx):
    sets = {}
    for name in PLAIN + VOCAB:
        f, s, base, stores = model(ctx, name, "C11.CONJ")
        ok_shape = base.op == "call" and call_name(base) == "astype" and len(base.a[1]) == 2
        need(ok_shape, "C11.CONJ", "chord.%s: result is not astype(<product>, float)" % name)
        fl = tm.show(base.a[1][1], 2)
        yield ob("C11.CONJ", f, "chord.%s:float-cast" % name, "float" in fl, "result is cast with %s" % fl)
        facets = set()
        bad = []
        for c in split_product(base.a[1][0]):
            fc, why = conjunct_facet(c)
            if fc is None:
                bad.append(why)
            else:
                facets.add(fc)
        sets[name] = facets if not bad else None
        good = not bad and facets == EXPECTED[name]
        yield ob("C11.CONJ", f, "chord.%s:conjuncts" % name, good, ("conjunct facets %s" % sorted(facets)) + ("" if good else "; expected %s; %s" % (sorted(EXPECTED[name]), "; ".join(bad))))
    for a, b in ARROWS:
        sa, sb = sets.get(a), sets.get(b)
        good = sa is not None and sb is not None and all(any(fb in IMPLIES[fa] for fa in sa) for fb in sb)
        yield ob("C11.CONJ", "mir_eval/chord.py:%d" % ctx.program.func("chord." + a).lineno, "lattice:%s=>%s" % (a, b), good, "%s %s implies %s %s" % (a, sorted(sa or []), b, sorted(sb or [])))


def rule_maskrefonly(ctx):
    for name in PLAIN + VOCAB + ["mirex"]:
        f, s, base, stores = model(ctx, name, "C11.MASKREFONLY")
        k = 0
        for idx, val in stores:
            if is_lit(val) and lit(val) < 0:
                r = roles(idx)
                k += 1
                yield ob("C11.MASKREFONLY", f, "chord.%s:mask@%d" % (name, k), r == {"R"}, "ignore mask depends on %s only" % ("the reference" if r == {"R"} else sorted(r)))
        need(k >= 1, "C11.MASKREFONLY", "chord.%s has no ignore mask" % name)


def xmask_of(t):
    """np.any(<ref bitmap facet> < 0, axis=1)"""
    if t.op == "call" and call_name(t) == "np.any" and t.a[1]:
        c = t.a[1][0]
        if c.op == "cmp" and c.a[0] == "<" and tm.is_const(c.a[2], 0):
            fa = facet_of(c.a[1])
            if fa is not None and fa[1] == "SEMIall" and role_of(fa[0]) == "R":
                return True
    return False


def rule_maskincl(ctx):
    # all plain rules carry exactly the X mask, so a stricter plain rule is never masked where a looser one is not
    X = table(ctx, "chord.X_CHORD_ENCODED", "C11.MASKINCL")
    Q = table(ctx, "chord.QUALITIES", "C11.MASKINCL")
    if isinstance(Q, dict):
        # the templates may be stored as lists or as arrays of the same numbers
        Q = dict((k_, v_.data if isinstance(v_, NpArray) else v_) for k_, v_ in Q.items())
    for name in PLAIN:
        f, s, base, stores = model(ctx, name, "C11.MASKINCL")
        masks = [idx for idx, val in stores if is_lit(val) and lit(val) < 0]
        good = len(masks) == 1 and xmask_of(masks[0])
        yield ob("C11.MASKINCL", f, "chord.%s:x-mask-only" % name, good, "the only ignore mask is `any(ref bitmap < 0)` (the X chord)")
    # X lies outside every vocabulary: its bitmap literal differs from every vocabulary bitmap and from the all-zero N bitmap
    xb = X[1].data
    voc = ["maj", "min", "maj7", "7", "min7", ""]
    good = all(Q[q] != xb and Q[q][:8] != xb[:8] for q in voc) and any(v < 0 for v in xb) and xb != [0] * 12
    yield ob("C11.MASKINCL", "mir_eval/chord.py:1", "X-outside-vocabularies", good, "the X bitmap %s equals no vocabulary bitmap, so X is ignored by majmin/sevenths too" % xb)


def rule_ternary(ctx):
    for name in PLAIN + VOCAB + ["mirex"]:
        f, s, base, stores = model(ctx, name, "C11.TERNARY")
        inner = base.a[1][0] if base.op == "call" and call_name(base) == "astype" else None
        booly = inner is not None and all(_boolean(c) for c in split_product(inner))
        yield ob("C11.TERNARY", f, "chord.%s:boolean-base" % name, booly, "result array is created from Boolean-valued factors")
        vals = [val for _, val in stores]
        good = all(is_lit(v) and lit(v) in (-1, 1, -1.0, 1.0) for v in vals)
        yield ob("C11.TERNARY", f, "chord.%s:stores" % name, good, "later stores assign only constants in {-1, 1}: %s" % [tm.show(v, 2) for v in vals])
        # no other mutation of the result after creation (e.g. in-place arithmetic)
        sc = ctx.S.get(f.qual)
        res_names = {m.root for m in sc.by_kind("mutate") if m.how == "setitem"}
        other = [m for m in sc.by_kind("mutate") if m.root in res_names and m.how not in ("setitem",) and m.how != "out:np.logical_or"]
        yield ob("C11.TERNARY", f, "chord.%s:no-arith" % name, not [m for m in other if m.how == "aug"], "no in-place arithmetic on the result")


def _boolean(c):
    if c.op in ("cmp", "bool"):
        return True
    if c.op == "call" and call_name(c) in ("np.all", "np.any", "np.logical_and", "np.logical_or", "np.logical_not"):
        return True
    return False


def _quality_prefix(t, name, upto):
    """np.array(QUALITIES[name][:upto])"""
    if t.op == "call" and call_name(t) == "np.array" and t.a[1]:
        t = t.a[1][0]
    if upto is not None:
        if not (t.op == "sub" and t.a[1].op == "slice" and tm.is_const(t.a[1].a[0], None) and tm.is_const(t.a[1].a[1], upto)):
            return False
        t = t.a[0]
    return t.op == "sub" and t.a[0].op == "glob" and t.a[0].a[0] == "chord.QUALITIES" and tm.is_const(t.a[1], name)


def _ref_all_equal(t, facet):
    """np.all(<ref facet> == X, axis=1) -> X"""
    if t.op == "call" and call_name(t) == "np.all" and t.a[1]:
        eq = t.a[1][0]
        if eq.op == "cmp" and eq.a[0] == "==":
            for u, v in ((eq.a[1], eq.a[2]), (eq.a[2], eq.a[1])):
                fa = facet_of(u)
                if fa is not None and fa[1] == facet and role_of(fa[0]) == "R":
                    return v
    return None


def _sum_terms(t):
    if t.op == "bin" and t.a[0] in ("+", "|"):
        return _sum_terms(t.a[1]) + _sum_terms(t.a[2])
    if t.op == "call" and call_name(t) == "np.logical_or" and len(t.a[1]) == 2:
        return _sum_terms(t.a[1][0]) + _sum_terms(t.a[1][1])
    return [t]


def _none_of(mask):
    """the Boolean expression X when ``mask`` selects the entries where X is false:
    X == 0, X == False, ~X, not X, np.logical_not(X), np.invert(X); else None"""
    if mask.op == "cmp" and mask.a[0] == "==" and (tm.is_const(mask.a[1], 0) or tm.is_const(mask.a[2], 0)):
        return mask.a[2] if tm.is_const(mask.a[1], 0) else mask.a[1]
    if mask.op == "un" and mask.a[0] in ("~", "not"):
        return mask.a[1]
    if mask.op == "call" and call_name(mask) in ("np.logical_not", "np.invert", "np.bitwise_not") and len(mask.a[1]) == 1:
        return mask.a[1][0]
    return None


def rule_vocab(ctx):
    for name in ("majmin", "majmin_inv"):
        f, s, base, stores = model(ctx, name, "C11.VOCAB")
        masks = [idx for idx, val in stores if is_lit(val) and lit(val) < 0]
        need(masks, "C11.VOCAB", "chord.%s: no mask" % name)
        m0 = masks[0]
        good = False
        why = "vocabulary mask not recognised"
        if _none_of(m0) is not None:
            s_ = _none_of(m0)
            parts = _sum_terms(s_)
            got = set()
            for p in parts:
                v = _ref_all_equal(p, "SEMI0:8")
                if v is not None and _quality_prefix(v, "maj", 8):
                    got.add("maj")
                elif v is not None and _quality_prefix(v, "min", 8):
                    got.add("min")
                elif _and_pair(p) is not None:
                    a, b = _and_pair(p)
                    for u, w in ((a, b), (b, a)):
                        fr = u.op == "cmp" and u.a[0] == "<" and tm.is_const(u.a[2], 0) and facet_of(u.a[1]) is not None and facet_of(u.a[1])[1] == "ROOT" and role_of(facet_of(u.a[1])[0]) == "R"
                        z = _ref_all_equal(w, "SEMIall")
                        if fr and z is not None and tm.is_const(z, 0):
                            got.add("N")
            good = got == {"maj", "min", "N"} and len(parts) == 3
            why = "in-vocabulary iff reference is %s (first 8 semitones / all-zero no-chord)" % sorted(got)
        yield ob("C11.VOCAB", f, "chord.%s:vocabulary" % name, good, why)
    for name in ("sevenths", "sevenths_inv"):
        f, s, base, stores = model(ctx, name, "C11.VOCAB")
        masks = [idx for idx, val in stores if is_lit(val) and lit(val) < 0]
        need(masks, "C11.VOCAB", "chord.%s: no mask" % name)
        m0 = masks[0]
        good = False
        why = "vocabulary mask not recognised"
        if _none_of(m0) is not None:
            s_ = _none_of(m0)
            if s_.op == "call" and call_name(s_) == "np.sum" and any(n == "axis" and tm.is_const(v, 0) for n, v in s_.a[2]):
                arr = s_.a[1][0]
                if arr.op == "call" and call_name(arr) == "np.array":
                    arr = arr.a[1][0]
                if arr.op in ("list", "tuple") and arr.a:
                    # the comprehension over a literal vocabulary, unrolled: one whole-bitmap comparison per quality
                    names = []
                    for e in arr.a:
                        v = _ref_all_equal(e, "SEMIall")
                        while v is not None and v.op == "call" and call_name(v) in ("np.array", "np.asarray") and len(v.a[1]) == 1:
                            v = v.a[1][0]
                        if v is not None and v.op == "sub" and v.a[1].op == "slice" and tm.is_const(v.a[1].a[0], None) and tm.is_const(v.a[1].a[1], 12) and tm.is_const(v.a[1].a[2], None):
                            v = v.a[0]  # [:12] of a 12-entry template is the template
                        if v is not None and v.op == "sub" and v.a[0].op == "glob" and v.a[0].a[0] == "chord.QUALITIES" and v.a[1].op == "const" and isinstance(v.a[1].a[0], str):
                            names.append(v.a[1].a[0])
                        else:
                            names = None
                            break
                    if names is not None:
                        good = sorted(names) == sorted(["maj", "min", "maj7", "7", "min7", ""])
                        why = "in-vocabulary iff the whole reference bitmap equals QUALITIES[q] for q in %s" % names
                if arr.op == "comp" and len(arr.a[2]) == 1:
                    elt, it = arr.a[1], arr.a[2][0]
                    v = _ref_all_equal(elt, "SEMIall")
                    names = _quality_list(it)
                    if v is not None and v.op == "iter" and names is not None:
                        good = sorted(names) == sorted(["maj", "min", "maj7", "7", "min7", ""])
                        why = "in-vocabulary iff the whole reference bitmap equals QUALITIES[q] for q in %s" % names
            # one broadcast comparison: any(all(ref[:, None, :] == V[None, :, :], axis=2), axis=1)
            if s_.op == "call" and call_name(s_) == "np.any" and s_.a[1] and any(n == "axis" and tm.is_const(v, 1) for n, v in s_.a[2]):
                inner = s_.a[1][0]
                if inner.op == "call" and call_name(inner) == "np.all" and inner.a[1] and any(n == "axis" and (tm.is_const(v, 2) or tm.is_const(v, -1)) for n, v in inner.a[2]):
                    eq = inner.a[1][0]
                    if eq.op == "cmp" and eq.a[0] == "==":
                        def _strip_axes(z):
                            # x[:, None, :] / x[None, :, :] -> (x, position of the new axis)
                            if z.op == "sub" and z.a[1].op == "tuple" and len(z.a[1].a) == 3:
                                pos = [i for i, k in enumerate(z.a[1].a) if (k.op == "const" and k.a[0] is None) or (k.op == "ext" and k.a[0] == "np.newaxis")]
                                if len(pos) == 1 and all(k.op == "slice" and all(tm.is_const(q, None) for q in k.a) for i, k in enumerate(z.a[1].a) if i != pos[0]):
                                    return z.a[0], pos[0]
                            return z, None

                        for u, w in ((eq.a[1], eq.a[2]), (eq.a[2], eq.a[1])):
                            ub, upos = _strip_axes(u)
                            wb, wpos = _strip_axes(w)
                            fa = facet_of(ub)
                            names = _quality_list(wb)
                            if fa is not None and fa[1] == "SEMIall" and role_of(fa[0]) == "R" and upos == 1 and wpos in (0, None) and names is not None:
                                good = sorted(names) == sorted(["maj", "min", "maj7", "7", "min7", ""])
                                why = "in-vocabulary iff the whole reference bitmap equals QUALITIES[q] for q in %s (one broadcast comparison)" % names
        yield ob("C11.VOCAB", f, "chord.%s:vocabulary" % name, good, why)
    for name in ("majmin_inv", "sevenths_inv"):
        f, s, base, stores = model(ctx, name, "C11.VOCAB")
        masks = [idx for idx, val in stores if is_lit(val) and lit(val) < 0]
        good = False
        for m in masks:
            if _none_of(m) is not None:
                v = _none_of(m)
                if v.op == "upd" and v.a[1] == "setitem":
                    init, key, val = v.a[0], v.a[2], v.a[3]
                    ones = init.op == "call" and call_name(init) == "np.ones"
                    # key: ref_bass >= 0 ; val: ref_semitones[key, ref_bass[key]]
                    kb = key.op == "cmp" and key.a[0] == "<=" and tm.is_const(key.a[1], 0) and facet_of(key.a[2]) is not None and facet_of(key.a[2])[1] == "BASS" and role_of(facet_of(key.a[2])[0]) == "R"
                    vv = False
                    if val.op == "sub" and val.a[1].op == "tuple" and len(val.a[1].a) == 2:
                        fa = facet_of(val.a[0])
                        i0, i1 = val.a[1].a
                        vv = fa is not None and fa[1] == "SEMIall" and role_of(fa[0]) == "R" and i0 is key and i1.op == "sub" and i1.a[1] is key and facet_of(i1.a[0]) == facet_of(key.a[2])
                    good = ones and kb and vv
            # index form: scores[K[ref_semitones[K, ref_bass[K]] == 0]] = -1 with K = flatnonzero(ref_bass >= 0)
            if not good and m.op == "sub":
                K, inner = m.a
                z = _none_of(inner)
                kcond = K.a[1][0] if K.op == "call" and call_name(K) in ("np.flatnonzero", "np.nonzero", "np.where") and len(K.a[1]) == 1 else (K if K.op == "cmp" else None)
                if K.op == "sub" and tm.is_const(K.a[1], 0) and K.a[0].op == "call" and call_name(K.a[0]) in ("np.nonzero", "np.where") and len(K.a[0].a[1]) == 1:
                    kcond = K.a[0].a[1][0]
                if z is not None and kcond is not None:
                    kb = kcond.op == "cmp" and kcond.a[0] == "<=" and tm.is_const(kcond.a[1], 0) and facet_of(kcond.a[2]) is not None and facet_of(kcond.a[2])[1] == "BASS" and role_of(facet_of(kcond.a[2])[0]) == "R"
                    vv = False
                    if z.op == "sub" and z.a[1].op == "tuple" and len(z.a[1].a) == 2:
                        fa = facet_of(z.a[0])
                        i0, i1 = z.a[1].a
                        vv = fa is not None and fa[1] == "SEMIall" and role_of(fa[0]) == "R" and i0 is K and i1.op == "sub" and i1.a[1] is K and kb and facet_of(i1.a[0]) == facet_of(kcond.a[2])
                    good = kb and vv
            # mask form: (ref_bass >= 0) & (ref_semitones[arange(n), ref_bass] == 0)
            if not good and _and_pair(m) is not None:
                for u, w in (_and_pair(m), _and_pair(m)[::-1]):
                    kb = u.op == "cmp" and u.a[0] == "<=" and tm.is_const(u.a[1], 0) and facet_of(u.a[2]) is not None and facet_of(u.a[2])[1] == "BASS" and role_of(facet_of(u.a[2])[0]) == "R"
                    z = _none_of(w)
                    if z is None and w.op == "cmp" and w.a[0] == "==" and (tm.is_const(w.a[1], 0) or tm.is_const(w.a[2], 0)):
                        z = w.a[2] if tm.is_const(w.a[1], 0) else w.a[1]
                    if z is not None and z.op == "cmp" and z.a[0] == "!=" and (tm.is_const(z.a[1], 0) or tm.is_const(z.a[2], 0)):
                        z = z.a[2] if tm.is_const(z.a[1], 0) else z.a[1]
                    if kb and z is not None and z.op == "sub" and z.a[1].op == "tuple" and len(z.a[1].a) == 2:
                        fa = facet_of(z.a[0])
                        i0, i1 = z.a[1].a
                        rows = i0.op == "call" and call_name(i0) == "np.arange"
                        if fa is not None and fa[1] == "SEMIall" and role_of(fa[0]) == "R" and rows and facet_of(i1) == facet_of(u.a[2]):
                            good = True
        yield ob("C11.VOCAB", f, "chord.%s:bass-is-chord-tone" % name, good, "a reference whose bass is not a chord tone (bitmap[bass] == 0) is ignored")


def _quality_list(it):
    """np.array([QUALITIES[name] for name in [...]]) -> list of names"""
    if it.op == "call" and call_name(it) == "np.array":
        it = it.a[1][0]
    if it.op == "list" and it.a and all(x.op == "sub" and x.a[0].op == "glob" and x.a[0].a[0] == "chord.QUALITIES" and x.a[1].op == "const" and isinstance(x.a[1].a[0], str) for x in it.a):
        return [x.a[1].a[0] for x in it.a]  # the comprehension over a literal list of names, unrolled
    if it.op == "comp" and len(it.a[2]) == 1 and it.a[2][0].op == "list":
        elt = it.a[1]
        if elt.op == "sub" and elt.a[0].op == "glob" and elt.a[0].a[0] == "chord.QUALITIES" and elt.a[1].op == "iter":
            lst = it.a[2][0]
            if all(x.op == "const" and isinstance(x.a[0], str) for x in lst.a):
                return [x.a[0] for x in lst.a]
    return None


def rule_reflex(ctx):
    """Every conjunct compares a facet with its own mirror image: swap(ref side) is the est side."""
    for name in PLAIN + VOCAB:
        f, s, base, stores = model(ctx, name, "C11.REFLEX")
        inner = base.a[1][0]
        bad = []
        n = 0
        for c in split_product(inner):
            eq = c.a[1][0] if (c.op == "call" and call_name(c) == "np.all") else c
            if eq.op == "cmp" and eq.a[0] == "==":
                n += 1
                fa, fb = facet_of(eq.a[1]), facet_of(eq.a[2])
                from .common import counterpart

                mirror = fa is not None and fb is not None and fa[1] == fb[1] and counterpart(fa[0]) == fb[0]
                if not mirror and swap_roles(eq.a[1], f) is not eq.a[2]:
                    bad.append(tm.show(eq, 3))
            else:
                bad.append(tm.show(c, 3))
        yield ob("C11.REFLEX", f, "chord.%s:mirror-conjuncts" % name, not bad and n >= 1, "all %d conjuncts are `facet(ref) == facet(est)` with identical facets" % n if not bad else "non-mirror conjuncts: %s" % bad)


def rule_mirexconst(ctx):
    f, s, base, stores = model(ctx, "mirex", "C11.MIREXCONST")
    need(base.op == "call" and call_name(base) == "astype", "C11.MIREXCONST", "mirex: result shape changed")
    hit = base.a[1][0]
    good_hit = hit.op == "cmp" and hit.a[0] == "<=" and is_lit(hit.a[1])
    thr = lit(hit.a[1]) if good_hit else None
    yield ob("C11.MIREXCONST", f, "chord.mirex:hit-threshold", good_hit and thr == 3, "a hit needs >= %r shared pitch classes" % thr)
    # shared count = sum over the pitch axis of the product of both sides rotated by their own roots
    shared = hit.a[2] if good_hit else None
    rot_ok = False
    if shared is not None and shared.op == "call" and call_name(shared) == "np.sum":
        prod = shared.a[1][0]
        if prod.op == "bin" and prod.a[0] == "*":
            a, b = prod.a[1], prod.a[2]

            def rot(x):
                if x.op == "call" and call_name(x) == "chord.rotate_bitmaps_to_roots" and len(x.a[1]) == 2:
                    fb, fr = facet_of(x.a[1][0]), facet_of(x.a[1][1])
                    if fb and fr and fb[1] == "SEMIall" and fr[1] == "ROOT" and fb[0] == fr[0]:
                        return role_of(fb[0])
                return None

            rot_ok = {rot(a), rot(b)} == {"R", "E"} and swap_roles(a, f) is b
    yield ob("C11.MIREXCONST", f, "chord.mirex:rotation", rot_ok, "both bitmaps are rotated by their own root with the same function before intersecting")
    skip = [idx for idx, val in stores if is_lit(val) and lit(val) < 0]
    one = [idx for idx, val in stores if is_lit(val) and lit(val) == 1]
    # skip threshold equals the hit threshold
    skip_thr = None
    lower_ok = False
    for sk in skip:
        for x in tm.walk(sk):
            if x.op == "cmp" and x.a[0] == "<" and is_lit(x.a[2]) and x.a[1].op == "call" and call_name(x.a[1]) == "np.sum":
                skip_thr = lit(x.a[2])
            if x.op == "cmp" and x.a[0] == "<" and tm.is_const(x.a[1], 0) and x.a[2].op == "call" and call_name(x.a[2]) == "np.sum":
                lower_ok = True
            if x.op == "cmp" and x.a[0] == "<=" and tm.is_const(x.a[1], 1) and x.a[2].op == "call" and call_name(x.a[2]) == "np.sum":
                lower_ok = True
            # membership of the integer count in range(lo, hi): lo <= count < hi
            if x.op == "call" and call_name(x) in ("np.isin", "np.in1d") and len(x.a[1]) == 2 and x.a[1][0].op == "call" and call_name(x.a[1][0]) == "np.sum":
                rng = x.a[1][1]
                if rng.op == "call" and call_name(rng) in ("np.arange", "builtins.range") and len(rng.a[1]) == 2 and is_lit(rng.a[1][0]) and is_lit(rng.a[1][1]):
                    skip_thr = lit(rng.a[1][1])
                    lower_ok = lit(rng.a[1][0]) == 1
    yield ob("C11.MIREXCONST", f, "chord.mirex:skip-threshold", skip_thr is not None and skip_thr == thr and lower_ok, "references with 1..%s-1 pitch classes are skipped (count > 0 and count < threshold); same constant as the hit threshold (%r)" % (skip_thr, thr))
    xm = any(any(xmask_of(x) for x in tm.walk(sk)) for sk in skip)
    yield ob("C11.MIREXCONST", f, "chord.mirex:x-skipped", xm, "X references (negative bitmap) are skipped")
    nn = False
    for o in one:
        if _and_pair(o) is not None:
            a, b = _and_pair(o)
            fa = [facet_of(z.a[2]) if (z.op == "cmp" and z.a[0] == "==" and tm.is_const(z.a[1], -1)) else None for z in (a, b)]
            if all(x is not None and x[1] == "ROOT" for x in fa) and {role_of(fa[0][0]), role_of(fa[1][0])} == {"R", "E"}:
                nn = True
    yield ob("C11.MIREXCONST", f, "chord.mirex:both-N", nn, "reference and estimate both without root (N) score 1")
    # order of the stores: the N-N store precedes the skip store, so an X reference stays ignored
    order_ok = bool(stores) and is_lit(stores[-1][1]) and lit(stores[-1][1]) < 0
    yield ob("C11.MIREXCONST", f, "chord.mirex:store-order", order_ok, "the ignore store is the last store")


def rule_encodepure(ctx):
    """Shared with C10/C15: encoding a label never writes a module-level table, so a comparison cannot depend on earlier calls."""
    from . import c10

    for o in c10.rule_tablesafe(ctx):
        o.rule = "C11.ENCODEPURE"
        yield o


def _only_encode_results(t, depth=0):
    """is ``t`` a per-call cache (dict threaded through the loop) whose every stored value is an encode() result?"""
    if depth > 12:
        return False
    if t.op in ("loopvar",):
        return _only_encode_results(t.a[2], depth + 1)
    if t.op == "loop":
        return _only_encode_results(t.a[2], depth + 1) and _only_encode_results(t.a[3], depth + 1)
    if t.op == "ite":
        return _only_encode_results(t.a[1], depth + 1) and _only_encode_results(t.a[2], depth + 1)
    if t.op == "upd":
        v = t.a[3]
        return t.a[1] == "setitem" and v.op == "call" and call_name(v) == "chord.encode" and _only_encode_results(t.a[0], depth + 1)
    if t.op == "dict" and not t.a:
        return True
    if t.op == "call" and call_name(t) in ("builtins.dict", "collections.OrderedDict") and not t.a[1]:
        return True
    return False


def rule_encodeall(ctx):
    """encode_many encodes *every* label with encode() (directly or through its per-call cache of encode() results):
    no label is special-cased on the way, so X keeps its all-ones placeholder bitmap and N its empty one, which is
    what the ignore masks of the comparison functions test."""
    R = "C11.ENCODEALL"
    f = ctx.program.func("chord.encode_many", R)
    s = ctx.S.get(f.qual)
    outs = {}
    for m in s.by_kind("mutate"):
        if m.how == "setitem" and m.root in ("roots", "semitones", "basses") or (m.how == "setitem" and m.key is not None and m.key.op == "idx"):
            name = m.root
            tg = m.d.get("target")
            if name not in ("roots", "semitones", "basses") and isinstance(tg, ast.Subscript) and isinstance(tg.value, ast.Attribute):
                name = ast.unparse(tg.value)  # the three arrays held as fields of one record: encoded.roots[i] = ...
            outs.setdefault(name, []).append(m)
    need(len(outs) >= 3, R, "encode_many: the three output stores were not found")
    # per-field codebooks: lists that only ever receive one fixed component of encode(label, reduce)
    books = {}
    by_root = {}
    for m in s.by_kind("mutate"):
        if m.root is not None and m.root not in outs and not any(m is x for ms in outs.values() for x in ms):
            by_root.setdefault(m.root, []).append(m)
    for rt, ms in by_root.items():
        ks = set()
        for m in ms:
            v = m.val.a[0] if m.how == "method:append" and m.val.op == "tuple" and len(m.val.a) == 1 else None
            if v is not None and v.op == "sub" and v.a[1].op == "const" and v.a[0].op == "call" and call_name(v.a[0]) == "chord.encode" and v.a[0].a[1] and v.a[0].a[1][0].op == "iter":
                ks.add(v.a[1].a[0])
            else:
                ks.add(None)
        if len(ks) == 1 and None not in ks:
            books[rt] = ks.pop()

    def book_of(t, depth=0):
        if depth > 12:
            return None
        if t.op in ("loop", "loopvar"):
            return t.a[1] if t.a[1] in books else None
        if t.op == "upd":
            return book_of(t.a[0], depth + 1)
        if t.op == "ite":
            a, b = book_of(t.a[1], depth + 1), book_of(t.a[2], depth + 1)
            return a if a == b else None
        return None

    unread = []
    definite = False
    for root, ms in sorted(outs.items(), key=lambda kv: (kv[0] not in ("basses", "roots", "semitones"), kv[0])):
        for k, m in enumerate(ms):
            v0 = m.val.a[0] if m.val.op == "sub" else m.val
            alts = resolve_ite_free(v0)
            for z in tm.walk(m.val):
                if z.op == "call" and z.a[0].op == "class":
                    # an instance of a class defined in the module carries the encodings: objects with their own
                    # methods (__missing__, __getitem__) are outside what the summaries model
                    raise AnalysisError(R, "encode_many: output %s[i] is read from an instance of %s; user-defined container classes are not modelled" % (root, z.a[0].a[0]))
            if m.val.op == "sub" and book_of(m.val.a[0]) is not None:
                alts = [m.val]  # book[slot]: an entry of a codebook of encode() components
            good = bool(alts)
            for a in alts:
                # component of encode(label, reduce) or of a cache lookup whose entries are such results
                base = a.a[0] if a.op == "sub" else a
                is_enc = base.op == "call" and call_name(base) == "chord.encode" and base.a[1] and base.a[1][0].op == "iter"
                is_cache = base.op == "call" and call_name(base) in (".get",) or (base.op == "sub" and _only_encode_results(base.a[0])) or (a.op == "sub" and _only_encode_results(a.a[0]))
                is_book = a.op == "sub" and book_of(a.a[0]) is not None
                good = good and (is_enc or is_cache or is_book)
            conds = [tm.show(c, 2) for c, _ in symeval.pc_conds(m.pc)]
            forms_ok = good
            good = good and not conds
            # (a store of a recognised encode() component under a label-dependent condition is a definite bypass)
            if not good and not forms_ok and any(z.op == "call" and call_name(z) == "chord.encode" for z in tm.walk(m.val)) and not any(is_lit(a_) for a_ in alts):
                # built from encode() results through plumbing this rule has no form for (integer codes and a gather,
                # ...): not by itself a label that bypasses encode() - unless another store is a definite bypass
                unread.append("output %s is filled from encode() results through %s" % (root, tm.show(m.val, 3)))
                continue
            if not good and not any(is_lit(a_) for a_ in alts) and unread:
                continue  # an auxiliary buffer of the same unread arrangement (integer codes, counters)
            definite = definite or not good
            yield ob(R, f, "chord.encode_many:%s@%d" % (root, k), good, "output %s[i] is a component of encode(label) for every label" % root if good else "output %s[i] is written as %s%s: some labels bypass encode()" % (root, tm.show(m.val, 3), (" under " + "; ".join(conds)) if conds else ""), node=m.node)
    if unread and not definite:
        raise AnalysisError(R, "encode_many: %s; this arrangement is not one the rule reads" % unread[0])
    # the cache only ever holds encode() results
    out_sites = {id(x) for ms in outs.values() for x in ms}
    for m in s.by_kind("mutate"):
        if m.how == "setitem" and m.root not in outs and id(m) not in out_sites:
            v = m.val
            cf = count_form(v)
            if cf is not None and book_of(cf[1]) is not None:
                continue  # label -> position in a codebook
            good = v.op == "call" and call_name(v) == "chord.encode"
            yield ob(R, f, "chord.encode_many:cache-store", good, "the per-call cache stores encode(label, reduce_extended_chords)", node=m.node)




RULES = [
    ("C11.FASTEXIT", 10, rule_fastexit),
    ("C11.ROTATEROWS", 2, common.shared("c09", "rule_rotaterows", "C11.ROTATEROWS")),
    ("C11.ENCODEPOST", 2, common.shared("c10", "rule_encodepost", "C11.ENCODEPOST")),
    ("C11.TABLES", 30, common.shared("c10", "rule_tables", "C11.TABLES", keep=lambda o: "QUALITIES" in o.construct or "EXTENDED" in o.construct)),
    ("C11.ENCODEPURE", 9, rule_encodepure),
    ("C11.CONJ", 36, rule_conj),
    ("C11.MASKREFONLY", 14, rule_maskrefonly),
    ("C11.MASKINCL", 8, rule_maskincl),
    ("C11.TERNARY", 36, rule_ternary),
    ("C11.VOCAB", 6, rule_vocab),
    ("C11.REFLEX", 10, rule_reflex),
    ("C11.MIREXCONST", 6, rule_mirexconst),
    ("C11.ENCODEALL", 4, rule_encodeall),
]

from . import common as _common_purity
RULES = RULES + _common_purity.purity_rules("C11")
