"""C12 - interval scores are duration-weighted and blind to how time is cut up (structural clauses)."""

from __future__ import annotations

from .. import terms as tm
from .. import oracles
from ..model import AnalysisError
from .common import ob, need, call_name, is_lit, lit, role_of, roles
from . import common
from .. import symeval

PROP = "C12"
EXPLANATION = (
    "Static decision of C12's mechanisms: (PIPELINE) in chord.evaluate the estimate is cropped/padded to the reference's own span, every "
    "accuracy is weighted_accuracy(rule(ref_labels, est_labels), durations) with labels and durations taken from the one common refinement "
    "returned by merge_labeled_intervals, and the segmentation scores take merge_chord_intervals of the reference and of the adjusted "
    "estimate; (WEIGHTNORM) weighted_accuracy normalises by the sum of the weights that survive the comparable-mask, so it is homogeneous of "
    "degree 0 in the weights, and its degenerate exits return the literal 0; (SEGMERGE) merge_chord_intervals fuses neighbours exactly when "
    "root, bitmap and bass all agree and extends the previous interval's end; (FRAMEONLY) segment labelling metrics see interval arrays only "
    "through validation, emptiness tests and the frame sampler.  That sampled/merged labels are unchanged by a cut is value-level (C13) and not decided."
)
RULE_TEXT = "one obligation per score entry / per clause of weighted_accuracy, merge_chord_intervals and the frame-based metrics"

COMPARISONS = ["thirds", "thirds_inv", "triads", "triads_inv", "tetrads", "tetrads_inv", "root", "mirex", "majmin", "majmin_inv", "sevenths", "sevenths_inv"]


def rule_pipeline(ctx):
    R = "C12.PIPELINE"
    f = ctx.program.func("chord.evaluate", R)
    s = ctx.S.get(f.qual)
    adj = [c for c in s.calls() if c.callee == "util.adjust_intervals"]
    on_ref = [c for c in adj if c.args and c.args[0].op == "param" and role_of(c.args[0].a[0]) == "R"]
    yield ob(R, f, "chord.evaluate:reference-not-adjusted", not on_ref, "the reference annotation is scored on its own span (only the estimate is padded/cropped to it)" if not on_ref else "the reference itself is passed through adjust_intervals (%s): padding it to an absolute time adds a no-chord stretch whose length depends on the time origin" % tm.show(on_ref[0].term, 3), node=on_ref[0].node if on_ref else None)
    adj = [c for c in adj if c not in on_ref]
    need(len(adj) == 1, R, "chord.evaluate: single adjust_intervals call on the estimate expected")
    a = adj[0]
    g = ctx.program.func("util.adjust_intervals")
    b = {}
    for i, x in enumerate(a.args):
        if i < len(g.params):
            b[g.params[i]] = x
    for n, v in a.kw:
        b[n] = v
    iv_ok = b.get("intervals") is not None and b["intervals"].op == "param" and role_of(b["intervals"].a[0]) == "E" and b.get("labels") is not None and b["labels"].op == "param" and role_of(b["labels"].a[0]) == "E"
    tmin, tmax = b.get("t_min"), b.get("t_max")
    span_ok = tmin is not None and tmax is not None and tmin.op == "call" and call_name(tmin) == "np.min" and tmax.op == "call" and call_name(tmax) == "np.max" and tmin.a[1][0].op == "param" and tmin.a[1][0] is tmax.a[1][0] and role_of(tmin.a[1][0].a[0]) == "R" and "intervals" in tmin.a[1][0].a[0]
    fill_ok = all(b.get(k) is not None and b[k].op == "glob" and b[k].a[0] == "chord.NO_CHORD" for k in ("start_label", "end_label"))
    yield ob(R, f, "chord.evaluate:adjust-estimate", iv_ok and span_ok and fill_ok, "the estimate is adjusted to [ref_intervals.min(), ref_intervals.max()] with no-chord padding", node=a.node)
    adj_iv, adj_lab = tm.sub(a.term, tm.const(0)), tm.sub(a.term, tm.const(1))
    mli = [c for c in s.calls() if c.callee == "util.merge_labeled_intervals"]
    need(len(mli) == 1, R, "chord.evaluate: single merge_labeled_intervals call expected")
    m = mli[0]
    args = list(m.args)
    good = len(args) == 4 and args[0].op == "param" and role_of(args[0].a[0]) == "R" and args[1].op == "param" and role_of(args[1].a[0]) == "R" and args[2] is adj_iv and args[3] is adj_lab
    yield ob(R, f, "chord.evaluate:common-refinement", good, "merge_labeled_intervals(ref_intervals, ref_labels, adjusted est_intervals, adjusted est_labels)", node=m.node)
    m_iv, m_rl, m_el = (tm.sub(m.term, tm.const(k)) for k in range(3))
    dur = [c for c in s.calls() if c.callee == "util.intervals_to_durations"]
    need(len(dur) == 1, R, "chord.evaluate: durations call expected")
    yield ob(R, f, "chord.evaluate:durations", len(dur[0].args) == 1 and dur[0].args[0] is m_iv, "weights are intervals_to_durations(<the merged intervals>)", node=dur[0].node)
    stores = {}
    for mu in s.by_kind("mutate"):
        if mu.how == "setitem" and mu.key.op == "const" and isinstance(mu.key.a[0], str):
            stores[mu.key.a[0]] = mu
    for name in COMPARISONS:
        mu = stores.get(name)
        if mu is None:
            yield ob(R, f, "chord.evaluate:%s" % name, False, "entry %r missing" % name)
            continue
        v = mu.val
        good = v.op == "call" and call_name(v) == "chord.weighted_accuracy" and len(v.a[1]) == 2 and v.a[1][1] is dur[0].term and v.a[1][0].op == "call" and call_name(v.a[1][0]) == "chord." + name and list(v.a[1][0].a[1]) == [m_rl, m_el]
        yield ob(R, f, "chord.evaluate:%s" % name, good, "%s = weighted_accuracy(%s(merged ref labels, merged est labels), durations of the merged intervals)" % (name, name), node=mu.node)
    mci = [c for c in s.calls() if c.callee == "chord.merge_chord_intervals"]
    need(len(mci) == 2, R, "chord.evaluate: two merge_chord_intervals calls expected")
    mref = [c for c in mci if roles(c.args[0]) == {"R"} and c.args[0].op == "param" and c.args[1].op == "param"]
    mest = [c for c in mci if c.args[0] is adj_iv and c.args[1] is adj_lab]
    yield ob(R, f, "chord.evaluate:merged-ref", len(mref) == 1, "reference side of the segmentation scores is merge_chord_intervals(ref_intervals, ref_labels)")
    yield ob(R, f, "chord.evaluate:merged-est", len(mest) == 1, "estimate side is merge_chord_intervals of the estimate *after* adjustment to the reference span")
    if len(mref) == 1 and len(mest) == 1:
        for name in ("underseg", "overseg"):
            mu = stores.get(name)
            v = mu.val if mu is not None else None
            good = v is not None and v.op == "call" and call_name(v) == "chord." + name and list(v.a[1]) == [mref[0].term, mest[0].term]
            yield ob(R, f, "chord.evaluate:%s" % name, good, "%s(merged reference intervals, merged estimated intervals)" % name)
        mu = stores.get("seg")
        v = mu.val if mu is not None else None
        good = v is not None and v.op == "call" and call_name(v) in ("builtins.min", "np.minimum") and {tm.show(x, 1) for x in v.a[1]} is not None
        if good:
            inner = set()
            for x in v.a[1]:
                if x.op == "sub" and x.a[1].op == "const":
                    inner.add(x.a[1].a[0])
                elif x.op == "call":
                    inner.add(call_name(x).split(".")[-1])
            good = inner == {"overseg", "underseg"}
        yield ob(R, f, "chord.evaluate:seg", good, "seg = min(overseg, underseg)")


def rule_weightnorm(ctx):
    R = "C12.WEIGHTNORM"
    f = ctx.program.func("chord.weighted_accuracy", R)
    s = ctx.S.get(f.qual)
    main = [r for r in s.returns if not is_lit(r.term)]
    zeros = [r for r in s.returns if is_lit(r.term)]
    need(len(main) == 1, R, "weighted_accuracy: formula return not found")
    t = main[0].term
    good = False
    why = "result is not sum(comparisons * weights / total) over the comparable entries"
    if t.op == "call" and call_name(t) == "np.sum" and t.a[1][0].op == "bin" and t.a[1][0].a[0] == "*":
        prod = t.a[1][0]
        parts = [prod.a[1], prod.a[2]]
        comp = [p for p in parts if "comparisons" in tm.params_of(p) and "weights" not in tm.params_of(p)]
        nw = [p for p in parts if "weights" in tm.params_of(p)]
        if len(comp) == 1 and len(nw) == 1 and nw[0].op == "bin" and nw[0].a[0] == "/":
            w, tot = nw[0].a[1], nw[0].a[2]
            mask_c = comp[0].a[1] if comp[0].op == "sub" else None
            mask_w = w.a[1] if w.op == "sub" else None
            valid = mask_c is not None and mask_c is mask_w and mask_c.op == "cmp" and mask_c.a[0] == "<=" and tm.is_const(mask_c.a[1], 0) and mask_c.a[2].op == "param" and mask_c.a[2].a[0] == "comparisons"
            total_ok = tot.op == "call" and call_name(tot) == "np.sum" and tot.a[1][0] is w
            good = valid and total_ok and comp[0].a[0].op == "param" and w.a[0].op == "param"
            why = "sum(comparisons[valid] * weights[valid] / sum(weights[valid])) with valid = comparisons >= 0: the normaliser is the comparable weight (homogeneous of degree 0)"
            if not total_ok:
                why = "the normaliser %s is not the sum of the filtered weights %s" % (tm.show(tot, 3), tm.show(w, 3))
    yield ob(R, f, "chord.weighted_accuracy:form", good, why, node=main[0].node)
    yield ob(R, f, "chord.weighted_accuracy:degenerate-zero", len(zeros) >= 2 and all(lit(z.term) == 0 for z in zeros), "all-zero weights, no comparable entry and zero comparable weight return 0 (%d exits)" % len(zeros))
    # the degenerate exits test *exact* zero (a tolerance such as np.isclose would break invariance under rescaling the weights)
    exact = True
    def scale_free(c, p):
        # x == 0 / not (x != 0) / not mask.any() / mask-count == 0: tests that do not change when all weights are rescaled
        if c.op == "cmp" and c.a[0] in ("==", "!=") and (tm.is_const(c.a[1], 0) or tm.is_const(c.a[2], 0)):
            return (c.a[0] == "==") == bool(p)
        if c.op == "call" and call_name(c) in ("np.any", "builtins.any") and not p:
            return True
        return False

    for z in zeros:
        c, p = symeval.pc_conds(z.pc)[-1]
        exact = exact and scale_free(c, p)
    yield ob(R, f, "chord.weighted_accuracy:exact-zero-tests", exact, "each degenerate exit is guarded by an exact `== 0` test (scale-free)")


def rule_segmerge(ctx):
    R = "C12.SEGMERGE"
    f = ctx.program.func("chord.merge_chord_intervals", R)
    s = ctx.S.get(f.qual)
    enc = [c for c in s.calls() if c.callee == "chord.encode_many"]
    if len(enc) != 1:
        yield ob(R, f, "chord.merge_chord_intervals:encoding", False, "neighbouring chords are no longer compared through chord.encode_many: differently spelled but identical chords (C#:maj / Db:maj) would not merge")
        yield ob(R, f, "chord.merge_chord_intervals:fusion-condition", False, "fusion is not decided on the encoded (root, bitmap, bass) triple")
        return
    # no return path skips the encoded comparison (a shortcut deciding on the label text merges less than the encoding does)
    # (a loop written with `continue` is summarised with its branch condition abstracted - `nondet` - so the encoding
    # need not appear in the returned term itself; the condition is then read from the comparison sites below)
    bypass = [r for r in s.returns if not any(x is enc[0].term or (x.op == "call" and call_name(x) == "chord.encode_many") or x.op == "nondet" for x in tm.walk(r.term))]
    yield ob(R, f, "chord.merge_chord_intervals:no-bypass", not bypass and not any(symeval.pc_conds(c.pc) for c in enc), "every return is computed from the encoded labels" if not bypass else "a return path yields %s without consulting the encoding (under %s): equal chords spelled differently stay unmerged there" % (tm.show(bypass[0].term, 3), "; ".join(tm.show(c, 3) for c, _ in symeval.pc_conds(bypass[0].pc))), node=bypass[0].node if bypass else None)
    red = enc[0].args[1] if len(enc[0].args) > 1 else dict(enc[0].kw).get("reduce_extended_chords")
    yield ob(R, f, "chord.merge_chord_intervals:encoding", enc[0].args[0].op == "param" and red is not None and tm.is_const(red, True), "labels are encoded with extended chords reduced (encode_many(labels, True))")
    app = [m for m in s.by_kind("mutate") if m.how == "method:append" and m.root]
    ext = [m for m in s.by_kind("mutate") if m.how == "setitem" and m.root and (len(app) != 1 or m.root == app[0].root)]
    need(len(app) == 1 and len(ext) == 1, R, "merge_chord_intervals: append / extend stores not found")
    # a new interval starts iff the encoded chord differs from the previous one in root, bitmap or bass.  The condition
    # is read as a Boolean formula over the three atoms d_k = "component k differs" (x != prev, np.any(x != prev),
    # not np.all(x == prev), ... in any arrangement, De Morgan included) and compared on all 8 valuations.
    conds_app = [(c, p) for c, p in symeval.pc_conds(app[0].pc)]
    # vectorised form: the loop runs over a Boolean mask  m = ones(n); m[1:] = V  with V an element-wise formula over
    # the adjacent differences X[1:] != X[:-1] of the three encodings; the first row always starts an interval
    def mask_formula(c):
        base = c.a[0] if c.op in ("iter", "each") and c.a and hasattr(c.a[0], "op") else None
        if base is None or base.op != "upd" or base.a[1] != "setitem":
            return None
        init, _how, key, val = base.a[0], base.a[1], base.a[2], base.a[3]
        ones = init.op == "call" and call_name(init) == "np.ones" and "bool" in tm.show(init, 3)
        tail = key.op == "slice" and tm.is_const(key.a[0], 1) and tm.is_const(key.a[1], None) and tm.is_const(key.a[2], None)
        if not (ones and tail):
            return None
        return val

    vec = None
    if conds_app:
        vec = mask_formula(conds_app[-1][0])
    if vec is not None:
        conds_app = conds_app[:-1] + [(vec, conds_app[-1][1])]

    def _adjacent(y):
        """X[1:] cmp X[:-1] (either order) with X = encoding component k -> k"""
        def part(z):
            if z.op == "sub" and z.a[1].op == "slice" and z.a[0].op == "sub" and z.a[0].a[0] is enc[0].term and z.a[0].a[1].op == "const":
                sl = z.a[1]
                if tm.is_const(sl.a[0], 1) and tm.is_const(sl.a[1], None) and tm.is_const(sl.a[2], None):
                    return int(z.a[0].a[1].a[0]), "cur"
                if tm.is_const(sl.a[0], None) and tm.is_const(sl.a[1], -1) and tm.is_const(sl.a[2], None):
                    return int(z.a[0].a[1].a[0]), "prev"
            return None, None

        (k1, w1), (k2, w2) = part(y.a[1]), part(y.a[2])
        if k1 is not None and k1 == k2 and {w1, w2} == {"cur", "prev"}:
            return k1
        return None

    def comp_of(y):
        if vec is not None:
            return _adjacent(y)
        for side in (y.a[1], y.a[2]):
            if side.op == "iter" and side.a[0].op == "sub" and side.a[0].a[0] is enc[0].term and side.a[0].a[1].op == "const":
                other = y.a[2] if side is y.a[1] else y.a[1]
                if other.op == "loopvar":
                    return int(side.a[0].a[1].a[0])
        return None

    extra = []  # atoms outside the three comparisons: (term, implied component or None)

    def formula(t):
        """python callable d -> bool over d[0..2] = "component k differs" and d[('x', i)] = value of extra atom i"""
        if t.op == "un" and t.a[0] == "not":
            g = formula(t.a[1])
            return lambda d, g=g: not g(d)
        if t.op == "bool":
            gs = [formula(x) for x in t.a[1:]]
            if t.a[0] == "and":
                return lambda d, gs=gs: all(g(d) for g in gs)
            return lambda d, gs=gs: any(g(d) for g in gs)
        if vec is not None and t.op == "bin" and t.a[0] in ("|", "&"):
            g1, g2 = formula(t.a[1]), formula(t.a[2])
            if t.a[0] == "|":
                return lambda d, g1=g1, g2=g2: g1(d) or g2(d)
            return lambda d, g1=g1, g2=g2: g1(d) and g2(d)
        if vec is not None and t.op == "call" and call_name(t) in ("np.logical_or", "np.logical_and") and len(t.a[1]) == 2:
            g1, g2 = formula(t.a[1][0]), formula(t.a[1][1])
            if call_name(t) == "np.logical_or":
                return lambda d, g1=g1, g2=g2: g1(d) or g2(d)
            return lambda d, g1=g1, g2=g2: g1(d) and g2(d)
        if vec is not None and (t.op == "un" and t.a[0] == "~" or t.op == "call" and call_name(t) == "np.logical_not" and len(t.a[1]) == 1):
            g = formula(t.a[1] if t.op == "un" else t.a[1][0])
            return lambda d, g=g: not g(d)
        if t.op == "call" and call_name(t) in ("np.any", "np.all") and len(t.a[1]) == 1 and t.a[1][0].op == "cmp" and (vec is None or tm.is_const(dict(t.a[2]).get("axis", tm.none()), 1) or tm.is_const(dict(t.a[2]).get("axis", tm.none()), -1)):
            y = t.a[1][0]
            k = comp_of(y)
            if k is not None and call_name(t) == "np.any" and y.a[0] == "!=":
                return lambda d, k=k: d[k]
            if k is not None and call_name(t) == "np.all" and y.a[0] == "==":
                return lambda d, k=k: not d[k]
        if t.op == "cmp" and t.a[0] in ("!=", "=="):
            k = comp_of(t)
            if k is not None:
                if t.a[0] == "!=":
                    return lambda d, k=k: d[k]
                return lambda d, k=k: not d[k]
        # `prev is None` on the previous-chord variable (initialised to None): true only before the first row, where
        # the comparison with the current chord differs anyway
        implied = None
        if t.op == "cmp" and t.a[0] in ("is", "isnot") and any(tm.is_const(z, None) for z in t.a[1:]):
            lv = [z for z in t.a[1:] if z.op == "loopvar"]
            if lv:
                for k in (0, 1, 2):
                    # which component is compared with this loop variable anywhere in the condition?
                    for c0, _p0 in conds_app:
                        for y in tm.walk(c0):
                            if y.op == "cmp" and any(z is lv[0] for z in y.a[1:]) and comp_of(y) == k:
                                implied = (k, t.a[0] == "is")
        idx = len(extra)
        extra.append((t, implied))
        return lambda d, idx=idx: d[("x", idx)]

    good = False
    why = "fusion condition not recognised"
    if conds_app:
        import itertools

        fs = [(formula(c), p) for c, p in conds_app]
        good = True
        witness = None
        for bits in itertools.product([False, True], repeat=3 + len(extra)):
            d = {0: bits[0], 1: bits[1], 2: bits[2]}
            consistent = True
            for i_, (t_, imp) in enumerate(extra):
                d[("x", i_)] = bits[3 + i_]
                if imp is not None:
                    k, when_true = imp
                    is_none = bits[3 + i_] if when_true else (not bits[3 + i_])
                    if is_none and not d[k]:
                        consistent = False
            if not consistent:
                continue
            starts = all(g(d) == p for g, p in fs)
            if starts != (bits[0] or bits[1] or bits[2]):
                good = False
                witness = d
        why = "a new interval starts iff root, bitmap or bass differs from the previous chord (truth table over the three comparisons%s)" % (" and %d auxiliary test(s)" % len(extra) if extra else "") if good else "a new interval does not start exactly when root, bitmap or bass differs: condition %s disagrees for root/bitmap/bass differs = %s%s" % ("; ".join(tm.show(c, 3) for c, _ in conds_app), [witness[0], witness[1], witness[2]], (" with %s = %s" % (tm.show(extra[0][0], 2), witness[("x", 0)])) if extra else "")
    yield ob(R, f, "chord.merge_chord_intervals:fusion-condition", good, why, node=app[0].node)
    # the previous chord is updated when a new interval starts
    new_int = app[0].val.a[0] if app[0].val.op == "tuple" else None
    good = new_int is not None and new_int.op == "list" and len(new_int.a) == 2 and all(x.op == "iter" for x in new_int.a)
    yield ob(R, f, "chord.merge_chord_intervals:new-interval", good, "a new interval is [start, end] of the current row")
    e = ext[0]
    app_key = [(c.id, p) for c, p in symeval.pc_conds(app[0].pc)]
    ext_key = [(c.id, p) for c, p in symeval.pc_conds(e.pc)]
    complementary = len(app_key) == len(ext_key) and app_key[:-1] == ext_key[:-1] and app_key[-1][0] == ext_key[-1][0] and app_key[-1][1] != ext_key[-1][1]
    good = (tm.is_const(e.key, -1) or tm.is_const(e.key, 1)) and e.old.op == "sub" and tm.is_const(e.old.a[1], -1) and e.val.op == "iter" and complementary
    col = e.val.a[0] if e.val.op == "iter" else None
    good = good and col is not None and col.op == "sub" and tm.show(col.a[1], 2).endswith("1)")
    yield ob(R, f, "chord.merge_chord_intervals:extend", good, "otherwise the end of the previous merged interval is moved to the current row's end (merged[-1][-1] = e)", node=e.node)


FRAME_METRICS = ["segment.pairwise", "segment.rand_index", "segment.ari", "segment.mutual_information", "segment.nce"]


def rule_frameonly(ctx):
    R = "C12.FRAMEONLY"
    for q in FRAME_METRICS:
        f = ctx.program.func(q, R)
        s = ctx.S.get(q)
        main = [r for r in s.returns if not (is_lit(r.term) or (r.term.op == "tuple" and all(is_lit(x) for x in r.term.a)))]
        need(len(main) == 1, R, "%s: main return not found" % q)
        t = main[0].term
        bad = []
        ivs = [p for p in f.params if "intervals" in p]
        for x in tm.walk(t):
            if x.op == "call":
                n = call_name(x)
                for i, a in enumerate(x.a[1]):
                    if a.op == "param" and a.a[0] in ivs and not (n == "util.intervals_to_samples" and i == 0):
                        bad.append("%s passed to %s" % (a.a[0], n))
                for kn, a in x.a[2]:
                    if a.op == "param" and a.a[0] in ivs:
                        bad.append("%s passed to %s(%s=)" % (a.a[0], n, kn))
            elif x.op in ("bin", "sub", "attr", "cmp"):
                for a in tm.children(x):
                    if a.op == "param" and a.a[0] in ivs:
                        bad.append("%s used in %s" % (a.a[0], tm.show(x, 2)))
        n_samp = sum(1 for x in tm.walk(t) if x.op == "call" and call_name(x) == "util.intervals_to_samples")
        yield ob(R, f, "%s:intervals-only-sampled" % q, not bad and n_samp >= 2, "interval arrays reach the score only through util.intervals_to_samples (both sides)" if not bad else "; ".join(sorted(set(bad))[:3]))
        # both sides sampled with the same frame size and paired with their own labels
        samp = [x for x in tm.walk(t) if x.op == "call" and call_name(x) == "util.intervals_to_samples"]
        good = len(samp) == 2
        if good:
            fs = {dict(x.a[2]).get("sample_size") for x in samp}
            good = len(fs) == 1 and next(iter(fs)) is not None and next(iter(fs)).op == "param" and next(iter(fs)).a[0] == "frame_size"
            good = good and all(len(x.a[1]) == 2 and role_of(x.a[1][0].a[0]) == role_of(x.a[1][1].a[0]) and "labels" in x.a[1][1].a[0] for x in samp if x.a[1][0].op == "param" and x.a[1][1].op == "param") and {role_of(x.a[1][0].a[0]) for x in samp if x.a[1][0].op == "param"} == {"R", "E"}
        yield ob(R, f, "%s:same-frame-size" % q, good, "reference and estimate are sampled with the same frame_size, each with its own labels")


def rule_nceguard(ctx):
    """Shared with C01: nce's zero-normaliser exits test the entropy normaliser itself (which does not depend on how intervals are cut)."""
    from . import c01

    for o in c01.rule_guardtable(ctx):
        if o.construct.startswith("segment.nce"):
            o.rule = "C12.NCEGUARD"
            yield o


def rule_framemap(ctx):
    """Shared with C17.FRAMEMAP: a segment's frames are [round(start), round(end)) with one rounding for both ends, so
    two same-label pieces of a cut segment tile exactly the frames of the uncut one."""
    from . import c17

    for o in c17.rule_framemap(ctx):
        o.rule = "C12.FRAMEMAP"
        yield o


def rule_nceform_shared(ctx):
    """Shared with C16.NCEFORM: the NCE normalisers come from the contingency table of the sampled frames (number of
    distinct frame labels), not from the number of rows of the annotation, which a same-label cut changes."""
    from . import c16

    for o in c16.rule_nceform(ctx):
        o.rule = "C12.NCEFORM"
        yield o


def rule_cropshared(ctx):
    """Shared with C13.CROPSTRICT / PADSPAN: an estimated interval that straddles the reference start is clipped, not
    dropped - the first kept row is the first one that *ends* after t_min - so cutting that interval in two leaves the
    clipped annotation (and every duration-weighted score) unchanged."""
    from . import c13

    for o in c13.rule_cropstrict(ctx, rule="C12.CROPSHARED"):
        yield o
    for o in c13.rule_padspan(ctx):
        o.rule = "C12.CROPSHARED"
        yield o




RULES = [
    ("C12.INTERVALFACETS", 3, common.shared("c14", "rule_facets", "C12.INTERVALFACETS", keep=lambda o: o.construct.startswith("util.validate_intervals:"))),
    ("C12.VOCAB", 5, common.shared("c11", "rule_vocab", "C12.VOCAB")),
    ("C12.DHDFORM", 3, common.shared("c02", "rule_dhdform", "C12.DHDFORM")),
    ("C12.MERGELOOKUP", 4, common.shared("c13", "rule_mergelookup", "C12.MERGELOOKUP")),
    ("C12.SAMPLING", 4, common.shared("c13", "rule_sides", "C12.SAMPLING", keep=lambda o: o.construct.startswith(("util.interpolate_intervals", "util.intervals_to_samples")))),
    ("C12.DTYPEFLOW", 3, common.rule_dtypeflow("C12.DTYPEFLOW")),
    ("C12.CROPSHARED", 8, rule_cropshared),
    ("C12.FRAMEMAP", 4, rule_framemap),
    ("C12.NCEFORM", 5, rule_nceform_shared),
    ("C12.NCEGUARD", 2, rule_nceguard),
    ("C12.PIPELINE", 21, rule_pipeline),
    ("C12.WEIGHTNORM", 2, rule_weightnorm),
    ("C12.SEGMERGE", 5, rule_segmerge),
    ("C12.FRAMEONLY", 10, rule_frameonly),
]

from . import common as _common_purity
RULES = RULES + _common_purity.purity_rules("C12")
RULES = RULES + _common_purity.bundle_rules("C12")
