"""C13 - interval pre-processing preserves the annotation it re-expresses (decidable facets)."""

from __future__ import annotations

from .. import terms as tm
from ..model import AnalysisError
from .common import count_form, ob, need, call_name, resolve_ite_free
from . import common
from .. import symeval

PROP = "C13"
EXPLANATION = (
    "C13 is almost entirely value-level.  Decided statically: the comparison operators, searchsorted sides, index positions and constants "
    "whose change alters behaviour at a tie - (CROPSTRICT) adjust_intervals keeps a row only if it still has positive duration after clipping "
    "(end > t_min, start < t_max) and pads exactly when the kept span does not reach the bound; adjust_events keeps events inside [t_min, t_max]; "
    "(SIDES) interpolate_intervals locates starts with side='left' and ends with side='right', assigns in input order over a fill_value-initialised "
    "list; (MERGELOOKUP) merge_labeled_intervals takes, for each refined interval, the last input interval starting at or before it, over the unique "
    "union of boundaries; (BOUNDARIES) boundaries<->intervals are zip(b[:-1], b[1:]) and unique(ravel(round(., 5))).  Labels per instant, "
    "duration conservation and the inverse property are not decided."
)
RULE_TEXT = "one obligation per facet (operator / keyword / index / constant) at the site found by dataflow"


def _col(t, base_param, k):
    """t is <something derived from base_param>[:, k]"""
    if t.op == "sub" and t.a[1].op == "tuple" and len(t.a[1].a) == 2 and t.a[1].a[0].op == "slice" and tm.is_const(t.a[1].a[1], k):
        return base_param in tm.params_of(t.a[0])
    return False


def _has_operand(c, pname):
    return any(x.op == "param" and x.a[0] == pname for x in (c.a[1], c.a[2]))


def rule_cropstrict(ctx, rule="C13.CROPSTRICT"):
    f = ctx.program.func("util.adjust_intervals", rule)
    s = ctx.S.get(f.qual)
    aw = [c for c in s.calls() if c.callee in ("np.argwhere", "np.nonzero", "np.flatnonzero", "np.where") and len(c.args) == 1 and c.args[0].op == "cmp"]  # index selections of a Boolean test
    lo = [c for c in aw if _has_operand(c.args[0], "t_min")]
    hi = [c for c in aw if _has_operand(c.args[0], "t_max")]
    if not lo and not hi:
        # binary-search form on the time-ordered columns: first end > t_min is searchsorted(ends, t_min, side="right"),
        # first start >= t_max is searchsorted(starts, t_max, side="left")
        ss = [c for c in s.calls() if c.callee in ("np.searchsorted", ".searchsorted") and len(c.args) >= 2]
        slo = [c for c in ss if c.args[1].op == "param" and c.args[1].a[0] == "t_min"]
        shi = [c for c in ss if c.args[1].op == "param" and c.args[1].a[0] == "t_max"]
        if len(slo) == 1 and len(shi) == 1:
            def side_of(c):
                sd = dict(c.kw).get("side", c.args[2] if len(c.args) > 2 else tm.const("left"))
                return sd.a[0] if sd.op == "const" else None

            g1 = _col(slo[0].args[0], "intervals", 1) and side_of(slo[0]) == "right"
            yield ob(rule, f, "util.adjust_intervals:keep-from", g1, "rows are kept from searchsorted(ends, t_min, side='right'): the first interval with end > t_min" if g1 else "rows are kept from searchsorted(%s, t_min, side=%r): not the first interval whose end is strictly after t_min" % (tm.show(slo[0].args[0], 2), side_of(slo[0])), node=slo[0].node)
            g2 = _col(shi[0].args[0], "intervals", 0) and side_of(shi[0]) == "left"
            yield ob(rule, f, "util.adjust_intervals:keep-until", g2, "rows are kept up to searchsorted(starts, t_max, side='left'): the first interval with start >= t_max" if g2 else "rows are kept up to searchsorted(%s, t_max, side=%r): an interval starting exactly at t_max is kept and clipped to zero duration" % (tm.show(shi[0].args[0], 2), side_of(shi[0])), node=shi[0].node)
            if not (g1 and g2):
                return
    need(len(lo) == 1 and len(hi) == 1, rule, "adjust_intervals: crop selections (np.argwhere over t_min / t_max) not found")
    c = lo[0].args[0]
    # rows from the first one whose END is strictly after t_min are kept: t_min < intervals[:, 1]
    good = c.a[0] == "<" and c.a[1].op == "param" and c.a[1].a[0] == "t_min" and _col(c.a[2], "intervals", 1)
    yield ob(rule, f, "util.adjust_intervals:keep-from", good, "rows are kept from the first interval with end > t_min (found: %s); `>=` keeps a row that clipping turns into [t_min, t_min]" % tm.show(c, 4), node=lo[0].node)
    c = hi[0].args[0]
    # rows before the first one whose START is at or after t_max are kept: t_max <= intervals[:, 0]
    good = c.a[0] == "<=" and c.a[1].op == "param" and c.a[1].a[0] == "t_max" and _col(c.a[2], "intervals", 0)
    yield ob(rule, f, "util.adjust_intervals:keep-until", good, "rows are kept up to the first interval with start >= t_max (found: %s); `>` keeps a row that clipping turns into [t_max, t_max]" % tm.show(c, 4), node=hi[0].node)
    # the slices use the first selected index as lower / upper bound
    subs = [x for x in s.by_kind("subscript") if x.index.op == "slice" and "intervals" in tm.params_of(x.base)]
    # (the bound is derived from the selection: the selecting call itself, or - after np.argwhere(m)[0, 0] has been read as
    # np.where(m)[0][0] - the very mask it was applied to)
    lows = [x for x in subs if not tm.is_const(x.index.a[0], None) and any(z is lo[0].term or z is lo[0].args[0] for z in tm.walk(x.index.a[0]))]
    ups = [x for x in subs if not tm.is_const(x.index.a[1], None) and any(z is hi[0].term or z is hi[0].args[0] for z in tm.walk(x.index.a[1]))]
    yield ob(rule, f, "util.adjust_intervals:slices", bool(lows) and bool(ups), "kept rows are intervals[first_idx:] and intervals[:last_idx]")
    # ... whether or not labels were passed: the interval crop may not sit under a test on `labels`
    dep = [x for x in lows + ups if "labels" not in tm.params_of(x.base) and any("labels" in tm.params_of(c) for c, _ in symeval.pc_conds(x.pc))]
    yield ob(rule, f, "util.adjust_intervals:crop-without-labels", not dep, "the interval rows are cropped on every path (not only when labels are given)" if not dep else "the interval crop at line %d runs only under a test on `labels`: with labels=None the rows beyond the bound are kept" % dep[0].lineno, node=(dep or lows + ups or [lo[0]])[0].node)
    # clipping and padding
    clipmax = [c2 for c2 in s.calls() if c2.callee == "np.maximum" and any(a.op == "param" and a.a[0] == "t_min" for a in c2.args)]
    clipmin = [c2 for c2 in s.calls() if c2.callee == "np.minimum" and any(a.op == "param" and a.a[0] == "t_max" for a in c2.args)]
    yield ob(rule, f, "util.adjust_intervals:clip", bool(clipmax) and bool(clipmin), "kept rows are clipped with np.maximum(t_min, .) and np.minimum(t_max, .)")
    pads = [c2 for c2 in s.calls() if c2.callee == "np.vstack"]
    pad_lo = False
    pad_hi = False
    for p in pads:
        conds = symeval.pc_conds(p.pc)
        if not conds:
            continue
        g, pol = conds[-1] if conds[-1][0].op == "cmp" else (None, None)
        for cc, pp in conds:
            if cc.op == "cmp" and cc.a[0] == "<" and pp:
                if cc.a[1].op == "param" and cc.a[1].a[0] == "t_min" and cc.a[2].op == "call" and call_name(cc.a[2]) == "np.min":
                    pad_lo = True
                if cc.a[2].op == "param" and cc.a[2].a[0] == "t_max" and cc.a[1].op == "call" and call_name(cc.a[1]) == "np.max":
                    pad_hi = True
    yield ob(rule, f, "util.adjust_intervals:pad", pad_lo and pad_hi, "a filler interval is added exactly when min > t_min / max < t_max")
    # events analogue
    f = ctx.program.func("util.adjust_events", rule)
    s = ctx.S.get(f.qual)
    aw = [c for c in s.calls() if c.callee in ("np.argwhere", "np.nonzero", "np.flatnonzero", "np.where") and len(c.args) == 1 and c.args[0].op == "cmp"]  # index selections of a Boolean test
    lo = [c for c in aw if _has_operand(c.args[0], "t_min")]
    hi = [c for c in aw if _has_operand(c.args[0], "t_max")]
    need(len(lo) == 1 and len(hi) == 1, rule, "adjust_events: crop selections not found")
    c = lo[0].args[0]
    good = c.a[0] == "<=" and c.a[1].op == "param" and c.a[1].a[0] == "t_min" and "events" in tm.params_of(c.a[2])
    yield ob(rule, f, "util.adjust_events:keep-from", good, "events >= t_min are kept (found %s)" % tm.show(c, 4), node=lo[0].node)
    c = hi[0].args[0]
    good = c.a[0] == "<" and c.a[1].op == "param" and c.a[1].a[0] == "t_max" and "events" in tm.params_of(c.a[2])
    yield ob(rule, f, "util.adjust_events:keep-until", good, "events > t_max are dropped (found %s)" % tm.show(c, 4), node=hi[0].node)


def rule_sides(ctx):
    R = "C13.SIDES"
    f = ctx.program.func("util.interpolate_intervals", R)
    s = ctx.S.get(f.qual)
    ss = [c for c in s.calls() if c.callee == "np.searchsorted"]
    if len(ss) == 1 and len(ss[0].args) >= 2 and ss[0].args[1].op == "param" and ss[0].args[1].a[0] == "intervals":
        # one search for both columns has one `side`: the starts need 'left' (a sample on a start belongs to the interval
        # that starts there) and the ends need 'right' (a sample on the final end still belongs to the last interval)
        yield ob(R, f, "util.interpolate_intervals:ends-side", False, "starts and ends are located by a single np.searchsorted(time_points, intervals): both columns get the same side, so a sample exactly on an interval end (or start) is assigned differently from the published behaviour", node=ss[0].node)
        return
    need(len(ss) == 2, R, "interpolate_intervals: the two searchsorted calls were not found")
    starts = ends = None
    for c in ss:
        hay, needle = c.args[0], c.args[1]
        side = dict(c.kw).get("side") or (c.args[2] if len(c.args) > 2 else None)
        sv = side.a[0] if side is not None and side.op == "const" else "left"
        hay_ok = "time_points" in tm.params_of(hay) and "intervals" not in tm.params_of(hay)
        if _col(needle, "intervals", 0):
            starts = c
            yield ob(R, f, "util.interpolate_intervals:start-side", hay_ok and sv == "left", "interval starts are located among the sample times with side=%r (a sample exactly at a start belongs to the interval)" % sv, node=c.node)
        elif _col(needle, "intervals", 1):
            ends = c
            yield ob(R, f, "util.interpolate_intervals:end-side", hay_ok and sv == "right", "interval ends are located with side=%r (a sample exactly at an end is still inside; a later interval starting there overwrites it)" % sv, node=c.node)
    need(starts is not None and ends is not None, R, "searchsorted needles are not the interval start/end columns")
    # assignment in input order over a fill_value-initialised list
    need(len(s.returns) == 1, R, "interpolate_intervals: single return expected")
    rt = s.returns[0].term
    good_init = good_store = good_order = False
    if rt.op == "loop":
        init, body = rt.a[2], rt.a[3]
        if init.op == "bin" and init.a[0] == "*":
            l = [x for x in (init.a[1], init.a[2]) if x.op == "list"]
            good_init = bool(l) and len(l[0].a) == 1 and l[0].a[0].op == "param" and l[0].a[0].a[0] == "fill_value" and "time_points" in tm.params_of(init)
        for b in resolve_ite_free(body):
            if b.op == "upd" and b.a[1] == "setitem" and b.a[2].op == "slice":
                lo, hi, st = b.a[2].a
                good_store = lo.op == "iter" and lo.a[0] is starts.term and hi.op == "iter" and hi.a[0] is ends.term and tm.is_const(st, None)
                val = b.a[3]
                good_store = good_store and any(x.op == "iter" and x.a[0].op == "param" and x.a[0].a[0] == "labels" for x in tm.walk(val))
        lid = rt.a[0]
        it = s.loops.get(lid, (None, None))[1]
        good_order = it is not None and it.op == "call" and call_name(it) == "builtins.zip" and len(it.a[1]) == 3 and it.a[1][0] is starts.term and it.a[1][1] is ends.term
    if rt.op == "comp" and rt.a[0] == "list" and len(rt.a[2]) == 1 and rt.a[2][0].op == "loop" and rt.a[1].op == "ite":
        # index-array form: owner[k] = position of the covering interval's label in a pool, -1 where none covers;
        # the result is [fill_value if owner[k] < 0 else pool[owner[k]] for k]
        O = rt.a[2][0]
        c, a_, b_ = rt.a[1].a
        each_o = [z for z in tm.walk(c) if z.op == "iter" and z.a[0] is O]
        sentinel_test = c.op == "cmp" and c.a[0] == "<" and tm.is_const(c.a[2], 0) and bool(each_o)
        init, body = O.a[2], O.a[3]
        neg_init = init.op == "call" and call_name(init) == "np.full" and len(init.a[1]) >= 2 and "time_points" in tm.params_of(init.a[1][0]) and init.a[1][1].op == "const" and isinstance(init.a[1][1].a[0], float) and init.a[1][1].a[0] < 0
        good_init = sentinel_test and neg_init and a_.op == "param" and a_.a[0] == "fill_value"
        pool = b_.a[0] if b_.op == "sub" and each_o and b_.a[1] is each_o[0] else None
        lid = O.a[0]
        it = s.loops.get(lid, (None, None))[1]
        for bb in resolve_ite_free(body):
            if bb.op == "upd" and bb.a[1] == "setitem" and bb.a[2].op == "slice":
                lo, hi, st = bb.a[2].a
                good_store = lo.op == "iter" and lo.a[0] is starts.term and hi.op == "iter" and hi.a[0] is ends.term and tm.is_const(st, None)
                val = bb.a[3]
                # the stored position is the pool's length at that iteration, and the pool gets this interval's label then
                cf = count_form(val)
                pool_ok = pool is not None and pool.op == "comp" and pool.a[4] == lid and pool.a[1].op == "iter" and pool.a[1].a[0].op == "param" and pool.a[1].a[0].a[0] == "labels" and not pool.a[3]
                good_store = good_store and cf is not None and cf[1].op == "loopvar" and cf[1].a[0] == lid and pool_ok
        good_order = it is not None and it.op == "call" and call_name(it) == "builtins.zip" and len(it.a[1]) == 3 and it.a[1][0] is starts.term and it.a[1][1] is ends.term
    yield ob(R, f, "util.interpolate_intervals:prefill", good_init, "result starts as [fill_value] * len(time_points)")
    yield ob(R, f, "util.interpolate_intervals:assign", good_store, "aligned_labels[start:end] receives the interval's own label")
    yield ob(R, f, "util.interpolate_intervals:order", good_order, "intervals are applied in input order (zip(starts, ends, labels)), so the later interval wins a shared boundary")
    # intervals_to_samples: grid = arange(floor(max/size)) * size + offset
    f2 = ctx.program.func("util.intervals_to_samples", R)
    s2 = ctx.S.get(f2.qual)
    c2 = [c for c in s2.calls() if c.callee == "util.interpolate_intervals"]
    need(len(c2) == 1, R, "intervals_to_samples no longer calls interpolate_intervals")
    a = c2[0].args
    good = len(a) == 4 and a[0].op == "param" and a[0].a[0] == "intervals" and a[1].op == "param" and a[1].a[0] == "labels" and a[3].op == "param" and a[3].a[0] == "fill_value" and {"sample_size", "offset"} <= tm.params_of(a[2])
    # ... and the labels are looked up at the very sample times that are returned next to them
    rt2 = [r.term for r in s2.returns if r.term.op == "tuple" and len(r.term.a) == 2]
    if good and rt2:
        times_out = rt2[0].a[0]
        t_in = a[2]
        strip_ = lambda z: z.a[1][0] if z.op == "call" and call_name(z) in (".tolist", "builtins.list", "np.asarray", "np.array") and z.a[1] else z
        same = strip_(times_out) is strip_(t_in)
        yield ob(R, f2, "util.intervals_to_samples:same-times", same, "labels are sampled at the returned sample times" if same else "labels are sampled at %s while %s is returned as the sample times: a clipped / shifted query grid labels samples outside the annotation instead of giving them fill_value" % (tm.show(t_in, 3), tm.show(times_out, 3)), node=c2[0].node)
    yield ob(R, f2, "util.intervals_to_samples:delegates", good, "samples are interpolate_intervals(intervals, labels, grid(sample_size, offset), fill_value)")


def rule_mergelookup(ctx):
    R = "C13.MERGELOOKUP"
    f = ctx.program.func("util.merge_labeled_intervals", R)
    s = ctx.S.get(f.qual)
    triples = [r for r in s.returns if r.term.op == "tuple" and len(r.term.a) == 3]
    need(len(triples) == len(s.returns) and triples, R, "merge_labeled_intervals: (intervals, x_labels, y_labels) return not found")
    main = [r for r in triples if any(x.op == "call" and call_name(x) == "np.unique" for x in tm.walk(r.term.a[0]))]
    if len(triples) == 1:
        main = triples
    short = [r for r in triples if r not in main]
    need(len(main) == 1, R, "merge_labeled_intervals: the return that merges the boundaries was not found")
    for k, r in enumerate(short):
        # a shortcut that hands an input back unrefined is exact only when the two interval arrays are identical
        conds = list(symeval.pc_conds(r.pc))
        exact_eq = any(pol and c.op == "call" and call_name(c) == "np.array_equal" and {"x_intervals", "y_intervals"} <= tm.params_of(c) for c, pol in conds) or any(pol and any(x.op == "call" and call_name(x) == "np.array_equal" and {"x_intervals", "y_intervals"} <= tm.params_of(x) for x in tm.walk(c)) and c.op == "bool" and c.a[0] == "and" for c, pol in conds)
        yield ob(R, f, "util.merge_labeled_intervals:shortcut#%d" % (k + 1), exact_eq, "the unmerged shortcut is taken only for identical interval arrays" if exact_eq else "a return path hands back %s without merging the boundaries (under %s): intervals that are only approximately aligned keep their slivers out of the refinement" % (tm.show(r.term.a[0], 2), "; ".join(tm.show(c, 3) for c, _ in conds)), node=r.node)
    iv, xl, yl = main[0].term.a
    # boundaries: unique of both inputs; intervals: consecutive pairs
    uniq = [x for x in tm.walk(iv) if x.op == "call" and call_name(x) == "np.unique"]
    good_u = bool(uniq) and all({"x_intervals", "y_intervals"} <= tm.params_of(u) for u in uniq)
    yield ob(R, f, "util.merge_labeled_intervals:boundaries", good_u, "boundaries are the np.unique union of both interval arrays")
    sl = [x for x in tm.walk(iv) if x.op == "sub" and x.a[1].op == "slice" and x.a[0].op == "call" and call_name(x.a[0]) == "np.unique"]
    pairs = {(tm.show(x.a[1].a[0], 1), tm.show(x.a[1].a[1], 1)) for x in sl}
    yield ob(R, f, "util.merge_labeled_intervals:pairs", pairs == {("None", "-1"), ("1", "None")}, "output intervals pair b[:-1] with b[1:] (%s)" % sorted(pairs))
    # exact shape: transpose([U[:-1], U[1:]]) with U = np.unique(np.concatenate([x_intervals, y_intervals])) and nothing dropped from U
    exact = False
    core = iv
    if core.op == "call" and call_name(core) == "np.transpose" and core.a[1]:
        core = core.a[1][0]
    if core.op == "call" and call_name(core) in ("np.array", "np.asarray") and core.a[1]:
        core = core.a[1][0]
    if core.op in ("list", "tuple") and len(core.a) == 2:
        lo, hi = core.a
        if lo.op == "sub" and hi.op == "sub" and lo.a[0] is hi.a[0]:
            U = lo.a[0]
            isU = U.op == "call" and call_name(U) == "np.unique" and len(U.a[1]) == 1 and U.a[1][0].op == "call" and call_name(U.a[1][0]) == "np.concatenate"
            if isU:
                parts = U.a[1][0].a[1][0]
                isU = parts.op in ("list", "tuple") and [z.a[0] if z.op == "param" else None for z in parts.a] == ["x_intervals", "y_intervals"]
            exact = isU and tm.show(lo.a[1], 2) == ":-1:" and tm.show(hi.a[1], 2) == "1::"
    yield ob(R, f, "util.merge_labeled_intervals:refinement-exact", exact, "refined intervals are consecutive pairs of *all* distinct boundaries of both inputs" if exact else "refined intervals are %s: boundaries are filtered or transformed before pairing, so an input boundary can disappear from the refinement" % tm.show(iv, 4))
    for side, lab in (("x", xl), ("y", yl)):
        good = False
        why = "lookup not recognised"
        cands = []
        for b in tm.walk(lab):
            if b.op == "upd" and b.a[1] == "method:append":
                cands.append(b.a[3].a[0] if b.a[3].op == "tuple" and b.a[3].a else None)
            elif b.op == "comp" and b.a[0] == "list":
                cands.append(b.a[1])  # the same loop written as (or canonicalised to) a comprehension
        for val in cands:
            if True:
                if val is not None and val.op == "sub" and val.a[0].op == "param" and val.a[0].a[0] == side + "_labels":
                    idx = val.a[1]
                    # idx = arange(len(labels))[mask][-1]
                    if idx.op == "sub" and tm.is_const(idx.a[1], -1) and idx.a[0].op == "sub":
                        mask = idx.a[0].a[1]
                        rng = idx.a[0].a[0]
                        m_ok = mask.op == "cmp" and mask.a[0] == "<=" and _col(mask.a[1], side + "_intervals", 0) and any(x.op == "iter" for x in tm.walk(mask.a[2]))
                        r_ok = rng.op == "call" and call_name(rng) == "np.arange"
                        # t0 = start of the refined interval: row[0] of the output rows, or an element of boundaries[:-1]
                        t0_ok = m_ok and (any(x.op == "sub" and tm.is_const(x.a[1], 0) and x.a[0].op == "iter" for x in tm.walk(mask.a[2])) or (mask.a[2].op == "iter" and mask.a[2].a[0].op == "sub" and mask.a[2].a[0].a[1].op == "slice" and tm.show(mask.a[2].a[0].a[1], 2) == ":-1:" and mask.a[2].a[0].a[0].op == "call" and call_name(mask.a[2].a[0].a[0]) == "np.unique"))
                        good = m_ok and r_ok and t0_ok
                        why = "label of the last %s interval with start <= t0 (t0 = start of the refined interval)" % side
        if not good:
            for val in cands:
                for z in tm.walk(val) if val is not None else ():
                    if z.op == "call" and z.a[0].op == "class":
                        # an instance of a class defined in the module performs the lookup: objects with their own
                        # methods are outside what the summaries model
                        raise AnalysisError(R, "merge_labeled_intervals: the %s label is looked up through an instance of %s; user-defined classes are not modelled" % (side, z.a[0].a[0]))
        yield ob(R, f, "util.merge_labeled_intervals:%s-lookup" % side, good, why)


def rule_boundaries(ctx):
    R = "C13.BOUNDARIES"
    f = ctx.program.func("util.boundaries_to_intervals", R)
    s = ctx.S.get(f.qual)
    need(len(s.returns) == 1, R, "boundaries_to_intervals: single return expected")
    t = s.returns[0].term
    z = [x for x in tm.walk(t) if x.op == "call" and call_name(x) == "builtins.zip"]
    good = False
    if z and len(z[0].a[1]) == 2:
        a, b = z[0].a[1]
        good = a.op == "sub" and b.op == "sub" and a.a[0].op == "param" and b.a[0] is a.a[0] and tm.show(a.a[1], 2) == ":-1:" and tm.show(b.a[1], 2) == "1::"
    yield ob(R, f, "util.boundaries_to_intervals:pairs", good, "intervals are zip(boundaries[:-1], boundaries[1:])")
    f = ctx.program.func("util.intervals_to_boundaries", R)
    s = ctx.S.get(f.qual)
    need(len(s.returns) == 1, R, "intervals_to_boundaries: single return expected")
    t = s.returns[0].term
    good = t.op == "call" and call_name(t) == "np.unique"
    rnd = [x for x in tm.walk(t) if x.op == "call" and call_name(x) == "np.round"]
    good_r = bool(rnd) and any((n == "decimals" and v.op == "param" and v.a[0] == "q") for n, v in rnd[0].a[2]) or (bool(rnd) and len(rnd[0].a[1]) > 1 and rnd[0].a[1][1].op == "param")
    okd, dv = f.default_value("q")
    yield ob(R, f, "util.intervals_to_boundaries:unique-round", good and good_r and okd and dv == 5, "boundaries are np.unique(round(intervals, q)) with q defaulting to %r" % (dv,))


ARRAY_MAKERS = {"np.array", "np.asarray", "np.insert", "np.append", "np.concatenate", "np.hstack", "np.vstack", "np.delete", "np.asanyarray", "np.char.array"}
LABEL_HELPERS = ["util.adjust_intervals", "util.adjust_events", "util.merge_labeled_intervals", "util.interpolate_intervals", "util.intervals_to_samples", "util.sort_labeled_intervals", "hierarchy._align_intervals", "util.index_labels"]


def rule_loopcomplete(ctx):
    """interpolate_intervals labels the sample slice of *every* interval: the labelling loop has no break / continue and
    its store is unconditional (intervals may come in any order; only adjust/merge require time order)."""
    import ast

    R = "C13.LOOPCOMPLETE"
    f = ctx.program.func("util.interpolate_intervals", R)
    s = ctx.S.get(f.qual)
    loops = [(lid, node, it) for lid, (node, it) in s.loops.items() if "labels" in tm.params_of(it)]
    need(len(loops) == 1, R, "interpolate_intervals: labelling loop not found")
    lid, node, it = loops[0]
    jumps = [n for n in ast.walk(node) if isinstance(n, (ast.Break, ast.Continue, ast.Return))]
    stores = [m for m in s.by_kind("mutate") if m.how == "setitem" and any(x[0] == "loop" and x[1] == lid for x in m.pc)]
    cond = []
    for m in stores:
        after = False
        for x in m.pc:
            if x[0] == "loop" and x[1] == lid:
                after = True
            elif after and x[0] in ("if", "either"):
                cond.append(x)
    ok = not jumps and len(stores) == 1 and not cond
    yield ob(R, f, "util.interpolate_intervals:every-interval", ok, "every (start, end, label) triple writes its slice" if ok else "the labelling loop %s: some intervals are not applied (wrong for intervals that are not in time order)" % ("leaves early (line %d)" % jumps[0].lineno if jumps else "stores conditionally"), node=node)
    zipped = it.op == "call" and call_name(it) == "builtins.zip" and len(it.a[1]) == 3
    yield ob(R, f, "util.interpolate_intervals:zip-starts-ends-labels", zipped, "the loop runs over zip(starts, ends, labels)")


def rule_padspan(ctx):
    """adjust_intervals pads the gap between the requested bound and the *cropped, clipped* annotation: the test and
    the padded row use min/max of the array after cropping, so the result always starts at t_min and ends at t_max."""
    R = "C13.PADSPAN"
    f = ctx.program.func("util.adjust_intervals", R)
    s = ctx.S.get(f.qual)
    for bound, red, clip in (("t_min", "np.min", "np.maximum"), ("t_max", "np.max", "np.minimum")):
        bp = tm.param(bound)
        tests = []
        for st in s.by_kind("cmp"):
            t = st.d.get("term")
            if t is None or t.op != "cmp" or t.a[0] not in ("<", "<="):
                continue
            sides = [t.a[1], t.a[2]]
            if not any(z is bp for z in sides):
                continue
            other = [z for z in sides if z is not bp][0]
            if other.op == "call" and call_name(other) == red and other.a[1]:
                tests.append((st, t, other))
        need(len(tests) >= 1, R, "adjust_intervals: padding test for %s not found" % bound)
        for k, (st, t, red_t) in enumerate(tests[:1]):
            x = red_t.a[1][0]
            clipped = x.op == "call" and call_name(x) == clip and any(z is bp for z in x.a[1])
            strict = t.a[0] == "<"
            yield ob(R, f, "util.adjust_intervals:%s-pad-test" % bound, clipped and strict, "a padding row is added iff the cropped and clipped annotation does not reach %s" % bound if clipped and strict else "the padding decision for %s looks at %s, not at the annotation after cropping/clipping: with a gap at %s the result no longer starts/ends at the bound" % (bound, tm.show(x, 3), bound), node=st.node)
            # the padded row spans [bound, extremum of the clipped array]
            rows = [c for c in s.calls() if c.callee == "np.vstack" and any(z is bp for z in tm.walk(c.term)) and any(zz is red_t for zz in tm.walk(c.term))]
            yield ob(R, f, "util.adjust_intervals:%s-pad-row" % bound, len(rows) >= 1, "the padding row joins %s to that same extremum" % bound if rows else "no padding row [%s, extremum of the clipped annotation] found" % bound)


def rule_labellist(ctx, rule="C13.LABELLIST"):
    """Label sequences stay Python lists of the caller's own objects: a NumPy string array has a fixed width and truncates
    longer labels (a filler such as '__T_MIN' inserted into an array of short labels becomes '__T_M')."""
    for q in LABEL_HELPERS:
        f = ctx.program.func(q, rule)
        s = ctx.S.get(q)
        lab = [p for p in f.all_params if "label" in p or p in ("lab_hier",)]
        if not lab:
            continue
        bad = []
        node = None
        for c in s.calls():
            if c.callee not in ARRAY_MAKERS:
                continue
            for a in c.args:
                if a.op == "star":
                    a = a.a[0]
                carried = [x for x in tm.walk(_strip_len(a)) if x.op == "param" and x.a[0] in lab]
                if carried:
                    bad.append("%s(%s)" % (c.callee, tm.show(a, 2)))
                    node = c.node
        yield ob(rule, f, "%s:labels-stay-lists" % q, not bad, "labels are handled with list operations only (slicing, insert, append, indexing)" if not bad else "labels are turned into a NumPy array by %s: fixed-width strings truncate longer labels" % ", ".join(sorted(set(bad))[:2]), node=node)


def _strip_len(t):
    """Replace len(x) / x.shape by a constant so that only value-carrying uses remain."""

    def f(x):
        if x.op == "call" and call_name(x) == "builtins.len":
            return tm.const(0)
        return None

    return tm.rebuild(t, f)


def rule_nonetruth(ctx):
    yield from common.rule_nonetruth(ctx, "C13.NONETRUTH", ("util.py", "chord.py", "segment.py", "hierarchy.py", "sonify.py"))


def rule_sonifypass(ctx):
    """sonify.chords hands the chord intervals to sonify.chroma as they are: intervals with gaps are not the
    boundaries-to-intervals image of anything, so a round trip through boundaries re-assigns every chord after a gap."""
    R = "C13.SONIFYPASS"
    f = ctx.program.func("sonify.chords", R)
    s = ctx.S.get(f.qual)
    calls = [c for c in s.calls() if c.callee == "sonify.chroma"]
    need(len(calls) == 1 and len(calls[0].args) >= 2, R, "sonify.chords: the sonify.chroma call was not found")
    a = calls[0].args[1]
    good = a.op == "param" and a.a[0] == "intervals"
    yield ob(R, f, "sonify.chords:intervals-as-given", good, "chroma() receives the caller's intervals" if good else "chroma() receives %s instead of the caller's intervals" % tm.show(a, 3), node=calls[0].node)


RULES = [
    ("C13.SONIFYPASS", 1, rule_sonifypass),
    ("C13.HELPERDEFAULTS", 3, common.rule_helperdefaults("C13.HELPERDEFAULTS")),
    ("C13.NONETRUTH", 5, rule_nonetruth),
    ("C13.SAMPLETWIN", 8, common.shared("c16", "rule_sampletwin", "C13.SAMPLETWIN")),
    ("C13.LOOPCOMPLETE", 2, rule_loopcomplete),
    ("C13.PADSPAN", 4, rule_padspan),
    ("C13.LABELLIST", 7, rule_labellist),
    ("C13.CROPSTRICT", 7, rule_cropstrict),
    ("C13.SIDES", 6, rule_sides),
    ("C13.MERGELOOKUP", 4, rule_mergelookup),
    ("C13.BOUNDARIES", 2, rule_boundaries),
]

from . import common as _common_purity
RULES = RULES + _common_purity.purity_rules("C13")
RULES = RULES + _common_purity.bundle_rules("C13")
