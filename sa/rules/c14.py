"""C14 - valid annotations are always scored; malformed ones are rejected cleanly (structural clauses)."""

from __future__ import annotations

from .. import terms as tm
from ..model import AnalysisError
from .common import ob, need, call_name, facts, role_of, roles, count_form, nonempty_bases, linear_form, is_lit, lit
from . import common
from .. import symeval
from . import c01

PROP = "C14"
EXPLANATION = (
    "Static decision of C14's structural clauses: every public metric calls its module's validator on its own inputs, unconditionally and "
    "before any other repo call or return (delegating wrappers transitively); every explicit raise in validators and metric functions is "
    "ValueError (InvalidChordException in the chord-label pipeline, IOError only in io._open); each documented convention has its check - a "
    "table of (validator, quantity, comparison) facets, each realised by a raise guarded by that comparison; no division by the size of an "
    "empty side (COUNTGUARD); no local is read on a path where it is unassigned; interval cropping keeps only rows of positive duration "
    "(boundary-coincidence crash).  Absence of exceptions for all valid inputs inside NumPy/SciPy is not decided."
)
RULE_TEXT = "one obligation per (metric, validator), per raise site, per (validator, facet), per division by a count, per possibly-unassigned read"

# metric function -> (validator, how many leading parameters it must receive in order)  | ("via", wrapped function)
V = {}
for fn in ("f_measure", "cemgil", "goto", "p_score", "continuity", "information_gain"):
    V["beat." + fn] = ("beat.validate", 2)
V["onset.f_measure"] = ("onset.validate", 2)
for fn in ("detection", "deviation"):
    V["segment." + fn] = ("segment.validate_boundary", 2)
for fn in ("pairwise", "rand_index", "ari", "mutual_information", "nce"):
    V["segment." + fn] = ("segment.validate_structure", 4)
V["segment.vmeasure"] = ("via", "segment.nce")
for fn in ("thirds", "thirds_inv", "triads", "triads_inv", "tetrads", "tetrads_inv", "root", "mirex", "majmin", "majmin_inv", "sevenths", "sevenths_inv"):
    V["chord." + fn] = ("chord.validate", 2)
V["chord.overseg"] = ("via", "chord.directional_hamming_distance")
V["chord.underseg"] = ("via", "chord.directional_hamming_distance")
V["chord.seg"] = ("via", "chord.overseg")
V["melody.voicing_measures"] = ("melody.validate_voicing", 2)
for fn in ("raw_pitch_accuracy", "raw_chroma_accuracy", "overall_accuracy"):
    V["melody." + fn] = ("melody.validate", 4)
V["multipitch.metrics"] = ("multipitch.validate", 4)
V["transcription.precision_recall_f1_overlap"] = ("transcription.validate", 4)
V["transcription.onset_precision_recall_f1"] = ("transcription.validate_intervals", 2)
V["transcription.offset_precision_recall_f1"] = ("transcription.validate_intervals", 2)
V["transcription_velocity.precision_recall_f1_overlap"] = ("transcription_velocity.validate", 6)
V["tempo.detection"] = ("tempo.validate", 3)
V["key.weighted_score"] = ("key.validate", 2)
for fn in ("standard_FPR", "establishment_FPR", "occurrence_FPR", "three_layer_FPR", "first_n_three_layer_P", "first_n_target_proportion_R"):
    V["pattern." + fn] = ("pattern.validate", 2)
for fn in ("absolute_error", "percentage_correct", "percentage_correct_segments", "karaoke_perceptual_metric"):
    V["alignment." + fn] = ("alignment.validate", 2)
for fn in ("bss_eval_sources", "bss_eval_sources_framewise", "bss_eval_images", "bss_eval_images_framewise"):
    V["separation." + fn] = ("separation.validate", 2)
# second validators
V2 = {
    "melody.raw_pitch_accuracy": ("melody.validate_voicing", ("ref_voicing", "est_voicing")),
    "melody.raw_chroma_accuracy": ("melody.validate_voicing", ("ref_voicing", "est_voicing")),
    "melody.overall_accuracy": ("melody.validate_voicing", ("ref_voicing", "est_voicing")),
}
# validators that must be applied to each hierarchy
HIER = {"hierarchy.tmeasure": 2, "hierarchy.lmeasure": 2}

# calls allowed before validation: dimension normalisation and helpers that cannot score
PRE_OK = {"np.atleast_3d", "np.atleast_2d", "np.atleast_1d", "builtins.float", "builtins.int", "warnings.warn", "builtins.isinstance", "builtins.len", "hierarchy._round"}


def _strip_norm(a):
    """Dimension normalisation wrappers are transparent for 'is the parameter passed'."""
    seen = 0
    while seen < 10:
        seen += 1
        if a.op == "ite":
            x, y = _strip_norm(a.a[1]), _strip_norm(a.a[2])
            return x if x is y else a
        if a.op == "call" and call_name(a) in ("np.atleast_3d", "np.atleast_2d", "np.atleast_1d") and a.a[1]:
            a = a.a[1][0]
            continue
        if a.op == "sub" and a.a[1].op == "tuple" and any(z.op == "ext" and z.a[0] == "np.newaxis" for z in a.a[1].a):
            a = a.a[0]
            continue
        return a
    return a


def rule_validatefirst(ctx):
    for qual, spec in sorted(V.items()):
        f = ctx.program.func(qual, "C14.VALIDATEFIRST")
        s = ctx.S.get(qual)
        if spec[0] == "via":
            target = spec[1]
            calls = [c for c in s.calls() if c.callee == target]
            ok_paths = bool(calls) and all(any(x.op == "call" and call_name(x) == target for x in tm.walk(r.term)) for r in s.returns)
            passes = bool(calls) and all(set(a.a[0] for a in c.args if a.op == "param") >= {p for p in f.params if role_of(p)} for c in calls)
            yield ob("C14.VALIDATEFIRST", f, "%s:via:%s" % (qual, target), ok_paths and passes, "every return goes through %s with the wrapper's own inputs (validated there)" % target)
            continue
        vname, n = spec
        calls = [c for c in s.calls() if c.callee == vname]
        if not calls and s.inlined and ctx.program.has_func(vname):
            # the checks of validate() performed in place (through a shared helper that was evaluated here): every shared
            # validator that validate() delegates to is called here on the same inputs, unconditionally, before anything
            # that scores - accepted only for a validate() that raises nothing of its own
            gv = ctx.program.func(vname)
            sv = ctx.S.get(vname)
            own_raises = [r for r in sv.by_kind("raise")]
            deleg = [c for c in sv.calls() if (c.callee or "").split(".")[-1].startswith("validate")]
            want_calls = []
            for c in deleg:
                pos = tuple(gv.params.index(a.a[0]) if a.op == "param" and a.a[0] in gv.params else None for a in c.args[:1])
                want_calls.append((c.callee, pos))
            have = []
            for c in s.calls():
                if (c.callee or "").split(".")[-1].startswith("validate") and all(o == "raise" for _, _, o in symeval.pc_conds_full(c.pc)) and not symeval.pc_loops(c.pc):
                    a0 = _strip_norm(c.args[0]) if c.args else None
                    have.append((c.callee, (f.params.index(a0.a[0]) if a0 is not None and a0.op == "param" and a0.a[0] in f.params else None,)))
            if not own_raises and deleg and all(w in have for w in want_calls):
                yield ob("C14.VALIDATEFIRST", f, "%s:%s" % (qual, vname), True, "the checks of %s are performed in place: %s" % (vname, ", ".join("%s(arg %s)" % (c_, p_[0]) for c_, p_ in want_calls)))
                continue
        if not calls:
            yield ob("C14.VALIDATEFIRST", f, "%s:%s" % (qual, vname), False, "%s is never called: malformed input reaches the metric" % vname)
            continue
        c = calls[0]
        args = [_strip_norm(a) for a in c.args]
        want = f.params[:n]
        got = [a.a[0] if a.op == "param" else None for a in args[:n]]
        args_ok = got == want
        conds = [(cc, p, o) for cc, p, o in symeval.pc_conds_full(c.pc)]
        uncond = all(o == "raise" for _, _, o in conds) and not symeval.pc_loops(c.pc)
        # nothing that scores or returns precedes it
        idx = s.sites.index(c)
        early = []
        for x in s.sites[:idx]:
            if x.kind == "return":
                early.append("return at line %d" % x.lineno)
            elif x.kind == "call" and x.fn is not None and x.fn.op in ("func", "localfunc") and x.callee != vname and x.callee not in PRE_OK and not (x.callee or "").split(".")[-1].startswith("validate"):
                if tm.params_of(x.term) & set(want):
                    early.append("call of %s at line %d" % (x.callee, x.lineno))
        yield ob(
            "C14.VALIDATEFIRST",
            f,
            "%s:%s" % (qual, vname),
            args_ok and uncond and not early,
            "%s(%s) is called %s%s" % (vname, ", ".join(str(g) for g in got), "unconditionally" if uncond else "only under %s" % "; ".join(tm.show(cc, 3) for cc, _, _ in conds), "" if not early else " but after " + ", ".join(early)) + ("" if args_ok else "; expected the metric's own inputs %s" % want),
            node=c.node,
        )
    for qual, (vname, params) in sorted(V2.items()):
        f = ctx.program.func(qual, "C14.VALIDATEFIRST")
        s = ctx.S.get(qual)
        calls = [c for c in s.calls() if c.callee == vname]
        good = bool(calls) and tuple(a.a[0] if a.op == "param" else None for a in calls[0].args) == params and not symeval.pc_conds(calls[0].pc)
        yield ob("C14.VALIDATEFIRST", f, "%s:%s" % (qual, vname), good, "%s%s is called unconditionally" % (vname, params))
    for qual, n in sorted(HIER.items()):
        f = ctx.program.func(qual, "C14.VALIDATEFIRST")
        s = ctx.S.get(qual)
        calls = [c for c in s.calls() if c.callee == "hierarchy.validate_hier_intervals"]
        got = sorted(a.a[0] for c in calls for a in c.args if a.op == "param")
        want = sorted(p for p in f.params if "intervals" in p)
        conds_ok = all(all(o == "raise" for _, _, o in symeval.pc_conds_full(c.pc)) for c in calls)
        first_other = None
        for x in s.sites:
            if x.kind == "call" and x.callee in ("hierarchy._lca", "hierarchy._meet", "hierarchy._gauc"):
                first_other = x
                break
        order_ok = first_other is not None and all(s.sites.index(c) < s.sites.index(first_other) for c in calls)
        yield ob("C14.VALIDATEFIRST", f, "%s:validate_hier_intervals" % qual, got == want and conds_ok and order_ok, "validate_hier_intervals is applied to %s before any frame computation" % got)
    # weighted_accuracy and directional_hamming_distance validate in line (FACETS covers the checks); dhd validates both arguments
    f = ctx.program.func("chord.directional_hamming_distance", "C14.VALIDATEFIRST")
    s = ctx.S.get(f.qual)
    got = sorted(a.a[0] for c in s.calls() if c.callee == "util.validate_intervals" for a in c.args if a.op == "param")
    yield ob("C14.VALIDATEFIRST", f, "chord.directional_hamming_distance:util.validate_intervals", got == sorted(f.params[:2]), "both interval arrays are validated (%s)" % got)
    # the per-task validate() themselves delegate to the shared validators
    for qual, callee, n in (("beat.validate", "util.validate_events", 2), ("onset.validate", "util.validate_events", 2), ("segment.validate_boundary", "util.validate_intervals", 2), ("segment.validate_structure", "util.validate_intervals", 2), ("transcription.validate_intervals", "util.validate_intervals", 2), ("transcription.validate", "transcription.validate_intervals", 2), ("transcription_velocity.validate", "transcription.validate", 4), ("multipitch.validate", "util.validate_events", 2), ("multipitch.validate", "util.validate_frequencies", 2), ("tempo.validate", "tempo.validate_tempi", 2), ("key.validate", "key.validate_key", 2), ("util.intervals_to_durations", "util.validate_intervals", 1), ("chord.validate", "chord.validate_chord_label", 2), ("chord.split", "chord.validate_chord_label", 1), ("hierarchy.validate_hier_intervals", "hierarchy.validate_structure", 1)):
        f = ctx.program.func(qual, "C14.VALIDATEFIRST")
        s = ctx.S.get(qual)
        calls = [c for c in s.calls() if c.callee in (callee, callee.replace("hierarchy.validate_structure", "segment.validate_structure"))]
        covered = set()
        for c in calls:
            if any(cc for cc, p, o in symeval.pc_conds_full(c.pc) if o is None):
                continue
            for a in c.args:
                covered |= _expand_params(a)
        want = {p for p in f.params if role_of(p) or p in ("intervals", "intervals_hier")}
        if qual == "chord.split":
            want = {"chord_label"}
            covered |= {"chord_label"} if any(c.callee == callee for c in calls) and any(c2.callee == callee for c2 in s.calls()[:3]) else set()
        if callee == "util.validate_frequencies":
            want = {p for p in f.params if "freq" in p}
        if callee == "util.validate_events" and qual == "multipitch.validate":
            want = {p for p in f.params if "time" in p}
        if callee == "util.validate_intervals" and qual in ("segment.validate_structure",):
            want = {p for p in f.params if "intervals" in p}
        if callee == "tempo.validate_tempi":
            want = {p for p in f.params if "tempi" in p}
        if callee == "transcription.validate":
            want = {p for p in f.params if "velocit" not in p}
        if callee == "transcription.validate_intervals":
            want = {p for p in f.params if "intervals" in p}
        good = want <= covered and len(want) >= min(n, 1)
        yield ob("C14.VALIDATEFIRST", f, "%s->%s" % (qual, callee), good, "%s applies %s to %s (needs %s)" % (qual, callee, sorted(covered), sorted(want)))


def _expand_params(a, depth=0):
    """Parameters an argument stands for, through `for x in [p, q]` / zip iteration."""
    out = set()
    if depth > 6:
        return out
    if a.op == "param":
        return {a.a[0]}
    if a.op == "iter":
        return _expand_params(a.a[0], depth + 1)
    if a.op in ("list", "tuple"):
        for x in a.a:
            out |= _expand_params(x, depth + 1)
        return out
    if a.op == "sub":
        return _expand_params(a.a[0], depth + 1)
    if a.op == "call" and call_name(a) in ("util.generate_labels",):
        return set()
    return out


ALLOWED_EXC = {"ValueError"}
CHORD_PIPE = {"chord.validate_chord_label", "chord.split", "chord.join", "chord.encode", "chord.pitch_class_to_semitone", "chord.scale_degree_to_semitone", "chord.quality_to_bitmap", "chord.scale_degree_to_bitmap"}


def rule_raisetypes(ctx):
    for f in ctx.program.all_funcs():
        if f.module.name in ("sonify",):
            continue
        s = ctx.S.get(f.qual)
        for i, r in enumerate(s.by_kind("raise")):
            if r.bare:
                continue
            allowed = set(ALLOWED_EXC)
            if f.qual in CHORD_PIPE:
                allowed = {"InvalidChordException"}
            if f.qual == "io._open":
                allowed = {"IOError", "OSError"}
            yield ob("C14.RAISETYPES", f, "%s:raise@%d" % (f.qual, i), r.exc in allowed, "raises %s (documented: %s)" % (r.exc, "/".join(sorted(allowed))), node=r.node)
        for i, a in enumerate(s.by_kind("assert")):
            cnd = a.d.get("cond")
            one_d = cnd is not None and cnd.op == "cmp" and cnd.a[0] == "==" and any(tm.is_const(z, 1) for z in cnd.a[1:]) and any(z.op == "attr" and z.a[1] == "ndim" for z in cnd.a[1:])
            # (the reviewed 1-D assertion of the rotation helper, also when both rotation functions share it through a helper)
            ok_assert = f.qual in ("chord.rotate_bitmap_to_root",) or (f.qual == "chord.rotate_bitmaps_to_roots" and one_d)
            yield ob("C14.RAISETYPES", f, "%s:assert@%d" % (f.qual, i), ok_assert, "assert statement (AssertionError)%s" % (" - reviewed: helper documented for 1-D input only" if ok_assert else ""), node=a.node)


# ------------------------------------------------------------------- FACETS
# A facet: (function, name, predicate over the atomic guard facts of one raise site)
# atomic fact = (cmp-term, polarity).  Helpers below normalise "not (a <= b)" to "b < a".


def _atoms(r):
    """Atomic comparison facts (op, lhs, rhs) that hold when raise site r executes (innermost guard only)."""
    # enclosing branch conditions, and what an earlier `if c: return ...` established for the rest of the block
    # (`if ok: return x` followed by `raise` is `if not ok: raise`); conditions left behind by earlier raises are
    # other checks that passed, not the guard of this one
    conds = [(c, p) for c, p, o in symeval.pc_conds_full(r.pc) if o in (None, "return", "mixed")]
    out = []
    if not conds:
        return out
    # the guard of the raise: innermost enclosing condition(s)
    fs = []
    from .common import decompose

    # the guard of the raise: every enclosing branch condition (a nested `if a: if b: raise` is the same guard as
    # `if a and b: raise`)
    for c, p in conds:
        _decomp_or(c, p, fs)
    for c2, p2 in fs:
        out.extend(_cmp_atoms(c2, p2))
    return out


def _decomp_or(c, p, out):
    """Unlike common.decompose, a raise guarded by `a or b` fires for each disjunct: collect them all."""
    if c.op == "un" and c.a[0] == "not":
        _decomp_or(c.a[1], not p, out)
        return
    if c.op == "bool":
        for x in c.a[1:]:
            _decomp_or(x, p, out)
        return
    if c.op == "call" and call_name(c) in ("np.any", "np.all", "np.logical_or", "np.logical_and") and c.a[1]:
        for x in c.a[1]:
            _decomp_or(x, p, out)
        return
    if c.op == "call" and call_name(c) in ("builtins.any", "builtins.all") and len(c.a[1]) == 1 and c.a[1][0].op in ("tuple", "list"):
        # any((t1, t2)) / all([t1, t2]) over a display (or an unrolled comprehension): the tests themselves
        for x in c.a[1][0].a:
            _decomp_or(x, p, out)
        return
    if c.op == "call" and call_name(c) in ("builtins.any", "builtins.all") and len(c.a[1]) == 1 and c.a[1][0].op == "comp" and c.a[1][0].a[0] in ("gen", "list"):
        # any(test(x) for x in xs): the test holds for some element - the guard of a raise inside the loop over xs
        _decomp_or(c.a[1][0].a[1], p, out)
        return
    if c.op == "bin" and c.a[0] in ("|", "&") and all(z.op in ("cmp", "bin", "call", "un") for z in c.a[1:]):
        # element-wise combination of Boolean arrays written with operators
        for x in c.a[1:]:
            _decomp_or(x, p, out)
        return
    out.append((c, p))


NEG = {"<": ">=", "<=": ">", "==": "!=", "!=": "==", "in": "notin", "notin": "in", "is": "isnot", "isnot": "is"}


def _cmp_atoms(c, p):
    if c.op != "cmp":
        return [("truth" if p else "falsy", c, None)]
    op, l, r = c.a
    if op in ("is", "isnot") and (tm.is_const(l, None) or tm.is_const(r, None)):
        other = r if tm.is_const(l, None) else l
        if other.op == "call" and (call_name(other) or "").split(".")[-1] in ("match", "fullmatch", "search", "get"):
            # `m is None` for the result of a regex match (a Match object or None) is `not m`
            none_holds = (op == "is") == p
            return [("falsy" if none_holds else "truth", other, None)]
    if not p:
        op = NEG[op]
    if op == ">=":
        op, l, r = "<=", r, l
    elif op == ">":
        op, l, r = "<", r, l
    return [(op, l, r)]


def _has(t, *tokens):
    """All tokens occur in term t: 'p:name' param, 'a:attr' attribute, 'f:callee', 'c:value' const, 'g:glob'."""
    have = set()
    for x in tm.walk(t):
        if x.op == "param":
            have.add("p:" + x.a[0])
            have.add("iter")  # a loop over [(ref..), (est..)] unrolled into explicit per-annotation code reads the parameter itself
        elif x.op == "attr":
            have.add("a:" + x.a[1])
            if x.a[1] in ("shape", "size"):
                have.add("f:builtins.len")
                have.add("a:shape")
                have.add("a:size")  # (x.size, x.shape[0] and len(x) are one token: the length of a validated 1-d array)
        elif x.op == "call":
            have.add("f:" + str(call_name(x)))
            if call_name(x) == "builtins.len":
                have.add("a:shape")  # len(x) is x.shape[0]: the two spellings of a length are one token
                have.add("a:size")
        elif x.op == "const":
            v = x.a[0]
            if isinstance(v, float) and v == int(v):
                v = int(v)
            have.add("c:%r" % (v,))
        elif x.op == "glob":
            have.add("g:" + x.a[0])
        elif x.op == "iter":
            have.add("iter")
    return all(tk in have for tk in tokens)


def F(func, name, op, lhs, rhs):
    return (func, name, op, lhs, rhs)


FACETS = [
    # events
    F("util.validate_events", "too-large", "<", ["p:max_time"], ["p:events"]),
    F("util.validate_events", "not-1d", "!=", ["p:events", "a:ndim"], ["c:1"]),
    F("util.validate_events", "unsorted", "<", ["f:np.diff", "p:events"], ["c:0"]),
    F("multipitch.validate", "ref-time-not-1d", "!=", ["p:ref_time", "a:ndim"], ["c:1"]),
    F("multipitch.validate", "est-time-not-1d", "!=", ["p:est_time", "a:ndim"], ["c:1"]),
    F("multipitch.validate", "ref-lengths", "!=", ["p:ref_time"], ["p:ref_freqs"]),
    F("multipitch.validate", "est-lengths", "!=", ["p:est_time"], ["p:est_freqs"]),
    F("alignment.validate", "ref-not-array", "falsy", ["f:builtins.isinstance", "p:reference_timestamps"], None),
    F("alignment.validate", "est-not-array", "falsy", ["f:builtins.isinstance", "p:estimated_timestamps"], None),
    F("alignment.validate", "ref-not-1d", "!=", ["p:reference_timestamps", "a:ndim"], ["c:1"]),
    F("alignment.validate", "est-not-1d", "!=", ["p:estimated_timestamps", "a:ndim"], ["c:1"]),
    F("alignment.validate", "ref-empty", "==", ["c:0"], ["p:reference_timestamps", "a:size"]),
    F("alignment.validate", "sizes-differ", "!=", ["p:estimated_timestamps", "a:size"], ["p:reference_timestamps", "a:size"]),
    F("alignment.validate", "ref-decreasing", ">", ["c:0"], ["p:reference_timestamps"]),
    F("alignment.validate", "est-decreasing", ">", ["c:0"], ["p:estimated_timestamps"]),
    F("util.interpolate_intervals", "time-points-unsorted", "<", ["p:time_points"], ["p:time_points"]),
    # intervals
    F("util.validate_intervals", "shape", "!=", ["p:intervals", "a:ndim"], ["c:2"]),
    F("util.validate_intervals", "shape-cols", "!=", ["p:intervals", "a:shape"], ["c:2"]),
    F("util.validate_intervals", "negative", "<", ["p:intervals"], ["c:0"]),
    F("util.validate_intervals", "non-positive-duration", "<=", ["p:intervals", "c:1"], ["p:intervals", "c:0"]),
    F("chord.directional_hamming_distance", "overlap", "<", ["p:reference_intervals", "c:0"], ["p:reference_intervals", "c:-1"]),
    F("util.merge_labeled_intervals", "misaligned", "in", ["c:False"], ["p:x_intervals", "p:y_intervals"]),
    F("util.boundaries_to_intervals", "not-unique-ascending", "falsy", ["f:np.allclose", "f:np.unique", "p:boundaries"], None),
    # lengths
    F("chord.validate", "label-lengths", "!=", ["p:reference_labels"], ["p:estimated_labels"]),
    F("chord.weighted_accuracy", "weights-length", "!=", ["p:weights", "a:shape"], ["p:comparisons"]),
    F("chord.weighted_accuracy", "negative-weights", "<", ["p:weights"], ["c:0"]),
    F("melody.validate_voicing", "voicing-lengths", "!=", ["p:ref_voicing", "a:shape"], ["p:est_voicing", "a:shape"]),
    F("melody.validate_voicing", "voicing-below-0", "<", ["iter"], ["c:0"]),
    F("melody.validate_voicing", "voicing-above-1", "<", ["c:1"], ["iter"]),
    F("melody.validate", "ref-lengths", "!=", ["p:ref_voicing", "a:shape"], ["p:ref_cent", "a:shape"]),
    F("melody.validate", "est-lengths", "!=", ["p:est_voicing", "a:shape"], ["p:est_cent", "a:shape"]),
    F("melody.validate", "cent-lengths", "!=", ["p:ref_cent", "a:shape"], ["p:est_cent", "a:shape"]),
    F("transcription.validate", "ref-lengths", "!=", ["p:ref_intervals", "a:shape"], ["p:ref_pitches", "a:shape"]),
    F("transcription.validate", "est-lengths", "!=", ["p:est_intervals", "a:shape"], ["p:est_pitches", "a:shape"]),
    F("transcription.validate", "ref-nonpositive-pitch", "<=", ["f:np.min", "p:ref_pitches"], ["c:0"]),
    F("transcription.validate", "est-nonpositive-pitch", "<=", ["f:np.min", "p:est_pitches"], ["c:0"]),
    F("transcription_velocity.validate", "ref-vel-length", "!=", ["p:ref_velocities", "a:shape"], ["p:ref_pitches", "a:shape"]),
    F("transcription_velocity.validate", "est-vel-length", "!=", ["p:est_velocities", "a:shape"], ["p:est_pitches", "a:shape"]),
    F("transcription_velocity.validate", "ref-vel-negative", "<", ["f:np.min", "p:ref_velocities"], ["c:0"]),
    F("transcription_velocity.validate", "est-vel-negative", "<", ["f:np.min", "p:est_velocities"], ["c:0"]),
    F("segment.validate_structure", "labels-length", "!=", ["iter", "a:shape"], ["f:builtins.len", "iter"]),
    F("segment.validate_structure", "not-from-zero", "falsy", ["f:np.allclose", "f:np.min", "c:0"], None),
    F("segment.validate_structure", "ends-differ", "falsy", ["f:np.allclose", "p:reference_intervals", "p:estimated_intervals", "f:np.max"], None),
    # ranges
    F("util.validate_frequencies", "too-high", "<", ["p:max_freq"], ["f:np.abs"]),
    F("util.validate_frequencies", "too-low", "<", ["f:np.abs"], ["p:min_freq"]),
    F("util.validate_frequencies", "not-1d", "!=", ["a:ndim"], ["c:1"]),
    F("tempo.validate", "weight-below-0", "<", ["p:reference_weight"], ["c:0"]),
    F("tempo.validate", "weight-above-1", "<", ["c:1"], ["p:reference_weight"]),
    F("tempo.detection", "tol-below-0", "<", ["p:tol"], ["c:0"]),
    F("tempo.detection", "tol-above-1", "<", ["c:1"], ["p:tol"]),
    F("tempo.validate_tempi", "not-two", "!=", ["p:tempi", "a:size"], ["c:2"]),
    F("tempo.validate_tempi", "not-finite", "falsy", ["f:np.isfinite", "p:tempi"], None),
    F("tempo.validate_tempi", "negative", "<", ["p:tempi"], ["c:0"]),
    F("tempo.validate_tempi", "reference-all-zero", "==", ["c:0"], ["p:tempi"]),
    F("hierarchy.tmeasure", "frame-size-nonpositive", "<=", ["p:frame_size"], ["c:0"]),
    F("hierarchy.tmeasure", "frame-size-above-window", "<", ["p:window"], ["p:frame_size"]),
    F("hierarchy.lmeasure", "frame-size-nonpositive", "<=", ["p:frame_size"], ["c:0"]),
    F("hierarchy._gauc", "shapes-differ", "!=", ["p:ref_lca", "a:shape"], ["p:est_lca", "a:shape"]),
    F("alignment.percentage_correct_segments", "duration-nonpositive", "<=", ["p:duration"], ["c:0"]),
    F("alignment.percentage_correct_segments", "ref-beyond-duration", "<", ["p:duration"], ["f:np.max", "p:reference_timestamps"]),
    F("alignment.percentage_correct_segments", "est-beyond-duration", "<", ["p:duration"], ["f:np.max", "p:estimated_timestamps"]),
    F("alignment.percentage_correct_segments", "ref-all-identical", "<=", ["p:reference_timestamps"], ["c:0"]),
    # malformed values
    F("key.validate_key", "form", "!=", ["f:builtins.len", "p:key"], ["c:2"]),
    F("key.validate_key", "x-with-mode", "==", ["c:'x'"], ["f:.lower", "f:.split"]),
    F("key.validate_key", "unknown-key", "notin", ["f:.lower", "f:.split"], ["g:key.KEY_TO_SEMITONE"]),
    F("key.validate_key", "unknown-mode", "notin", [], ["c:'major'", "c:'minor'", "c:'other'"]),
    F("pattern.validate", "empty-pattern", "<=", ["f:builtins.len", "iter"], ["c:0"]),
    F("pattern.validate", "onset-midi-pair", "!=", ["f:builtins.len", "iter"], ["c:2"]),
    F("pattern.three_layer_FPR.compute_layer", "layer", "!=", ["p:layer"], ["c:1"]),
    # sources
    F("separation.validate", "shapes-differ", "!=", ["p:reference_sources", "a:shape"], ["p:estimated_sources", "a:shape"]),
    F("separation.validate", "too-many-dims", "<", ["c:3"], ["a:ndim"]),
    F("separation.validate", "silent-reference", "truth", ["f:separation._any_source_silent", "p:reference_sources"], None),
    F("separation.validate", "silent-estimate", "truth", ["f:separation._any_source_silent", "p:estimated_sources"], None),
    F("separation.validate", "too-many-sources", "<", ["g:separation.MAX_SOURCES"], ["a:shape"]),
    F("chord.validate_chord_label", "grammar", "falsy", ["g:chord.CHORD_RE", "p:chord_label"], None),
    F("util.adjust_intervals", "empty-without-bounds", "==", ["c:0"], ["p:intervals", "a:size"]),
]


def _match(atom, op, lhs, rhs):
    aop, l, r = atom
    if op in ("truth", "falsy"):
        return aop == op and _has(l, *lhs)
    # ">" in the table means normalised "<" with sides exchanged
    if op == ">":
        op, lhs, rhs = "<", rhs, lhs
    if op == ">=":
        op, lhs, rhs = "<=", rhs, lhs
    if aop != op:
        return False
    if _has(l, *lhs) and _has(r, *rhs):
        return True
    if op in ("==", "!=") and _has(l, *rhs) and _has(r, *lhs):
        return True
    return False


# `False in [x[0, 0] == y[0, 0], x[-1, 1] == y[-1, 1]]` is `not (starts equal and ends equal)`: the raise is guarded by an
# inequality between the two interval arrays
FACET_ALTERNATIVES = [
    F("util.merge_labeled_intervals", "misaligned", "!=", ["p:x_intervals"], ["p:y_intervals"]),
]


def _additive_constants(atom):
    """numeric constants added to / subtracted from something inside a comparison atom: `x > duration + 0.05`"""
    out = []
    for z in atom[1:]:
        if z is None or not hasattr(z, "op"):
            continue
        for x in tm.walk(z):
            if x.op == "bin" and x.a[0] in ("+", "-"):
                for y in x.a[1:]:
                    if y.op == "const" and isinstance(y.a[0], (int, float)) and not isinstance(y.a[0], bool) and y.a[0] != 0:
                        out.append(y.a[0])
    return out


def rule_facets(ctx):
    cache = {}
    for func, name, op, lhs, rhs in FACETS:
        f = ctx.program.func(func, "C14.FACETS")
        if func not in cache:
            s = ctx.S.get(func)
            cache[func] = [(r, _atoms(r)) for r in s.by_kind("raise")]
        hit = None
        # a facet about a parameter of a *private* (nested / underscore) helper lapses when that parameter is gone:
        # nothing outside the module can pass the value the check was written for
        ptoks = [x[2:] for x in (lhs or []) + (rhs or []) if isinstance(x, str) and x.startswith("p:")]
        private = f.parent is not None or f.name.startswith("_")
        if private and ptoks and all(p not in f.all_params for p in ptoks):
            yield ob("C14.FACETS", f, "%s:%s" % (func, name), True, "not applicable: the private helper no longer has the parameter %s this check was about" % ptoks)
            continue
        slack = None
        for r, atoms in cache[func]:
            if r.exc not in ("ValueError", "InvalidChordException"):
                continue
            ms_ = [a for a in atoms if _match(a, op, lhs, rhs)]
            if ms_:
                sl = [(a, _additive_constants(a)) for a in ms_]
                if all(cs for _, cs in sl):
                    # the documented comparison, but with a constant added to one side: a bound with slack
                    slack = (r, sl[0][1])
                    continue
                hit = r
                break
            # other spellings of the same documented check
            if any(_match(a, op2, l2, r2) for (f2, n2, op2, l2, r2) in FACET_ALTERNATIVES if (f2, n2) == (func, name) for a in atoms):
                hit = r
                break
        if hit is None and slack is not None:
            yield ob("C14.FACETS", f, "%s:%s" % (func, name), False, "the documented check `%s %s %s` is made with a margin of %s added to one side: values just beyond the documented bound are accepted" % (lhs, op, rhs if rhs is not None else "", ", ".join(repr(c) for c in slack[1])), node=slack[0].node)
            continue
        yield ob("C14.FACETS", f, "%s:%s" % (func, name), hit is not None, ("raises %s when %s %s %s" % (hit.exc, lhs, op, rhs if rhs is not None else "")) if hit is not None else "no raise guarded by the documented check `%s %s %s`" % (lhs, op, rhs if rhs is not None else ""), node=hit.node if hit is not None else None)


# ------------------------------------------------------------------ SOLEGUARD
def _guard_tree(c, p):
    """('lit', c, p) | ('and', [...]) | ('or', [...]): the Boolean structure of one branch condition with polarity"""
    if c.op == "un" and c.a[0] == "not":
        return _guard_tree(c.a[1], not p)
    kind = None
    kids = None
    if c.op == "bool":
        kind, kids = c.a[0], c.a[1:]
    elif c.op == "call" and call_name(c) in ("np.logical_or", "np.logical_and") and c.a[1]:
        kind, kids = ("or" if call_name(c) == "np.logical_or" else "and"), c.a[1]
    elif c.op == "bin" and c.a[0] in ("|", "&") and all(z.op in ("cmp", "bin", "call", "un") for z in c.a[1:]):
        kind, kids = ("or" if c.a[0] == "|" else "and"), c.a[1:]
    elif c.op == "call" and call_name(c) in ("builtins.any", "builtins.all") and len(c.a[1]) == 1 and c.a[1][0].op in ("tuple", "list") and c.a[1][0].a:
        kind, kids = ("or" if call_name(c) == "builtins.any" else "and"), c.a[1][0].a
    elif c.op == "call" and len(c.a[1]) == 1 and c.a[1][0].op == "comp" and c.a[1][0].a[0] in ("gen", "list") and ((call_name(c) == "builtins.any" and p) or (call_name(c) == "builtins.all" and not p)):
        return _guard_tree(c.a[1][0].a[1], p)
    elif c.op == "call" and len(c.a[1]) == 1 and ((call_name(c) == "np.any" and p) or (call_name(c) == "np.all" and not p)):
        return _guard_tree(c.a[1][0], p)  # somewhere (a | b): a somewhere or b somewhere; somewhere (a & b): both, at one place
    if kind is None:
        return ("lit", c, p)
    k = kind if p else ("or" if kind == "and" else "and")
    return (k, [_guard_tree(x, p) for x in kids])


def _tree_leaves(t):
    if t[0] == "lit":
        return [t]
    out = []
    for x in t[1]:
        out += _tree_leaves(x)
    return out


def _tree_contexts(t, ctx=()):
    """(literal, sub-trees that must hold as well for the guard to fire through this literal)"""
    if t[0] == "lit":
        yield t, list(ctx)
        return
    for i, x in enumerate(t[1]):
        if t[0] == "and":
            yield from _tree_contexts(x, ctx + tuple(y for j, y in enumerate(t[1]) if j != i))
        else:
            yield from _tree_contexts(x, ctx)


def _generic_coguard(lit, subject_params):
    """a co-condition that only says the checked value is there to be checked: `x is not None`, `x.size > 0`,
    `len(x) > 1` - about the parameters the documented check itself reads"""
    _, c, p = lit
    ps = tm.params_of(c)
    if not ps or not ps <= subject_params:
        return False
    if c.op == "cmp" and c.a[0] in ("is", "isnot") and (tm.is_const(c.a[1], None) or tm.is_const(c.a[2], None)):
        return True

    def is_count(z):
        return common.dim_of(z) is not None or (z.op == "attr" and z.a[1] == "size") or (z.op == "call" and call_name(z) in ("builtins.len", "np.size"))

    if c.op == "cmp" and c.a[0] in ("<", "<=", "==", "!="):
        a, b = c.a[1], c.a[2]
        for x, y in ((a, b), (b, a)):
            if x.op == "const" and x.a[0] in (0, 1) and not isinstance(x.a[0], bool) and is_count(y):
                return True
    if is_count(c):
        return True  # `if x.size and ...`
    if c.op == "call" and call_name(c) in (".split", ".rsplit", ".strip", ".lstrip", ".rstrip", "builtins.list", "builtins.tuple"):
        return True  # `if parts and ...`: the truth value of a sequence is its non-emptiness
    return False


def _lit_text(lit):
    """canonical text of a literal: the polarity is folded into the comparison (`not a == b` is `a != b`)"""
    _, c, p = lit
    if c.op == "cmp" and not p and c.a[0] in NEG:
        c, p = tm.cmp(NEG[c.a[0]], c.a[1], c.a[2]), True
    return ("" if p else "not ") + tm.show(c, 5)


# co-conditions of a documented check that are part of the published behaviour (reviewed one by one; everything of the
# kind `_generic_coguard` accepts needs no entry)
SOLEGUARD_REVIEWED = {
    ("alignment.percentage_correct_segments", "ref-all-identical"): "only without an explicit duration: with one, the last reference boundary is the duration",
    ("key.validate_key", "form"): "'X' (no key) is a complete label by itself",
    ("key.validate_key", "x-with-mode"): "the test is about labels starting with X",
    ("key.validate_key", "unknown-key"): "'X' is handled before the tonic look-up",
    ("key.validate_key", "unknown-mode"): "'X' is handled before the mode look-up",
    ("pattern.three_layer_FPR.compute_layer", "layer"): "layer is 1 or 2: the two inequalities are one check",
    ("util.adjust_intervals", "empty-without-bounds"): "empty input can be padded only when a bound is given",
}


def rule_soleguard(ctx):
    """A documented validation check is not made conditional on something else: the guard of its `raise` may be a
    disjunction of several checks, but a *conjunct* next to the documented comparison (`if strict and np.any(x < 0)`,
    `layer not in (1, 2, 3)`) means malformed input is rejected only when that other condition holds too.  Conjuncts
    that merely say the value is there to be checked (`x is not None`, `x.size > 0`) are accepted; the seven others of
    the published validators are reviewed by name, with the literal text recorded on the reference tree."""
    R = "C14.SOLEGUARD"
    cache = {}
    n = 0
    for func, name, op, lhs, rhs in FACETS:
        if not ctx.program.has_func(func) or ctx.program.resigned(func):
            continue
        f = ctx.program.func(func, R)
        if func not in cache:
            s = ctx.S.get(func)
            trees = []
            for r in s.by_kind("raise"):
                if r.exc not in ("ValueError", "InvalidChordException"):
                    continue
                conds = [(c, p) for c, p, o in symeval.pc_conds_full(r.pc) if o in (None, "return", "mixed")]
                if conds:
                    trees.append((r, ("and", [_guard_tree(c, p) for c, p in conds])))
            cache[func] = trees
        alts = [(op, lhs, rhs)] + [(o2, l2, r2) for (f2, n2, o2, l2, r2) in FACET_ALTERNATIVES if (f2, n2) == (func, name)]
        found = None
        for r, root in cache[func]:
            for lit, co in _tree_contexts(root):
                if any(_match(a, o, l, rr) for a in _cmp_atoms(lit[1], lit[2]) for (o, l, rr) in alts):
                    found = (r, lit, co)
                    break
            if found:
                break
        if found is None:
            continue  # whether the check exists at all is C14.FACETS
        r, lit, co = found
        n += 1
        subject = tm.params_of(lit[1])
        extra = [l for sub in co for l in _tree_leaves(sub) if not _generic_coguard(l, subject)]
        if not extra:
            yield ob(R, f, "%s:%s" % (func, name), True, "the documented check fires on its own (co-conditions: %s)" % ("; ".join(_lit_text(l) for sub in co for l in _tree_leaves(sub)) or "none"), node=r.node)
            continue
        rev = SOLEGUARD_REVIEWED.get((func, name))
        texts = sorted({_lit_text(l) for l in extra})
        ref = SOLEGUARD_TEXTS.get((func, name))
        good = rev is not None and ref is not None and set(texts) <= set(ref)
        yield ob(R, f, "%s:%s" % (func, name), good, ("reviewed co-condition (%s): %s" % (rev, "; ".join(texts))) if good else "the documented check `%s %s %s` is only made when also %s: malformed input is accepted whenever that does not hold" % (lhs, op, rhs if rhs is not None else "", "; ".join(t_ for t_ in texts if ref is None or t_ not in ref)), node=r.node)
    need(n >= 40, R, "only %d documented checks located" % n)


SOLEGUARD_TEXTS = {
    ("alignment.percentage_correct_segments", "ref-all-identical"): ["(None is duration)"],
    ("key.validate_key", "form"): ["('x' != .lower(key))"],
    ("key.validate_key", "x-with-mode"): ["('x' != .lower(key))"],
    ("key.validate_key", "unknown-key"): ["('x' != .lower(key))"],
    ("key.validate_key", "unknown-mode"): ["('x' != .lower(key))"],
    ("pattern.three_layer_FPR.compute_layer", "layer"): ["(2 != layer)", "(1 != layer)"],
    ("util.adjust_intervals", "empty-without-bounds"): ["(None is t_max)", "(None is t_min)"],
}


UNDEF_REVIEWED = {
    ("beat.goto", "track"): "assigned on every path on which goto_criteria is set, read only under `if goto_criteria`",
    ("pattern.three_layer_FPR.compute_layer", "func"): "layer is validated to be 1 or 2 before the loop",
}


def rule_defassign(ctx):
    for f in ctx.program.all_funcs():
        s = ctx.S.get(f.qual)
        names = {}
        for u in s.by_kind("maybe_undef"):
            names.setdefault(u.name, u)
        if not names:
            yield ob("C14.DEFASSIGN", f, "%s:locals" % f.qual, True, "no local is read on a path where it may be unassigned")
            continue
        for nme, u in sorted(names.items()):
            # the unassigned alternative may be unreachable under the facts of the path (a validated flag decides both
            # the assignment and the read): decided on the finite model of the comparisons involved
            from .. import finmodel

            sites = [x for x in s.by_kind("maybe_undef") if x.name == nme]
            derived = all(finmodel.may_be_undef(x.d.get("term"), list(symeval.pc_conds(x.pc))) is False for x in sites if x.d.get("term") is not None) and bool(sites)
            if derived:
                yield ob("C14.DEFASSIGN", f, "%s:%s" % (f.qual, nme), True, "local %r: the unassigned alternative is excluded by the conditions on every path that reads it (finite model of the comparisons)" % nme, node=u.node)
                continue
            rev = UNDEF_REVIEWED.get((f.qual, nme))
            yield ob("C14.DEFASSIGN", f, "%s:%s" % (f.qual, nme), rev is not None, "local %r may be read before assignment%s" % (nme, (" (reviewed: %s)" % rev) if rev else " (UnboundLocalError on that path)"), node=u.node)


def rule_totallookup(ctx):
    """In validators, a subscript of a module-level dict is dominated by a membership test (else KeyError instead of ValueError)."""
    n = 0
    for f in ctx.program.all_funcs():
        if not f.name.startswith("validate"):
            continue
        s = ctx.S.get(f.qual)
        k = 0
        for sb in s.by_kind("subscript"):
            if sb.base.op == "glob":
                m = ctx.program.modules.get(sb.base.a[0].split(".")[0])
                val = m.const_values.get(sb.base.a[0].split(".", 1)[1]) if m else None
                if not isinstance(val, dict):
                    continue
                good = any(c.op == "cmp" and c.a[0] in ("in", "notin") and c.a[1] is sb.index and c.a[2] is sb.base and ((c.a[0] == "in") == p) for c, p in facts(sb.pc))
                k += 1
                yield ob("C14.TOTALLOOKUP", f, "%s:lookup@%d" % (f.qual, k), good, "lookup %s[%s] is %s" % (sb.base.a[0], tm.show(sb.index, 2), "dominated by a membership test" if good else "not guarded: an unknown key raises KeyError, not ValueError"), node=sb.node)
        if k == 0:
            yield ob("C14.TOTALLOOKUP", f, "%s:lookups" % f.qual, True, "no table lookup in this validator")


def rule_squeeze(ctx):
    """np.squeeze() without an axis turns a one-element row into a 0-d array; slicing or len() of the result then raises.
    A row can legitimately have one element (a window of a single frame), so the result must not be used as a sequence."""
    n = 0
    for f in ctx.program.all_funcs():
        if f.module.name in ("sonify", "display"):
            continue
        s = ctx.S.get(f.qual)
        sq = [c for c in s.calls() if c.term.op == "call" and call_name(c.term) in ("np.squeeze", ".squeeze") and len(c.term.a[1]) == 1 and not any(k == "axis" for k, _ in c.term.a[2])]
        for i, c in enumerate(sq):
            used_as_seq = None
            for x in s.sites:
                if x.kind == "subscript" and x.base is c.term and (x.index.op == "slice" or (x.index.op == "tuple" and any(z.op == "slice" for z in x.index.a))):
                    used_as_seq = x
                if x.kind == "call" and x.callee == "builtins.len" and x.args and x.args[0] is c.term:
                    used_as_seq = x
            # returned as the function's array result: callers index it / take its length
            returned = [r for r in s.returns if r.term is c.term or (r.term.op == "tuple" and any(z is c.term for z in r.term.a))]
            if returned:
                doc = " ".join(str(x) for x in f.docinfo.get("returns", []))
                yield ob("C14.SQUEEZE", f, "%s:squeeze-returned@%d" % (f.qual, i), False, "the axis-less squeeze() is returned as the function's result%s: for a one-row input it is 0-dimensional and callers that index it or take its length fail" % (" (documented as %s)" % doc[:80] if doc else ""), node=c.node)
            n += 1
            yield ob("C14.SQUEEZE", f, "%s:squeeze@%d" % (f.qual, i), used_as_seq is None, "result of .squeeze() is %s" % ("not sliced or measured" if used_as_seq is None else "sliced at line %d: for a one-element input it is 0-dimensional and the slice raises IndexError" % used_as_seq.lineno), node=c.node)
    if n == 0:
        yield ob("C14.SQUEEZE", "mir_eval/", "package:no-squeeze", True, "no axis-less squeeze() in the metric modules")


def rule_countguard(ctx):
    for o in c01.rule_countguard(ctx, rule="C14.COUNTGUARD"):
        yield o


def rule_cropstrict(ctx):
    from . import c13

    for o in c13.rule_cropstrict(ctx, rule="C14.CROPSTRICT"):
        yield o


# ------------------------------------------------ INDEXGUARD / NONEGUARD / EMPTYREDUCE
# Three contradiction rules (Engler et al.): a test and a use on the same path must talk about the same object.


def rule_indexguard(ctx):
    """X[i] reached under the bounds test `i < len(Y)`: Y must be X itself; a test on another array leaves the read
    unprotected (IndexError for a valid input whose two sides differ in length)."""
    R = "C14.INDEXGUARD"
    n = 0
    for f in ctx.program.all_funcs():
        if f.module.name in ("display", "sonify"):
            continue
        s = ctx.S.get(f.qual)
        k = 0
        seen = set()
        for st in s.by_kind("subscript"):
            t = st.d.get("term")
            if t is None or t.op != "sub":
                continue
            B, I = t.a
            if I.op in ("const", "slice", "tuple"):
                continue
            for c, p in facts(st.pc):
                if c.op == "cmp" and c.a[0] in ("<", "<=") and p and c.a[1] is I:
                    cf = count_form(c.a[2])
                    if cf is None:
                        continue
                    key = (t.id, c.id)
                    if key in seen:
                        continue
                    seen.add(key)
                    same = cf[1] is B
                    k += 1
                    n += 1
                    yield ob(R, f, "%s:bounded-read@%d" % (f.qual, k), same, "%s is read under the bounds test %s on that same array" % (tm.show(t, 2), tm.show(c, 3)) if same else "%s is read under the bounds test %s, which measures a different array (%s): the read is unprotected" % (tm.show(t, 2), tm.show(c, 3), tm.show(cf[1], 2)), node=st.node)
    need(n >= 2, R, "no bounds-tested read found (beat.continuity has two)")


def rule_noneguard(ctx):
    """An optional array parameter (default None) is dereferenced only under `<that parameter> is not None`."""
    R = "C14.NONEGUARD"
    n = 0
    for f in ctx.program.all_funcs():
        if f.module.name in ("display",):
            continue
        nd = [p for p in f.params if p in f.defaults and f.default_value(p) == (True, None)]
        if not nd:
            continue
        s = ctx.S.get(f.qual)
        k = 0
        for st in s.sites:
            t = st.d.get("term")
            if t is None:
                continue
            for p in nd:
                P = tm.param(p)
                der = (st.kind == "subscript" and t.op == "sub" and t.a[0] is P) or (st.kind == "call" and st.d.get("base") is P)
                if not der:
                    continue
                guarded = any(c.op == "cmp" and c.a[0] in ("is", "isnot") and any(z is P for z in c.a[1:]) and any(tm.is_const(z, None) for z in c.a[1:]) and ((c.a[0] == "isnot") == bool(pol)) for c, pol in facts(st.pc))
                others = sorted({z.a[0] for c, pol in facts(st.pc) if c.op == "cmp" and c.a[0] in ("is", "isnot") for z in c.a[1:] if z.op == "param" and z is not P})
                k += 1
                n += 1
                yield ob(R, f, "%s:%s@%d" % (f.qual, p, k), guarded, "%s is dereferenced only where `%s is not None` holds" % (p, p) if guarded else "%s (default None) is dereferenced as %s without a test on it%s" % (p, tm.show(t, 2), (" - the enclosing test is on %s" % ", ".join(others)) if others else ""), node=st.node)
    need(n >= 3, R, "no dereference of an optional parameter found (melody.to_cent_voicing has two)")


def _proves_two(den_arg, pc):
    """Does the path prove that the array whose np.diff is reduced has at least 2 elements?"""
    for c, pol in facts(pc):
        if c.op == "cmp" and c.a[0] in ("<", "<=") and not pol:
            cf = count_form(c.a[1])
            k = c.a[2].a[0] if c.a[2].op == "const" and isinstance(c.a[2].a[0], (int, float)) else None
            if cf is not None and k is not None and cf[1] is den_arg and ((c.a[0] == "<" and k >= 2) or (c.a[0] == "<=" and k >= 1)):
                return "path has not (%s)" % tm.show(c, 3)
    # the differenced array is assembled from at least two scalars: np.hstack([a, xs, b]) / np.concatenate(([a], xs, [b]))
    if den_arg.op == "call" and call_name(den_arg) in ("np.hstack", "np.concatenate", "np.r_") and den_arg.a[1] and den_arg.a[1][0].op in ("list", "tuple"):
        singles = 0
        for z in den_arg.a[1][0].a:
            if z.op in ("list", "tuple") and len(z.a) == 1:
                singles += 1
            elif z.op in ("iter", "const") or (z.op == "sub" and z.a[0].op == "iter"):
                singles += 1
        if singles >= 2:
            return "the differenced array is built from at least two single values (%d) plus an array" % singles
    # sentinel form: the reduced array indexes an array that had a value appended at both ends
    apps = [x for x in tm.walk(den_arg) if x.op == "call" and call_name(x) == "np.append"]
    if len(apps) >= 2 and any(any(y is x for y in tm.walk(a.a[1][0])) for a in apps for x in apps if x is not a):
        return "the array lists positions in a vector that had a sentinel appended at both ends"
    # the sentinel idiom with a pre-allocated buffer: positions of 0 in np.zeros(n + 2) whose interior [1:-1] alone is written
    for x in tm.walk(den_arg):
        if x.op == "cmp" and x.a[0] == "==" and any(tm.is_const(z, 0) for z in x.a[1:]):
            arr = [z for z in x.a[1:] if not tm.is_const(z, 0)]
            if len(arr) == 1:
                b = arr[0]
                keys = []
                for _ in range(200):
                    if b.op == "upd" and b.a[1] == "setitem":
                        keys.append(b.a[2])
                        b = b.a[0]
                    elif b.op in ("loop", "loopvar"):
                        keys.extend(u.a[2] for u in tm.walk(b.a[3]) if b.op == "loop" and u.op == "upd" and u.a[1] == "setitem")
                        b = b.a[2]
                    else:
                        break

                def interior(k):
                    sl = k.a[0] if k.op == "via" else k
                    return sl.op == "slice" and tm.is_const(sl.a[0], 1) and tm.is_const(sl.a[1], -1) and tm.is_const(sl.a[2], None)

                if b.op == "call" and call_name(b) == "np.zeros" and b.a[1] and b.a[1][0].op == "bin" and b.a[1][0].a[0] == "+" and any(tm.is_const(z, 2) for z in b.a[1][0].a[1:]) and all(interior(k) for k in keys):
                    return "the array lists the positions of 0 in a vector of n + 2 zeros of which only the interior [1:-1] is written: both ends stay 0"
    # ... or with a display: positions of k in np.array([k, *xs, k])
    for x in tm.walk(den_arg):
        if x.op == "cmp" and x.a[0] == "==":
            for k, arr in ((x.a[1], x.a[2]), (x.a[2], x.a[1])):
                if k.op == "const" and arr.op == "call" and call_name(arr) in ("np.array", "np.asarray") and arr.a[1] and arr.a[1][0].op in ("list", "tuple") and len(arr.a[1][0].a) >= 2 and arr.a[1][0].a[0] is k and arr.a[1][0].a[-1] is k:
                    return "the array lists the positions of %s in a vector written with %s at both ends" % (tm.show(k, 1), tm.show(k, 1))
    # the same sentinel idiom with one concatenation: positions where concatenate(([k], xs, [k])) == k
    for x in tm.walk(den_arg):
        if x.op == "cmp" and x.a[0] == "==":
            for k, arr in ((x.a[1], x.a[2]), (x.a[2], x.a[1])):
                if k.op == "const" and arr.op == "call" and call_name(arr) in ("np.concatenate", "np.hstack") and arr.a[1] and arr.a[1][0].op in ("list", "tuple"):
                    ends = [z for z in arr.a[1][0].a if (z.op in ("list", "tuple") and len(z.a) == 1 and z.a[0] is k) or z is k]
                    if len(ends) >= 2:
                        return "the array lists the positions of %s in a vector that has %s at both ends" % (tm.show(k, 1), tm.show(k, 1))
    # single-element case excluded by the (short-circuit) condition itself
    for c, pol in symeval.pc_conds(pc):
        if not pol:
            for x in tm.walk(c):
                if x.op == "cmp" and x.a[0] == "==" and any(tm.is_const(z, 1) for z in x.a[1:]) and any(count_form(z) is not None for z in x.a[1:]):
                    cfz = [count_form(z) for z in x.a[1:] if count_form(z) is not None][0]
                    if tm.params_of(cfz[1]) & tm.params_of(den_arg) or any(y is cfz[1] for y in tm.walk(den_arg)):
                        return "reached only when not (%s)" % tm.show(c, 3)
    return None


def rule_emptyreduce(ctx):
    """np.max / np.min of np.diff(x) raises ValueError when x has a single element: the reduction is reached only where
    the path proves at least two elements (or excludes the single-element case)."""
    R = "C14.EMPTYREDUCE"
    n = 0
    for f in ctx.program.all_funcs():
        if f.module.name in ("display", "sonify", "separation"):
            continue
        s = ctx.S.get(f.qual)
        k = 0
        for c in s.calls():
            if c.callee not in ("np.max", "np.min", "builtins.max", "builtins.min") or not c.args:
                continue
            diffs = [x for x in tm.walk(c.args[0]) if x.op == "call" and call_name(x) == "np.diff" and x.a[1]]
            if not diffs:
                continue
            # only a reduction *of* the difference (through abs and the like), not of a list built elsewhere
            a0 = c.args[0]
            while a0.op == "call" and call_name(a0) in ("np.abs", "np.asarray", "np.array") and a0.a[1]:
                a0 = a0.a[1][0]
            if not (a0.op == "call" and call_name(a0) == "np.diff"):
                continue
            k += 1
            n += 1
            why = _proves_two(a0.a[1][0], c.pc)
            yield ob(R, f, "%s:reduce-of-diff@%d" % (f.qual, k), why is not None, "%s: %s" % (tm.show(c.term, 3), why) if why else "%s is reached without excluding a one-element sequence: np.diff is empty there and the reduction raises ValueError" % tm.show(c.term, 3), node=c.node)
    need(n >= 3, R, "reductions of np.diff not found (goto, continuity, standard_FPR)")


# ------------------------------------------------------------------ EMPTYREAD

EMPTYREAD_REVIEWED = {
    "beat._get_entropy": "private helper; information_gain returns 0 before calling it when either side has <= 1 beat",
    "chord.directional_hamming_distance": "segmentation scores of an empty reference are undefined; chord.evaluate reaches it only with a non-empty, span-adjusted pair (C12.PIPELINE)",
    "util.merge_labeled_intervals": "called on annotations that adjust_intervals has made non-empty (it raises on an empty annotation without bounds and pads otherwise)",
    "hierarchy.validate_hier_intervals": "a hierarchy is a non-empty list of segmentations by the task's own definition",
    "melody.resample_melody_series": "frequencies[0] == frequencies[1] is the right operand of `or` after np.allclose on the time deltas, which is vacuously true for fewer than two samples",
}


def _rejects_empty(ctx, callee, qparam):
    """does ``callee`` raise when its parameter ``qparam`` is empty?"""
    if not ctx.program.has_func(callee):
        return False
    s = ctx.S.get(callee)
    Q = tm.param(qparam)
    for r in s.by_kind("raise"):
        for c, pol in facts(r.pc):
            if c.op == "cmp" and c.a[0] == "==" and pol and any(tm.is_const(z, 0) for z in c.a[1:]):
                for z in c.a[1:]:
                    cf = count_form(z)
                    if cf is not None and cf[1] is Q:
                        return True
    return False


def rule_emptyread(ctx):
    """An element of an input array is read by constant position only where the array is known to be non-empty: a
    test on the path, an earlier validator call that raises on an empty array, or a reviewed reason.  Otherwise an
    empty but valid annotation (the metric functions define 0 for it) fails with IndexError."""
    R = "C14.EMPTYREAD"
    n = 0
    seen_funcs = set()
    for f in ctx.program.all_funcs():
        if f.module.name in ("display", "sonify", "separation", "io"):
            continue
        s = ctx.S.get(f.qual)
        reads = {}
        for st in s.by_kind("subscript"):
            t = st.d.get("term")
            if t is None or t.op != "sub":
                continue
            B, I = t.a
            if B.op != "param":
                continue
            isnum = lambda z: z.op == "const" and isinstance(z.a[0], (int, float)) and not isinstance(z.a[0], bool)
            if not (isnum(I) or (I.op == "tuple" and I.a and isnum(I.a[0]))):
                continue
            reads.setdefault(B.a[0], []).append((st, t))
        for pname, sts in sorted(reads.items()):
            P = tm.param(pname)
            bad = []
            why_ok = None
            for st, t in sts:
                ne = [b for k, b in nonempty_bases(st.pc)]
                if any(b is P for b in ne):
                    why_ok = "a test on the path proves %s non-empty" % pname
                    continue
                # reached only after a first-element test of another input array (reported there, once)
                first = [x for c, _pol in symeval.pc_conds(st.pc) for x in tm.walk(c) if x.op == "sub" and x.a[0].op == "param" and x.a[0] is not P and x.a[1].op == "const"]
                if first:
                    why_ok = "reached only under a test that already read %s" % tm.show(first[0], 2)
                    continue
                # earlier unconditional call of a repo function that rejects an empty array bound to this parameter
                val = None
                for c in s.calls():
                    if c.node.lineno >= st.node.lineno or c.fn is None or c.fn.op not in ("func", "localfunc"):
                        continue
                    callee = tm.callee_name(c.fn)
                    if not ctx.program.has_func(callee):
                        continue
                    g = ctx.program.func(callee)
                    for i, a in enumerate(c.args):
                        if a is P and i < len(g.params) and _rejects_empty(ctx, callee, g.params[i]):
                            val = callee
                if val is not None:
                    why_ok = "%s, called first, raises ValueError on an empty %s" % (val, pname)
                    continue
                bad.append(tm.show(t, 2))
            n += 1
            seen_funcs.add(f.qual)
            if bad and f.qual in EMPTYREAD_REVIEWED:
                yield ob(R, f, "%s:%s" % (f.qual, pname), True, "reviewed: %s" % EMPTYREAD_REVIEWED[f.qual], node=sts[0][0].node)
            else:
                yield ob(R, f, "%s:%s" % (f.qual, pname), not bad, why_ok or "no positional read", node=sts[0][0].node) if not bad else ob(R, f, "%s:%s" % (f.qual, pname), False, "reads %s with no test, validator or reviewed reason that %s is non-empty: an empty (valid, warned-about) annotation raises IndexError here" % (", ".join(sorted(set(bad))), pname), node=sts[0][0].node)
    # a reviewed function that no longer reads by position needs no review any more; one that vanished is an anchor lost
    gone = sorted(q for q in EMPTYREAD_REVIEWED if not ctx.program.has_func(q))
    if gone:
        raise AnalysisError(R, "reviewed functions vanished: %s" % ", ".join(gone))
    need(n >= 10, R, "positional reads of input arrays not enumerated")


def rule_negdim(ctx):
    """np.zeros(n) / ones / empty with n a *difference* of sizes is reached only under a test that n >= 0
    (a negative dimension raises ValueError for a valid input whose two sides differ in length the other way)."""
    R = "C14.NEGDIM"
    n = 0
    for f in ctx.program.all_funcs():
        if f.module.name in ("display", "sonify"):
            continue
        s = ctx.S.get(f.qual)
        k = 0
        for c in s.calls():
            if c.callee not in ("np.zeros", "np.ones", "np.empty", "np.full") or not c.args:
                continue
            size = c.args[0]
            lf = linear_form(size)
            neg = [x for kk, (co, x) in lf.items() if co < 0 and x.op != "const"]
            if not neg:
                continue
            k += 1
            n += 1
            ok = False
            for cnd, pol in facts(c.pc):
                if cnd.op == "cmp" and cnd.a[0] in ("<=", "<") and pol and tm.is_const(cnd.a[1], 0) and cnd.a[2] is size:
                    ok = True
                if cnd.op == "cmp" and cnd.a[0] == "<" and not pol and cnd.a[1] is size and tm.is_const(cnd.a[2], 0):
                    ok = True
            yield ob(R, f, "%s:alloc-size@%d" % (f.qual, k), ok, "%s allocates %s elements only where that difference is tested non-negative" % (c.callee, tm.show(size, 3)) if ok else "%s(%s): the size is a difference of lengths and nothing on the path proves it non-negative" % (c.callee, tm.show(size, 3)), node=c.node)
    need(n >= 1, R, "difference-sized allocations not found (melody.to_cent_voicing pads the estimate by a length difference)")


def rule_perannotation(ctx):
    """segment.validate_structure checks *each* of the two annotations: the label-count test and the starts-at-0 test sit
    inside the loop over [(reference...), (estimated...)], not after it (where only the last pair would be tested)."""
    R = "C14.PERANNOTATION"
    f = ctx.program.func("segment.validate_structure", R)
    s = ctx.S.get(f.qual)
    loops = [(lid, it) for lid, (node, it) in s.loops.items() if it.op in ("list", "tuple") and len(it.a) == 2 and all(x.op == "tuple" for x in it.a)]
    if not loops:
        # unrolled form: each test exists once for the reference and once for the estimate
        per_role = {"R": 0, "E": 0}
        for r in s.by_kind("raise"):
            rs = set()
            own = [c for c, _p, o in symeval.pc_conds_full(r.pc) if o is None]
            for c in own[-1:]:
                rs |= roles(c)
            if rs in ({"R"}, {"E"}):
                per_role[next(iter(rs))] += 1
        calls = [c for c in s.calls() if c.callee == "util.validate_intervals"]
        both_calls = {frozenset(roles(c.args[0])) for c in calls if c.args} == {frozenset({"R"}), frozenset({"E"})}
        ok = per_role["R"] >= 2 and per_role["R"] == per_role["E"] and both_calls
        yield ob(R, f, "segment.validate_structure:loop-covers-both", ok, "the per-annotation tests are written out once for the reference and once for the estimate (%d each)" % per_role["R"] if ok else "per-annotation tests: %d on the reference, %d on the estimate" % (per_role["R"], per_role["E"]))
        yield ob(R, f, "segment.validate_structure:per-annotation-tests", ok, "validate_intervals, the label-count test and the starts-at-0 test run for both annotations")
        return
    need(len(loops) == 1, R, "validate_structure: loop over the two annotations not found")
    lid, it = loops[0]
    both = {frozenset(roles(x)) for x in it.a} == {frozenset({"R"}), frozenset({"E"})}
    yield ob(R, f, "segment.validate_structure:loop-covers-both", both, "the loop visits (reference_intervals, reference_labels) and (estimated_intervals, estimated_labels)")
    inside = [r for r in s.by_kind("raise") if any(x[0] == "loop" and x[1] == lid for x in r.pc)]
    msgs = []
    for r in s.by_kind("raise"):
        msgs.append((r, any(x[0] == "loop" and x[1] == lid for x in r.pc)))
    # which tests are outside although they read the loop's variables?
    outside_using_loopvar = []
    for r, ins in msgs:
        if not ins:
            for c, _p in symeval.pc_conds(r.pc):
                if any(x.op in ("loop", "loopvar", "iter") for x in tm.walk(c)):
                    outside_using_loopvar.append(r)
    calls_in = [c for c in s.calls() if c.callee == "util.validate_intervals" and any(x[0] == "loop" and x[1] == lid for x in c.pc)]
    yield ob(R, f, "segment.validate_structure:per-annotation-tests", len(inside) >= 2 and not outside_using_loopvar and len(calls_in) == 1, "validate_intervals, the label-count test and the starts-at-0 test run once per annotation (inside the loop)" if len(inside) >= 2 and not outside_using_loopvar else "a test on the loop's annotation variables sits after the loop (line %s): only the last annotation (the estimate) is checked" % ", ".join(str(r.node.lineno) for r in outside_using_loopvar) if outside_using_loopvar else "fewer than two raising tests remain inside the per-annotation loop")


def _elementwise(t):
    """the test an element-wise formula applies to a single element: x.any() / np.any(x) / np.all(x) on a one-element
    array is the element itself; logical_or / | is `or`, logical_and / & is `and`, ~ / logical_not is `not`"""

    def f(x):
        if x.op == "call":
            n = call_name(x)
            if n in (".any", ".all", "np.any", "np.all") and len(x.a[1]) == 1 and not x.a[2]:
                return _elementwise(x.a[1][0])
            if n in ("np.logical_or", "np.logical_and") and len(x.a[1]) == 2:
                return tm.boolop("or" if n == "np.logical_or" else "and", [_elementwise(z) for z in x.a[1]])
            if n == "np.logical_not" and len(x.a[1]) == 1:
                return tm.unop("not", _elementwise(x.a[1][0]))
        if x.op == "bin" and x.a[0] in ("|", "&"):
            return tm.boolop("or" if x.a[0] == "|" else "and", [_elementwise(x.a[1]), _elementwise(x.a[2])])
        if x.op == "un" and x.a[0] == "~":
            return tm.unop("not", _elementwise(x.a[1]))
        if x.op == "un" and x.a[0] == "not":
            return tm.unop("not", _elementwise(x.a[1]))
        if x.op == "bool":
            return tm.boolop(x.a[0], [_elementwise(z) for z in x.a[1:]])
        return x

    return f(t)


def rule_nanrange(ctx):
    """A validator's closed-range test - one operand compared with a lower and an upper constant, rejecting what lies
    below the one or above the other - must also reject NaN, which lies in no range: `w < 0 or w > 1` is false for NaN
    (every ordering test on NaN is false) and lets it through to the score, `not 0 <= w <= 1` rejects it.  The repo
    itself has both spellings for the same quantity (io.load_tempo and tempo.validate on the tempo weight)."""
    from .. import finmodel

    R = "C14.NANRANGE"
    for f in ctx.program.all_funcs():
        s = ctx.S.get(f.qual)
        seen = set()
        for r in s.by_kind("raise"):
            if r.exc != "ValueError" or symeval.pc_in_try(r.pc):
                continue
            conds = list(symeval.pc_conds(r.pc))
            if not conds:
                continue
            c, pol = conds[-1]
            e = _elementwise(c)
            m = finmodel.Model([e])
            if len(m.vars) != 1 or any(k[0] != "n" for k in m.consts):
                continue
            ks = sorted(k[1] for k in m.consts)
            if len(ks) < 2:
                continue
            w = m.vars[0]
            lo, hi = ks[0], ks[-1]
            fires = {}
            undecided = False
            for val in m.valuations():
                g = m.truth(e, val)
                if g is None:
                    undecided = True
                    break
                fires[val[w.id]] = g if pol else (not g)
            if undecided or not m.ok or not fires:
                continue
            below = [v for v in fires if v < lo]
            above = [v for v in fires if v > hi]
            inside = [v for v in fires if lo < v < hi]
            # a closed- or open-range test: fires on both outer sides, not strictly inside
            if not (below and above and inside and all(fires[v] for v in below + above) and not any(fires[v] for v in inside)):
                continue
            g = m.truth(e, {w.id: float("nan")})
            if g is None:
                continue
            g = g if pol else (not g)
            key = "%s:%s" % (f.qual, ",".join(sorted(tm.params_of(w))) or tm.show(w, 2))
            if key in seen:
                continue
            seen.add(key)
            yield ob(R, f, key, bool(g), "the range test [%s, %s] on %s also rejects NaN" % (lo, hi, tm.show(w, 2)) if g else "the range test [%s, %s] on %s is built from one-sided comparisons that are all false for NaN: a NaN value is accepted as in range and flows into the score (write `not %s <= x <= %s`)" % (lo, hi, tm.show(w, 2), lo, hi), node=r.node)


BEAT_METRICS = ("beat.f_measure", "beat.cemgil", "beat.goto", "beat.p_score", "beat.continuity", "beat.information_gain")


def rule_beatguard(ctx):
    """Every beat metric scores a degenerate pair (no beats / a single beat where intervals are needed) 0 instead of
    going on to index or divide: its zero exit is guarded by a size test on the reference *and* on the estimate.  A
    guard that looks at one side only lets a valid empty annotation on the other side reach code that raises."""
    R = "C14.BEATGUARD"
    for q in BEAT_METRICS:
        f = ctx.program.func(q, R)
        s = ctx.S.get(q)
        sides = set()
        n = 0
        for r in s.returns:
            comps = r.term.a if r.term.op == "tuple" else [r.term]
            if not all(is_lit(x) and lit(x) == 0 for x in comps):
                continue
            for c, pol in symeval.pc_conds(r.pc):
                # either polarity: `if a.size == 0 or b.size == 0: return 0` and `if a.size > 0 and b.size > 0: ... return 0`
                for x in tm.walk(c):
                    cf = count_form(x)
                    if cf is not None and cf[1].op == "param":
                        n += 1
                        sides |= roles(cf[1])
        need(n > 0, R, "%s: no zero exit guarded by a size test found" % q)
        yield ob(R, f, "%s:zero-exit-tests-both-sides" % q, {"R", "E"} <= sides, "the degenerate-input exit tests the size of both the reference and the estimated beats" if {"R", "E"} <= sides else "the degenerate-input exit only tests the %s side: a valid empty or single-beat annotation on the other side reaches the scoring code" % ("reference" if sides == {"R"} else "estimated"))


C14_FILES = ("beat.py", "onset.py", "segment.py", "chord.py", "melody.py", "multipitch.py", "transcription.py", "transcription_velocity.py", "tempo.py", "key.py", "pattern.py", "hierarchy.py", "alignment.py", "util.py")


def rule_extnames(ctx):
    """a valid input must not fail with an unrelated exception: every external dotted name evaluated on the way
    (including the classes named in `except` clauses) exists in the installed libraries"""
    yield from common.rule_extnames(ctx, "C14.EXTNAMES", C14_FILES)


def rule_formatsafe(ctx):
    yield from common.rule_formatsafe(ctx, "C14.FORMATSAFE", C14_FILES)


def rule_nonetruth(ctx):
    yield from common.rule_nonetruth(ctx, "C14.NONETRUTH", C14_FILES)


def rule_temporole(ctx):
    """tempo.validate checks the reference tempi as a reference (at least one positive tempo) and the estimated tempi
    as an estimate: two zero estimates are a valid, scorable answer."""
    R = "C14.TEMPOROLE"
    f = ctx.program.func("tempo.validate", R)
    s = ctx.S.get(f.qual)
    g = ctx.program.func("tempo.validate_tempi", R)
    calls = [c for c in s.calls() if c.callee == "tempo.validate_tempi"]
    need(len(calls) >= 2, R, "tempo.validate: the two validate_tempi calls were not found")
    okd, dflt = g.default_value("reference")
    seen = {}
    for c in calls:
        a0 = c.args[0] if c.args else None
        who = a0.a[0] if a0 is not None and a0.op == "param" else None
        flag = dict(c.kw).get("reference", c.args[1] if len(c.args) > 1 else (tm.const(dflt) if okd else None))
        seen[who] = flag
    for who, want in (("reference_tempi", True), ("estimated_tempi", False)):
        flag = seen.get(who)
        good = flag is not None and tm.is_const(flag, want)
        yield ob(R, f, "tempo.validate:%s" % who, good, "%s is validated with reference=%s" % (who, want) if good else "%s is validated with reference=%s: %s" % (who, tm.show(flag, 2) if flag is not None else "?", "an all-zero estimate is rejected although it is a valid (wrong) answer" if want is False else "an all-zero reference is accepted"))


RULES = [
    ("C14.TEMPOROLE", 2, rule_temporole),
    ("C14.TABLES", 40, common.shared("c10", "rule_tables", "C14.TABLES")),
    ("C14.EXTNAMES", 100, rule_extnames),
    ("C14.FORMATSAFE", 2, rule_formatsafe),
    ("C14.NONETRUTH", 10, rule_nonetruth),
    ("C14.BEATGUARD", 6, rule_beatguard),
    ("C14.GRAMMAR", 3, common.shared("c10", "rule_grammar", "C14.GRAMMAR")),
    ("C14.NANRANGE", 3, rule_nanrange),
    ("C14.VALIDATEFIRST", 70, rule_validatefirst),
    ("C14.RAISETYPES", 80, rule_raisetypes),
    ("C14.FACETS", len(FACETS), rule_facets),
    ("C14.SOLEGUARD", 75, rule_soleguard),
    ("C14.DEFASSIGN", 190, rule_defassign),
    ("C14.TOTALLOOKUP", 15, rule_totallookup),
    ("C14.SQUEEZE", 1, rule_squeeze),
    ("C14.COUNTGUARD", 23, rule_countguard),
    ("C14.CROPSTRICT", 4, rule_cropstrict),
    ("C14.INDEXGUARD", 2, rule_indexguard),
    ("C14.NONEGUARD", 3, rule_noneguard),
    ("C14.EMPTYREDUCE", 3, rule_emptyreduce),
    ("C14.EMPTYREAD", 10, rule_emptyread),
    ("C14.NEGDIM", 1, rule_negdim),
    ("C14.PERANNOTATION", 2, rule_perannotation),
]

from . import common as _common_purity
RULES = RULES + _common_purity.purity_rules("C14")
RULES = RULES + _common_purity.bundle_rules("C14")
