"""C15 - evaluation is pure: inputs never modified, no hidden state, no uninitialised memory."""

from __future__ import annotations

import ast

from .. import terms as tm
from ..alias import AliasMod
from .common import ob, need, call_name
from .. import symeval

PROP = "C15"
EXPLANATION = (
    "Static decision of the purity clauses of C15: an interprocedural alias/MOD analysis over every function of the 17 analysed modules "
    "(which caller-owned array, list or dict can be written, on some path, through views, elements, in-place operators, mutating methods, "
    "out= arguments or callees); definite assignment of every np.empty result buffer on every path of the loop that fills it; absence of "
    "module-level mutable state, global declarations, mutable default arguments and writes through module tables; absence of "
    "non-deterministic sources (random, time, environment, id()).  Bit-identity of floating-point results inside NumPy/SciPy is not decided."
)
RULE_TEXT = "one obligation per (function, parameter set) for NOMUT, per (function, buffer, loop) for EMPTYFILL, per function/module for GLOBALSTATE and NONDET"


def get_alias(ctx):
    if "alias" not in ctx.cache:
        ctx.cache["alias"] = AliasMod(ctx)
    return ctx.cache["alias"]


def entry_points(ctx, qual):
    """Public functions that (transitively) call ``qual``."""
    callers = {}
    for f in ctx.program.all_funcs(include_new=True):
        s = ctx.S.get(f.qual)
        for c in s.calls():
            if c.fn is not None and c.fn.op in ("func", "localfunc"):
                callers.setdefault(tm.callee_name(c.fn), set()).add(f.qual)
    seen = {qual}
    work = [qual]
    while work:
        q = work.pop()
        for c in callers.get(q, ()):
            if c not in seen:
                seen.add(c)
                work.append(c)
    out = []
    for q in sorted(seen):
        if ctx.program.has_func(q) and ctx.program.func(q).public:
            out.append(q)
    return out


def rule_nomut(ctx):
    """No public function can write an object its caller owns - directly or through any chain of repo callees (MOD
    fixpoint).  A private helper that writes into its own parameter is judged at its public callers: it is a violation
    only where a caller-owned object can reach that parameter (a fresh local array may be filled in place)."""
    A = get_alias(ctx)
    A.solve() if not getattr(A, "rounds", 0) else None
    for f in ctx.program.all_funcs(include_new=True):
        direct = A.direct_mutations(f)
        params = {}
        for m, roots in direct:
            for r in roots:
                if r[0] == "p":
                    params.setdefault(r[1], m)
        is_public = getattr(f, "public", True) and f.parent is None
        if is_public:
            # also what reaches this function's parameters through callees
            for r, wit in sorted(A.mod.get(f.qual, {}).items(), key=lambda kv: str(kv[0])):
                if r[0] == "p" and r[1] not in params and wit[0] == "call":
                    params.setdefault(r[1], wit[1])
        if not params or not is_public:
            nsites = len(ctx.S.get(f.qual).by_kind("mutate"))
            note = "no mutation site (of %d) can write a caller-owned object" % nsites
            if params and not is_public:
                note = "private helper fills its own argument(s) %s in place; judged at the public callers (MOD propagation)" % sorted(params)
            yield ob("C15.NOMUT", f, "%s:params" % f.qual, True, note)
            continue
        for p, m in sorted(params.items()):
            eps = entry_points(ctx, f.qual)
            how = getattr(m, "how", None)
            if how is None:
                what = "%s passes the caller's %r to %s, which writes it in place" % (f.qual, p, m.d.get("callee"))
            else:
                what = "%s writes the caller's %r in place (%s on %s)" % (f.qual, p, how, tm.show(m.old, 4))
            yield ob(
                "C15.NOMUT",
                f,
                "%s:%s" % (f.qual, p),
                False,
                "%s; reachable from public %s" % (what, ", ".join(eps[:8])),
                node=m.node,
            )
    # propagation through calls whose callee writes a parameter that is not itself reported
    # (e.g. a library function outside the model) cannot occur: only repo callees have MOD summaries.


def _loop_rel(pc, lid):
    """Path-condition items after the marker of loop ``lid``."""
    for i, c in enumerate(pc):
        if c[0] == "loop" and c[1] == lid:
            return pc[i + 1 :]
    return None


def _covers(rels):
    """Do the relative path conditions ``rels`` (lists of ('if', cond, pol)) cover every path?"""
    rels = [[c for c in r if c[0] == "if"] for r in rels]
    if not rels:
        return False
    if any(len(r) == 0 for r in rels):
        return True
    c0 = rels[0][0][1]
    t = [r[1:] for r in rels if r[0][1] is c0 and r[0][2] is True]
    f = [r[1:] for r in rels if r[0][1] is c0 and r[0][2] is False]
    other = [r for r in rels if r[0][1] is not c0]
    if other:
        # stores under unrelated conditions: covered only if they cover on their own
        return (_covers(t) and _covers(f)) or _covers(other)
    return _covers(t) and _covers(f)


def rule_emptyfill(ctx):
    for f in ctx.program.all_funcs(include_new=True):
        s = ctx.S.get(f.qual)
        # buffers: names whose mutated object originates from np.empty
        stores = {}
        for m in s.by_kind("mutate"):
            if m.how != "setitem" or m.root is None:
                continue
            base = m.old
            while base.op in ("upd", "loopvar"):
                base = base.a[0] if base.op == "upd" else base.a[2]
            if base.op == "call" and call_name(base) in ("np.empty", "np.empty_like", "np.ndarray"):
                stores.setdefault((m.root, base.id), []).append(m)
        for (root, _), ms in sorted(stores.items(), key=lambda kv: kv[0][0]):
            # group by outermost loop in which the stores happen
            byloop = {}
            for m in ms:
                loops = symeval.pc_loops(m.pc)
                byloop.setdefault(loops[0] if loops else None, []).append(m)
            for lid, group in byloop.items():
                if lid is None:
                    # straight-line stores: some store covers the whole buffer (b[:] = .., b[...] = ..), or a mask and its
                    # complement are both stored; a single masked / indexed store leaves the rest as the allocator left it
                    def _full(k):
                        if k.op == "slice":
                            return all(tm.is_const(z, None) for z in k.a)
                        if k.op == "tuple":
                            return all(_full(z) for z in k.a)
                        return k.op == "ext" and k.a[0] in ("Ellipsis", "builtins.Ellipsis") or (k.op == "const" and k.a[0] is Ellipsis)

                    keys = [m.key for m in group if m.key is not None and hasattr(m.key, "op")]
                    whole = any(_full(k) for k in keys)
                    masks = [k for k in keys if k.op in ("cmp", "bool", "un") or (k.op == "call" and call_name(k) in ("np.logical_not", "np.logical_and", "np.logical_or", "np.isnan", "np.isfinite", "np.flatnonzero", "np.where", "np.nonzero", "np.argwhere"))]
                    compl = any((a_.op == "un" and a_.a[0] in ("~", "not") and a_.a[1] is b_) or (a_.op == "call" and call_name(a_) == "np.logical_not" and a_.a[1] and a_.a[1][0] is b_) for a_ in masks for b_ in masks)
                    partial = bool(masks) and not whole and not compl
                    yield ob("C15.EMPTYFILL", f, "%s:%s" % (f.qual, root), not partial, ("np.empty buffer %r stored outside a loop" % root) if not partial else "np.empty buffer %r is only written under the mask %s: the other entries keep whatever the allocator left there (the result depends on earlier calls)" % (root, tm.show(masks[0], 3)), node=group[0].node)
                    continue
                rels = [_loop_rel(m.pc, lid) for m in group]
                rels = [[c for c in r if c[0] in ("if",)] for r in rels]
                good = _covers(rels)
                # siblings: other np.empty buffers stored in the same loop tell which branch is missing
                yield ob(
                    "C15.EMPTYFILL",
                    f,
                    "%s:%s" % (f.qual, root),
                    good,
                    ("np.empty buffer %r is assigned on every path of the loop that fills it" % root) if good else "np.empty buffer %r is left uninitialised on some path of the filling loop (stored only under: %s)" % (root, " | ".join("&".join(("" if c[2] else "not ") + tm.show(c[1], 3) for c in r) for r in rels)),
                    node=group[0].node,
                )


MUTABLE_DEFAULT = (ast.List, ast.Dict, ast.Set, ast.ListComp, ast.DictComp, ast.SetComp)


def rule_globalstate(ctx):
    A = get_alias(ctx)
    for f in ctx.program.all_funcs(include_new=True):
        s = ctx.S.get(f.qual)
        probs = []
        node = None
        for g in s.by_kind("global_decl"):
            probs.append("global/nonlocal declaration of %s" % g.names)
            node = g.node
        for m, roots in A.direct_mutations(f):
            for r in roots:
                if r[0] == "g":
                    probs.append("writes module-level object %s in place (%s)" % (r[1], m.how))
                    node = m.node
        for p, d in f.defaults.items():
            if isinstance(d, MUTABLE_DEFAULT) or (isinstance(d, ast.Call) and not (isinstance(d.func, ast.Name) and d.func.id in ("float", "int", "str", "bool", "tuple", "frozenset"))):
                probs.append("mutable default argument %s=%s" % (p, ast.unparse(d)))
                node = d
        for dec in getattr(f.node, "decorator_list", []):
            # functools.lru_cache / functools.cache / a hand-written memoiser: the function's results are kept in hidden
            # module-level state; the same *object* is handed to every later caller
            txt = ast.unparse(dec)
            if any(k in txt for k in ("lru_cache", "functools.cache", "memoize", "memoise")) or txt in ("cache",):
                probs.append("memoising decorator @%s: results are shared between calls (a caller that modifies the returned object changes what every later call receives)" % txt)
                node = dec
        yield ob("C15.GLOBALSTATE", f, "%s:state" % f.qual, not probs, "; ".join(probs) if probs else "no global declaration, no write through a module-level object, no mutable default", node=node)
    # module level: tables are only assigned once, no module-level statement mutates them after creation
    for m in ctx.program.modules.values():
        sites = ctx.S.module_sites(m.name)
        probs = []
        for st in sites:
            if st.kind == "mutate":
                probs.append("module-level in-place write at line %d" % st.lineno)
        counts = {}
        for st in m.toplevel_stmts:
            if isinstance(st, ast.Assign):
                for tg in st.targets:
                    if isinstance(tg, ast.Name):
                        counts[tg.id] = counts.get(tg.id, 0) + 1
        multi = sorted(k for k, v in counts.items() if v > 1)
        yield ob("C15.GLOBALSTATE", "mir_eval/%s.py:1" % m.name, "%s:<module>" % m.name, not probs, "; ".join(probs) if probs else "module-level objects are built once (%d assignments)" % sum(counts.values()))


NONDET_PREFIXES = ("random.", "np.random.", "time.", "datetime.", "os.environ", "os.getenv", "uuid.", "secrets.", "os.urandom", "os.getpid", "socket.", "np.random")
NONDET_NAMES = {"builtins.id", "builtins.hash", "builtins.input", "builtins.open"}
IO_ALLOWED = {"io"}  # the loaders open files by design


def rule_nondet(ctx):
    for f in ctx.program.all_funcs(include_new=True):
        s = ctx.S.get(f.qual)
        probs = []
        node = None
        for c in s.calls():
            n = c.callee or ""
            if any(n.startswith(p) for p in NONDET_PREFIXES) or (n in NONDET_NAMES and f.module.name not in IO_ALLOWED):
                probs.append("calls %s" % n)
                node = c.node
        # set iteration order feeding a result is order-dependent on hashing of str only under PYTHONHASHSEED;
        # the repo iterates sets only to build other sets/sorted lists (checked: index_labels sorts).
        yield ob("C15.NONDET", f, "%s:nondet" % f.qual, not probs, "; ".join(probs) if probs else "no random/time/environment/id()/file-system source", node=node)


def rule_uninit(ctx):
    """A ufunc called with where=<mask> and without out= leaves the entries outside the mask *uninitialised*: the result
    then depends on whatever the allocator returned, i.e. on earlier calls."""
    R = "C15.UNINIT"
    n = 0
    for f in ctx.program.all_funcs(include_new=True):
        if f.module.name in ("sonify", "display"):
            continue
        s = ctx.S.get(f.qual)
        for c in s.calls():
            if c.callee and c.callee.startswith("np.") and any(k == "where" for k, _ in c.kw) and not any(k == "out" for k, _ in c.kw) and c.callee not in ("np.sum", "np.mean", "np.min", "np.max", "np.any", "np.all", "np.prod", "np.std", "np.var"):
                n += 1
                yield ob(R, f, "%s:%s(where=)@%d" % (f.qual, c.callee, n), False, "%s(..., where=mask) without out=: entries outside the mask are uninitialised memory and flow into the result" % c.callee, node=c.node)
    yield ob(R, "mir_eval/", "package:no-masked-ufunc-without-out", True, "no ufunc is called with where= and without out= (%d reported)" % n)


RULES = [
    ("C15.UNINIT", 1, rule_uninit),
    ("C15.NOMUT", 190, rule_nomut),
    ("C15.EMPTYFILL", 20, rule_emptyfill),
    ("C15.GLOBALSTATE", 200, rule_globalstate),
    ("C15.NONDET", 190, rule_nondet),
]
from . import common as _common_purity
RULES = RULES + _common_purity.bundle_rules("C15")
