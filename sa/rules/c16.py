"""C16 - segment labelling scores equal their clustering-index definitions (decidable clauses)."""

from __future__ import annotations

from .. import terms as tm
from ..model import AnalysisError
from .common import ob, need, call_name, is_lit, role_of, roles, strip_numeric, count_form
from . import common
from .. import symeval
from . import c06, c12

PROP = "C16"
EXPLANATION = (
    "The core of C16 (textbook formulas on every contingency table) is value-level and declined.  Decided statically are the clauses the "
    "statement itself spells out in structural terms: vmeasure is exactly nce(<its own arguments>, marginal=True) with equal defaults; labels are "
    "compared case-insensitively (index_labels lower-cases by default and no caller overrides it); every (precision, recall, F) triple returns "
    "F = util.f_measure(P, R[, beta]) of the very terms it returns as P and R, in that order (V = harmonic mean of its precision and recall); both "
    "annotations are sampled on the same frame grid; the contingency table has the reference along its rows; and the symmetry identities "
    "MI(a,b) = MI(b,a), NMI, Rand, ARI follow from the mirror rules shared with C06."
)
RULE_TEXT = "one obligation per wrapper / caller / triple-returning function / contingency construction; symmetry obligations shared with C06"


def rule_wrapperid(ctx):
    R = "C16.WRAPPERID"
    f = ctx.program.func("segment.vmeasure", R)
    g = ctx.program.func("segment.nce", R)
    s = ctx.S.get(f.qual)
    need(len(s.returns) == 1, R, "vmeasure: single return expected")
    t = s.returns[0].term
    good = t.op == "call" and call_name(t) == "segment.nce"
    bound = {}
    if good:
        for i, a in enumerate(t.a[1]):
            if i < len(g.params):
                bound[g.params[i]] = a
        for n, v in t.a[2]:
            bound[n] = v
    fparams = [p for p in f.params + f.kwonly]
    own = all(p in bound and bound[p].op == "param" and bound[p].a[0] == p for p in fparams)
    marg = "marginal" in bound and tm.is_const(bound["marginal"], True)
    nothing_else = set(bound) == set(fparams) | {"marginal"}
    yield ob(R, f, "segment.vmeasure:is-nce-marginal", good and own and marg and nothing_else, "vmeasure(...) returns nce(<the same arguments by name>, marginal=True) and nothing else")
    n_sites = len([x for x in s.sites if x.kind in ("call", "div", "cmp", "mutate")])
    yield ob(R, f, "segment.vmeasure:no-extra-work", n_sites == 1, "vmeasure performs no other computation (%d sites)" % n_sites)
    for p in fparams:
        if p in f.defaults or p in g.defaults:
            a, b = f.default_value(p), g.default_value(p)
            yield ob(R, f, "segment.vmeasure:default[%s]" % p, a == b and a[0], "default %s=%r equals nce's %r" % (p, a[1], b[1]))
    okd, dv = g.default_value("marginal")
    yield ob(R, g, "segment.nce:default[marginal]", okd and dv is False, "nce defaults to marginal=False (the documented NCE), vmeasure forces True")


def fold_exact(ctx, R):
    """The canonical form of a label is exactly str(label).lower() (or the label itself when case-sensitive): any
    further normalisation (strip, replace, truncation) merges labels that a renaming keeps distinct."""
    f = ctx.program.func("util.index_labels", R)
    s = ctx.S.get(f.qual)
    need(len(s.returns) == 1 and s.returns[0].term.op == "tuple", R, "index_labels: (indices, mapping) return expected")
    idx = s.returns[0].term.a[0]
    folds = [x for x in tm.walk(idx) if x.op == "comp" and any(z.op == "param" and z.a[0] == "labels" for z in x.a[2])]
    # the comprehension(s) that rewrite the labels: element must be .lower(str(each(labels)))
    rew = [x for x in folds if not (x.a[1].op == "sub")]
    good = bool(rew)
    shown = []
    for x in rew:
        e = x.a[1]
        ok = e.op == "call" and call_name(e) == ".lower" and len(e.a[1]) == 1 and e.a[1][0].op == "call" and call_name(e.a[1][0]) == "builtins.str" and e.a[1][0].a[1][0].op == "iter"
        shown.append(tm.show(e, 4))
        good = good and ok
    yield ob(R, f, "util.index_labels:fold-exact", good, "case-insensitive canonical form is exactly str(label).lower()" if good else "labels are canonicalised by %s: more than case folding, so distinct labels can be merged" % "; ".join(shown))


def rule_casefold(ctx):
    R = "C16.CASEFOLD"
    f = ctx.program.func("util.index_labels", R)
    okd, dv = f.default_value("case_sensitive")
    yield ob(R, f, "util.index_labels:default", okd and dv is False, "case_sensitive defaults to %r" % (dv,))
    s = ctx.S.get(f.qual)
    lowered = False
    for c in s.calls():
        from .common import facts

        if c.method == "lower" and any(cc.op == "param" and cc.a[0] == "case_sensitive" and not p for cc, p in facts(c.pc)):
            lowered = True
    yield ob(R, f, "util.index_labels:lower", lowered, "labels are lower-cased when case_sensitive is False")
    yield from fold_exact(ctx, R)
    # indices are assigned per distinct (folded) label and the same mapping is applied to every label
    need(len(s.returns) == 1 and s.returns[0].term.op == "tuple", R, "index_labels: (indices, mapping) return expected")
    idx = s.returns[0].term.a[0]
    good = idx.op == "comp" and idx.a[1].op == "sub" and idx.a[1].a[1].op == "iter"
    yield ob(R, f, "util.index_labels:mapping", good, "every label is replaced by the index of its own (folded) value")
    n = 0
    for g in ctx.program.all_funcs():
        for c in ctx.S.get(g.qual).calls():
            if c.callee == "util.index_labels":
                n += 1
                over = len(c.args) > 1 or any(k == "case_sensitive" for k, _ in c.kw)
                yield ob(R, g, "%s:index_labels@%d" % (g.qual, c.lineno), not over, "index_labels is called with the default (case-insensitive) folding", node=c.node)
    need(n >= 10, R, "callers of index_labels not found")


def rule_fderiv(ctx):
    R = "C16.FDERIV"
    n = 0
    for f in ctx.program.all_funcs():
        s = ctx.S.get(f.qual)
        fm = [c for c in s.calls() if c.callee == "util.f_measure"]
        if not fm:
            continue
        for r in s.returns:
            t = r.term
            if t.op != "tuple":
                continue
            comps = list(t.a)
            for c in fm:
                if not any(x is c.term for x in comps):
                    continue
                n += 1
                p, rc = c.args[0], c.args[1]
                ip = [i for i, x in enumerate(comps) if x is p]
                ir = [i for i, x in enumerate(comps) if x is rc]
                # equal terms (the literal 0 for both) sit at several positions: some precision slot precedes some recall slot
                order = any(i < j for i in ip for j in ir)
                if order and p is rc:
                    ip, ir = ip[:1], ir[1:]
                beta_ok = True
                if "beta" in f.params:
                    b = dict(c.kw).get("beta") or (c.args[2] if len(c.args) > 2 else None)
                    beta_ok = b is not None and b.op == "param" and b.a[0] == "beta"
                else:
                    beta_ok = len(c.args) == 2 and not c.kw
                # names: the first argument is what the function documents as precision (or 'over')
                docr = [nm for nm, _, _ in f.docinfo["returns"]]
                yield ob(R, f, "%s:F-from-returned-P-R" % f.qual, order and beta_ok, "F = util.f_measure(<returned component %s>, <returned component %s>%s)" % (ip[0] if ip else "?", ir[0] if ir else "?", ", beta=beta" if "beta" in f.params else ""), node=c.node)
    need(n >= 12, R, "only %d (P, R, F) triples found" % n)
    # hierarchy: precision first, recall second
    for q in ("hierarchy.tmeasure", "hierarchy.lmeasure"):
        f = ctx.program.func(q, R)
        s = ctx.S.get(q)
        c = [x for x in s.calls() if x.callee == "util.f_measure"]
        rt = s.returns[-1].term
        good = len(c) == 1 and rt.op == "tuple" and rt.a[0] is c[0].args[0] and rt.a[1] is c[0].args[1] and rt.a[2] is c[0].term
        yield ob(R, f, "%s:triple" % q, good, "returns (precision, recall, f_measure(precision, recall, beta=beta))")


def rule_contorient(ctx):
    R = "C16.CONTORIENT"
    f = ctx.program.func("segment._contingency_matrix", R)
    s = ctx.S.get(f.qual)
    coo = [c for c in s.calls() if c.callee == "scipy.sparse.coo_matrix"]
    need(len(coo) == 1, R, "_contingency_matrix: coo_matrix construction not found")
    c = coo[0]
    data = c.args[0]
    good = False
    if data.op == "tuple" and len(data.a) == 2 and data.a[1].op == "tuple" and len(data.a[1].a) == 2:
        rows, cols = data.a[1].a
        good = "reference_indices" in tm.params_of(rows) and "estimated_indices" not in tm.params_of(rows) and "estimated_indices" in tm.params_of(cols) and "reference_indices" not in tm.params_of(cols)
        inv = all(x.op == "sub" and tm.is_const(x.a[1], 1) and x.a[0].op == "call" and call_name(x.a[0]) == "np.unique" for x in (rows, cols))
        good = good and inv
    shp = dict(c.kw).get("shape")
    shape_ok = shp is not None and shp.op == "tuple" and len(shp.a) == 2 and "reference_indices" in tm.params_of(shp.a[0]) and "estimated_indices" in tm.params_of(shp.a[1])
    yield ob(R, f, "segment._contingency_matrix:orientation", good and shape_ok, "rows index reference classes, columns estimated classes (np.unique inverse indices), one count per frame")
    ones = data.a[0] if data.op == "tuple" else None
    yield ob(R, f, "segment._contingency_matrix:unit-counts", ones is not None and ones.op == "call" and call_name(ones) == "np.ones", "every frame contributes a count of 1")
    # callers pass (reference, estimate)
    n = 0
    for g in ctx.program.all_funcs():
        for c2 in ctx.S.get(g.qual).calls():
            if c2.callee == "segment._contingency_matrix":
                n += 1
                r0, r1 = roles(c2.args[0]), roles(c2.args[1])
                yield ob(R, g, "%s:contingency-call@%d" % (g.qual, c2.lineno), r0 == {"R"} and r1 == {"E"}, "_contingency_matrix(reference frames, estimated frames)", node=c2.node)
    need(n >= 4, R, "callers of _contingency_matrix not found")


def rule_sampletwin(ctx):
    for o in c12.rule_frameonly(ctx):
        o.rule = "C16.SAMPLETWIN"
        yield o


def rule_symmetry(ctx):
    for o in c06.rule_symscore(ctx):
        if o.construct.startswith("segment.") or o.construct.startswith("util.f_measure"):
            o.rule = "C16.SYMMETRY"
            yield o


class _NotAlgebraic(Exception):
    pass


def _to_rat(t, atom, depth=0):
    """term -> ratfun.Rat; `atom(t)` supplies the value of non-arithmetic sub-terms (or None)"""
    from ..ratfun import Rat
    from fractions import Fraction

    if depth > 60:
        raise _NotAlgebraic("too deep")
    r = atom(t)
    if r is not None:
        return r
    if t.op == "const" and isinstance(t.a[0], (int, float)) and not isinstance(t.a[0], bool):
        return Rat.const(Fraction(t.a[0]).limit_denominator(10**9))
    if t.op == "bin":
        o = t.a[0]
        if o == "**" and t.a[2].op == "const" and float(t.a[2].a[0]).is_integer() and 0 <= t.a[2].a[0] <= 6:
            return _to_rat(t.a[1], atom, depth + 1).power(int(t.a[2].a[0]))
        l, r2 = _to_rat(t.a[1], atom, depth + 1), _to_rat(t.a[2], atom, depth + 1)
        if o == "+":
            return l + r2
        if o == "-":
            return l - r2
        if o == "*":
            return l * r2
        if o in ("/", "//"):
            return l / r2  # `//` is exact on the even products it is applied to here (x * (x - 1))
        raise _NotAlgebraic("operator " + o)
    if t.op == "un" and t.a[0] == "-":
        return -_to_rat(t.a[1], atom, depth + 1)
    if t.op == "call" and call_name(t) in ("builtins.float", "builtins.int", "np.float64", "np.int64") and len(t.a[1]) == 1:
        return _to_rat(t.a[1][0], atom, depth + 1)
    if t.op == "call" and call_name(t) in ("astype", "np.asarray", "np.array", "np.asanyarray") and t.a[1]:
        # a cast of whole numbers to a wide type keeps the numbers; in a narrow one the products below wrap around
        dts = list(t.a[1][1:2]) + [v for k, v in t.a[2] if k == "dtype"]
        for dt in dts:
            txt = (dt.a[0] if dt.op in ("ext", "builtin", "const") else "?")
            if str(txt).split(".")[-1] not in ("int", "int64", "float", "float64", "longlong", "int_", "intp", "double", "float_"):
                raise _NotAlgebraic("cast to %s" % txt)
        return _to_rat(t.a[1][0], atom, depth + 1)
    if t.op == "call" and call_name(t) == "scipy.special.comb" and len(t.a[1]) >= 2 and tm.is_const(t.a[1][1], 2):
        y = _to_rat(t.a[1][0], atom, depth + 1)
        return (y * y - y) / Rat.const(2)
    raise _NotAlgebraic(tm.show(t, 2))


def _pairs_sum_carrier(t):
    """X when t = sum of x * (x - 1) / 2 over the elements x of X (comb(x, 2), any algebraic spelling), else None"""
    from ..ratfun import Rat

    want = (Rat.var("x") * Rat.var("x") - Rat.var("x")) / Rat.const(2)
    t = strip_numeric(t)
    if not (t.op == "call" and call_name(t) in ("builtins.sum", "np.sum") and t.a[1]):
        return None
    inner = t.a[1][0]
    if inner.op == "comp" and inner.a[0] in ("gen", "list") and len(inner.a[2]) == 1 and not inner.a[3]:
        X = inner.a[2][0]
        el = tm.mk("iter", X, inner.a[4])
        try:
            got = _to_rat(inner.a[1], lambda z: Rat.var("x") if z is el else None)
        except (_NotAlgebraic, ZeroDivisionError):
            return None
        return X if got.same(want) else None
    # vectorised: np.sum(E(X)) with E element-wise in one array X
    cands = [z for z in tm.walk(inner) if z.op == "call" and call_name(z) in ("np.sum", "np.flatten", "np.ravel") and any(y.op == "call" and call_name(y) == "segment._contingency_matrix" for y in tm.walk(z))]
    cands += [z for z in tm.walk(inner) if z.op == "attr" and z.a[1] == "data"]
    cands += [z for z in tm.walk(inner) if z.op == "call" and call_name(z) == "segment._contingency_matrix"]
    for X in cands:
        try:
            got = _to_rat(inner, lambda z, X=X: Rat.var("x") if z is X else None)
        except (_NotAlgebraic, ZeroDivisionError):
            continue
        if got.same(want):
            return X
    return None


def ari_formula_ok(ctx):
    """True when ARIFORM establishes the (A <-> B symmetric) textbook formula on this tree"""
    try:
        return all(o.ok for o in rule_ariform(ctx))
    except AnalysisError:
        return False


def rule_ariform(ctx):
    """The adjusted Rand index as an exact rational function of the four pair counts it is defined by:
    ARI = (S - A B / N) / ((A + B) / 2 - A B / N) with S, A, B the numbers of co-clustered pairs in the cells, rows and
    columns of the contingency table and N = n (n - 1) / 2.  The returned term is normalised to numerator / denominator
    over the indeterminates S, A, B, n and compared with the definition by cross-multiplication: every algebraic
    re-arrangement passes, any other formula does not."""
    from ..ratfun import Rat

    R = "C16.ARIFORM"
    f = ctx.program.func("segment._adjusted_rand_index", R)
    s = ctx.S.get(f.qual)
    main = [r for r in s.returns if not is_lit(r.term)]
    need(len(main) == 1, R, "_adjusted_rand_index: computed return not found")
    seen = {}

    def classify(X):
        X0 = X
        while X0.op == "call" and call_name(X0) in ("astype", "np.asarray", "np.array", "builtins.list", "np.ravel", "np.flatten") and X0.a[1]:
            if call_name(X0) in ("np.ravel", "np.flatten"):
                inner = X0.a[1][0]
                if inner.op == "call" and call_name(inner) == "segment._contingency_matrix":
                    return "S"
            X0 = X0.a[1][0]
        if X0.op == "attr" and X0.a[1] == "data":
            return "S"
        if X0.op == "call" and call_name(X0) == "segment._contingency_matrix":
            return "S"  # every cell of the table
        if X0.op == "call" and call_name(X0) == "np.sum" and X0.a[1] and X0.a[1][0].op == "call" and call_name(X0.a[1][0]) == "segment._contingency_matrix":
            ax = dict(X0.a[2]).get("axis")
            if ax is not None and ax.op == "const":
                return {1: "A", 0: "B"}.get(int(ax.a[0]))
        return None

    def atom(t):
        X = _pairs_sum_carrier(t)
        if X is not None:
            k = classify(X)
            if k is None:
                raise _NotAlgebraic("pair count over %s" % tm.show(X, 2))
            seen[k] = seen.get(k, 0) + 1
            return Rat.var(k)
        cf = count_form(t)
        if cf is not None and cf[1].op == "param":
            seen["n"] = seen.get("n", 0) + 1
            return Rat.var("n")
        return None

    try:
        got = _to_rat(main[0].term, atom)
    except _NotAlgebraic as e:
        raise AnalysisError(R, "_adjusted_rand_index: the returned expression is not a rational function of the pair counts (%s)" % e)
    except ZeroDivisionError:
        raise AnalysisError(R, "_adjusted_rand_index: division by an identically zero expression")
    S, A, B, n = Rat.var("S"), Rat.var("A"), Rat.var("B"), Rat.var("n")
    N = (n * n - n) / Rat.const(2)
    want = (S - A * B / N) / ((A + B) / Rat.const(2) - A * B / N)
    good = got.same(want) and {"S", "A", "B", "n"} <= set(seen)
    yield ob(R, f, "segment._adjusted_rand_index:formula", good, "the returned value is (S - AB/N) / ((A+B)/2 - AB/N) over the pair counts of cells (S), rows (A), columns (B) and all frames (N = n(n-1)/2) - compared as exact rational functions" if good else "the returned expression is not the adjusted Rand index of the contingency table (as a rational function of the cell / row / column pair counts it differs from (S - AB/N) / ((A+B)/2 - AB/N))", node=main[0].node)


    # exactness of the product A * B: both factors reach ~n^2 / 2, so their product passes 2^63 from about 110 000
    # frames (three hours at the default frame size) - it has to be formed over Python integers (comb(.., exact=1),
    # int(..)) or floats, not over NumPy int64 scalars, which wrap around silently
    def np_int_sum(t):
        """is the value a NumPy integer scalar: a NumPy reduction, or the builtin sum of NumPy integers"""
        if t.op == "call" and call_name(t) in ("np.sum",):
            return True
        if t.op == "call" and call_name(t) == "builtins.sum" and t.a[1] and t.a[1][0].op == "comp":
            el = t.a[1][0].a[1]
            el0 = el
            if el0.op == "call" and call_name(el0) == "builtins.int":
                return False
            if el0.op == "call" and call_name(el0) == "scipy.special.comb":
                ex = dict(el0.a[2]).get("exact")
                if ex is None and len(el0.a[1]) >= 3:
                    ex = el0.a[1][2]
                return not (ex is not None and ex.op == "const" and bool(ex.a[0]))
            # arithmetic on the elements of an array: python ints only if every leaf was converted with int()
            leaves = [z for z in tm.walk(el0) if z.op == "iter"]
            conv = [z for z in tm.walk(el0) if z.op == "call" and call_name(z) == "builtins.int" and z.a[1] and z.a[1][0].op == "iter"]
            return not (leaves and len(conv) >= 1 and all(any(c.a[1][0] is l for c in conv) for l in leaves) and not any(z.op == "bin" and any(y.op == "iter" for y in z.a[1:]) for z in tm.walk(el0)))
        return False

    prods = [z for z in tm.walk(main[0].term) if z.op == "bin" and z.a[0] == "*" and all(_pairs_sum_carrier(y) is not None for y in z.a[1:])]
    for k, z in enumerate(prods[:1]):
        raw = [y for y in z.a[1:] if np_int_sum(y)]
        good_x = not raw  # (one NumPy factor is enough: int64 * python int is int64)
        if not good_x:
            # `for n in X.tolist()` iterates Python integers, but a term does not keep the .tolist() of an iterated
            # array (iterating X and X.tolist() visit the same elements): look at the source of the pair sums
            import ast as _ast0

            srcs0 = [f.node] + [ctx.program.func(q).node for q in getattr(s, "inlined", ()) if ctx.program.has_func(q)]
            sums = [n_ for src in srcs0 for n_ in _ast0.walk(src) if isinstance(n_, _ast0.Call) and isinstance(n_.func, _ast0.Name) and n_.func.id == "sum" and n_.args and isinstance(n_.args[0], (_ast0.GeneratorExp, _ast0.ListComp)) and any(isinstance(b_, _ast0.BinOp) for b_ in _ast0.walk(n_.args[0].elt))]
            if sums and all(all(isinstance(g_.iter, _ast0.Call) and isinstance(g_.iter.func, _ast0.Attribute) and g_.iter.func.attr == "tolist" for g_ in n_.args[0].generators) for n_ in sums) and not any(call_name(y) == "np.sum" for y in raw if y.op == "call"):
                good_x = True
        if not good_x:
            # float(..) leaves no trace in a term (it is a numeric no-op there): look at the source before judging
            import ast as _ast

            srcs = [f.node] + [ctx.program.func(q).node for q in getattr(s, "inlined", ()) if ctx.program.has_func(q)]
            wrapped = any(isinstance(n_, _ast.Call) and isinstance(n_.func, _ast.Name) and n_.func.id in ("float", "int") and any(isinstance(m_, _ast.Call) and ((isinstance(m_.func, _ast.Attribute) and m_.func.attr == "sum") or (isinstance(m_.func, _ast.Name) and m_.func.id == "sum")) for m_ in _ast.walk(n_)) for src in srcs for n_ in _ast.walk(src))
            if wrapped:
                raise AnalysisError(R, "_adjusted_rand_index: the row and column pair sums are NumPy reductions and a float()/int() conversion of a sum occurs in the function; whether both factors are converted before they are multiplied cannot be read from the term")
        yield ob(R, f, "segment._adjusted_rand_index:exact-product", good_x, "the product of the row and column pair sums is formed over Python integers / floats" if good_x else "the row and column pair sums are NumPy int64 scalars (%s): their product wraps around beyond 2^63, i.e. from about 110 000 frames, and the index is silently wrong" % " * ".join(tm.show(y, 2) for y in raw), node=main[0].node)


def rule_nceform(ctx):
    """Which quantity normalises which, in nce(): facets of the documented definition."""
    R = "C16.NCEFORM"
    f = ctx.program.func("segment.nce", R)
    s = ctx.S.get(f.qual)
    main = [r for r in s.returns if r.term.op == "tuple" and not all(is_lit(x) for x in r.term.a)]
    need(len(main) == 1, R, "nce: main return not found")
    over, under, fm = main[0].term.a

    def parts(score):
        # ite(z > 0, 1 - h / z, 0)
        for x in tm.walk(score):
            if x.op == "bin" and x.a[0] == "-" and tm.is_const(x.a[1], 1) and x.a[2].op == "bin" and x.a[2].a[0] == "/":
                return x.a[2].a[1], x.a[2].a[2]
        return None, None

    for name, score, axis_marg, dim in (("under", under, 1, 0), ("over", over, 0, 1)):
        h, z = parts(score)
        good = False
        why = "score is not 1 - H / Z"
        if z is not None and z.op == "ite" and z.a[0].op == "param" and z.a[0].a[0] == "marginal":
            zm, zu = z.a[1], z.a[2]
            # uniform: log2(contingency.shape[dim]); marginal: entropy(contingency.sum(axis=axis_marg))
            dm_ = common.dim_of(zu.a[1][0]) if zu.op == "call" and call_name(zu) == "np.log2" and zu.a[1] else None
            # the table itself (possibly normalised: contingency / contingency.sum()), not one of its marginals
            direct_ = dm_ is not None and not any(x.op == "call" and call_name(x) == "np.sum" and any(k_ == "axis" for k_, _ in x.a[2]) for x in tm.walk(dm_[0]))
            u_ok = dm_ is not None and dm_[1] == dim and direct_ and any(x.op == "call" and call_name(x) == "segment._contingency_matrix" for x in tm.walk(zu))
            marg = None
            if not u_ok and dm_ is not None and dm_[1] == 0 and not direct_:
                marg = dm_[0]  # len(marginal) / marginal.shape[0]
            if marg is not None:
                # length of the marginal over axis k of the contingency table = its dimension 1 - k
                sums = [x for x in tm.walk(marg) if x.op == "call" and call_name(x) == "np.sum" and x.a[1] and any(y.op == "call" and call_name(y) == "segment._contingency_matrix" for y in tm.walk(x.a[1][0]))]
                others = [x for x in tm.walk(marg) if x.op == "call" and call_name(x) not in ("np.sum", "segment._contingency_matrix", "builtins.float", "builtins.len", "util.index_labels", "util.intervals_to_samples", "astype")]
                if len(sums) == 1 and not others and marg.op in ("call", "bin"):
                    ax = dict(sums[0].a[2]).get("axis")
                    u_ok = ax is not None and ax.op == "const" and int(ax.a[0]) == 1 - dim
            m_ok = zm.op == "call" and call_name(zm) == "scipy.stats.entropy" and zm.a[1][0].op == "call" and call_name(zm.a[1][0]) == "np.sum" and tm.is_const(dict(zm.a[1][0].a[2]).get("axis", tm.none()), axis_marg) and tm.is_const(dict(zm.a[2]).get("base", tm.none()), 2)
            good = u_ok and m_ok
            why = "S_%s = 1 - H / Z with Z = log2(#%s classes of the contingency table) or, with marginal=True, the base-2 entropy of the %s marginal" % (name, "reference" if dim == 0 else "estimated", "reference" if dim == 0 else "estimated")
            if not u_ok:
                why = "the uniform normaliser of S_%s is %s, not log2 of dimension %d of the contingency table" % (name, tm.show(zu, 3), dim)
        yield ob(R, f, "segment.nce:normaliser-%s" % name, good, why)
        # conditional entropy: marginal of the *other* side dotted with column entropies
        hok = h is not None and h.op == "call" and call_name(h) == "np.dot" and any(x.op == "call" and call_name(x) == "scipy.stats.entropy" and tm.is_const(dict(x.a[2]).get("base", tm.none()), 2) for x in tm.walk(h))
        yield ob(R, f, "segment.nce:conditional-entropy-%s" % name, hok, "H is a marginal-weighted sum of base-2 column entropies of the (transposed) table")
        # the documented special value: a side with a single class has normaliser 0 and its score "will be 0"
        def _has_form(t_):
            return any(x.op == "bin" and x.a[0] == "-" and tm.is_const(x.a[1], 1) and x.a[2].op == "bin" and x.a[2].a[0] == "/" for x in tm.walk(t_))

        def _leaves(t_):
            if t_.op == "ite":
                return _leaves(t_.a[1]) + _leaves(t_.a[2])
            return [t_]

        falls = []
        for x in tm.walk(score):
            if x.op == "ite" and (_has_form(x.a[1]) != _has_form(x.a[2])):
                falls += _leaves(x.a[2] if _has_form(x.a[1]) else x.a[1])
        if falls:
            zero = all(tm.is_const(y, 0) for y in falls)
            yield ob(R, f, "segment.nce:zero-normaliser-value-%s" % name, zero, "with a zero normaliser (one class on the %s side) S_%s is the documented 0" % ("reference" if dim == 0 else "estimated", name) if zero else "with a zero normaliser S_%s falls back to %s; the documentation says it will be 0" % (name, ", ".join(tm.show(y, 2) for y in falls)))
    # the table is normalised by the number of frames
    div = [d for d in s.by_kind("div") if d.num.op == "call" and call_name(d.num) == "astype" and any(x.op == "call" and call_name(x) == "segment._contingency_matrix" for x in tm.walk(d.num))]
    good = len(div) == 1 and div[0].den.op == "call" and call_name(div[0].den) == "builtins.len"
    yield ob(R, f, "segment.nce:joint-distribution", good, "the contingency table is divided by the number of frames (joint distribution)")


def rule_framegrid(ctx):
    R = "C16.FRAMEGRID"
    f = ctx.program.func("util.intervals_to_samples", R)
    s = ctx.S.get(f.qual)
    ar = [c for c in s.calls() if c.callee == "np.arange"]
    need(len(ar) == 1, R, "intervals_to_samples: np.arange grid not found")
    n = ar[0].args[0]
    good = n.op == "call" and call_name(n) == "builtins.int" and n.a[1][0].op == "call" and call_name(n.a[1][0]) == "np.floor"
    inner = n.a[1][0].a[1][0] if good else None
    good = good and inner.op == "bin" and inner.a[0] == "/" and inner.a[1].op == "call" and call_name(inner.a[1]) == "np.max" and inner.a[1].a[1][0].op == "param" and inner.a[2].op == "param" and inner.a[2].a[0] == "sample_size"
    yield ob(R, f, "util.intervals_to_samples:frame-count", good, "number of frames = int(floor(intervals.max() / sample_size)) (true division, then floor)" if good else "frame count is %s" % tm.show(n, 4))
    c = [x for x in s.calls() if x.callee == "util.interpolate_intervals"]
    need(len(c) == 1, R, "interpolate_intervals call not found")
    grid = c[0].args[2]
    g = grid
    if g.op == "call" and call_name(g) == ".tolist":
        g = g.a[1][0]
    good = g.op == "bin" and g.a[0] == "+" and any(z.op == "param" and z.a[0] == "offset" for z in (g.a[1], g.a[2])) and any(z.op == "bin" and z.a[0] == "*" and any(w.op == "param" and w.a[0] == "sample_size" for w in (z.a[1], z.a[2])) and any(w is ar[0].term for w in (z.a[1], z.a[2])) for z in (g.a[1], g.a[2]))
    yield ob(R, f, "util.intervals_to_samples:grid", good, "sample times = arange(n) * sample_size + offset, and labels are looked up at those very times")
    need(len(s.returns) == 1 and s.returns[0].term.op == "tuple", R, "(times, labels) return expected")
    t0 = s.returns[0].term.a[0]
    yield ob(R, f, "util.intervals_to_samples:returned-times", t0 is grid, "the returned sample times are the ones the labels were looked up at")
    okd, dv = f.default_value("sample_size")
    yield ob(R, f, "util.intervals_to_samples:default", okd and dv == 0.1, "default sample_size is %r" % (dv,))


def rule_perfectari(ctx):
    from . import c02

    for o in c02.rule_perfectconst(ctx):
        if o.construct.startswith("segment."):
            o.rule = "C16.TRIVIALGUARD"
            yield o


def rule_nmifloor(ctx):
    """Shared with C01.GUARDTABLE/VALUEDEN: NMI = MI / max(sqrt(H_ref * H_est), 1e-10): the floor keeps the index finite
    (0) when exactly one side is a single cluster."""
    from . import c01

    for o in c01.rule_guardtable(ctx):
        if o.construct.startswith("segment._normalized_mutual_info_score"):
            o.rule = "C16.NMIFLOOR"
            yield o






RULES = [
    ("C16.AMIBOUNDS", 1, common.shared("c06", "rule_amibounds", "C16.AMIBOUNDS")),
    ("C16.FLOORDIV", 1, common.rule_floordiv("C16.FLOORDIV", ("segment.py", "util.py"))),
    ("C16.NARROWDTYPE", 3, common.rule_narrowdtype("C16.NARROWDTYPE", ("segment.py", "util.py"))),
    ("C16.HELPERDEFAULTS", 3, common.rule_helperdefaults("C16.HELPERDEFAULTS")),
    ("C16.ARIFORM", 1, rule_ariform),
    ("C16.KWVIEW", 3, common.shared("c03", "rule_kwview", "C16.KWVIEW", keep=lambda o: o.construct.startswith("segment."))),
    ("C16.NCEGUARD", 2, common.shared("c12", "rule_nceguard", "C16.NCEGUARD")),
    ("C16.NMIFLOOR", 1, rule_nmifloor),
    ("C16.NCEFORM", 5, rule_nceform),
    ("C16.FRAMEGRID", 4, rule_framegrid),
    ("C16.TRIVIALGUARD", 3, rule_perfectari),
    ("C16.WRAPPERID", 5, rule_wrapperid),
    ("C16.CASEFOLD", 13, rule_casefold),
    ("C16.FDERIV", 14, rule_fderiv),
    ("C16.CONTORIENT", 6, rule_contorient),
    ("C16.SAMPLETWIN", 10, rule_sampletwin),
    ("C16.SYMMETRY", 8, rule_symmetry),
]

from . import common as _common_purity
RULES = RULES + _common_purity.purity_rules("C16")
RULES = RULES + _common_purity.bundle_rules("C16")
