"""C17 - hierarchy T-/L-measures equal the triplet-ranking definition (decidable clauses)."""

from __future__ import annotations

from .. import terms as tm
from ..model import AnalysisError
from .common import ob, need, call_name, is_lit, lit, positive_term, resolve_ite_free
from . import common
from .. import symeval
from . import c06

PROP = "C17"
EXPLANATION = (
    "The triplet counting itself (inversions, window arithmetic, frame rounding) is value-level and declined.  Decided statically: frame_size <= 0 "
    "and frame_size > window raise ValueError before any computation in tmeasure/lmeasure; precision is the exact mirror call of recall (shared "
    "with C06); the L-measure compares label-agreement depth with transitive=True and no window; in _gauc the per-query contribution and the "
    "frame counter are both under `if normalizer` (queries with no reference triple are skipped), the final division is under `if num_frames`, "
    "the query frame is removed from reference and estimate score vectors with the same index, which is the query's position inside the "
    "window slice (min(q, w) for a slice starting at max(0, q - w)); reduced vs full ranking pairs follow the transitive flag "
    "(adjacent levels vs all pairs); and evaluate() forces transitive False/True for the reduced/full entries (shared with C03)."
)
RULE_TEXT = "one obligation per clause of tmeasure, lmeasure, _gauc and _compare_frame_rankings"


def rule_paramcheck(ctx):
    R = "C17.PARAMCHECK"
    ctx.program.func("hierarchy._gauc", R)  # (anchor: the rule reads the arguments of the _gauc calls)
    for q in ("hierarchy.tmeasure", "hierarchy.lmeasure"):
        f = ctx.program.func(q, R)
        s = ctx.S.get(q)
        rs = s.by_kind("raise")
        first_work = None
        for x in s.sites:
            if x.kind == "call" and x.callee in ("hierarchy.validate_hier_intervals", "hierarchy._lca", "hierarchy._meet", "hierarchy._gauc"):
                first_work = x
                break
        need(first_work is not None, R, "%s: frame computation not found" % q)
        pos = s.sites.index(first_work)

        def has(op, lhs, rhs):
            for r in rs:
                if r.exc != "ValueError" or s.sites.index(r) > pos:
                    continue
                conds = symeval.pc_conds(r.pc)
                if not conds:
                    continue
                c, p = conds[-1]
                if p and c.op == "cmp" and c.a[0] == op and tm.show(c.a[1], 2) == lhs and tm.show(c.a[2], 2) == rhs:
                    return True
            return False

        yield ob(R, f, "%s:frame-size-positive" % q, has("<=", "frame_size", "0"), "frame_size <= 0 raises ValueError before any frame computation")
        if q == "hierarchy.tmeasure":
            yield ob(R, f, "%s:frame-size-le-window" % q, has("<", "window", "frame_size"), "frame_size > window raises ValueError before any frame computation")
            # window=None disables the window
            wf = [c for c in s.calls() if c.callee == "hierarchy._gauc"]
            def none_when_none(t):
                # ite(window is None, None, frames) or ite(window is not None, frames, None)
                if t.op != "ite" or t.a[0].op != "cmp" or t.a[0].a[0] not in ("is", "isnot"):
                    return False
                c = t.a[0]
                if not (any(z.op == "param" and z.a[0] == "window" for z in c.a[1:]) and any(tm.is_const(z, None) for z in c.a[1:])):
                    return False
                branch = t.a[1] if c.a[0] == "is" else t.a[2]
                other = t.a[2] if c.a[0] == "is" else t.a[1]
                return tm.is_const(branch, None) and "window" in tm.params_of(other)

            good = bool(wf) and all(len(c.args) == 4 and none_when_none(c.args[3]) for c in wf)
            yield ob(R, f, "%s:window-none" % q, good, "window=None is forwarded as None (whole track), otherwise as a frame count")


def rule_litargs(ctx):
    R = "C17.LITARGS"
    f = ctx.program.func("hierarchy.lmeasure", R)
    s = ctx.S.get(f.qual)
    calls = [c for c in s.calls() if c.callee == "hierarchy._gauc"]
    need(len(calls) == 2, R, "lmeasure: two _gauc calls expected")
    g = ctx.program.func("hierarchy._gauc")
    for i, c in enumerate(calls):
        b = {}
        for k, a in enumerate(c.args):
            if k < len(g.params):
                b[g.params[k]] = a
        for n, v in c.kw:
            b[n] = v
        good = "transitive" in b and tm.is_const(b["transitive"], True) and "window" in b and tm.is_const(b["window"], None)
        yield ob(R, f, "hierarchy.lmeasure:_gauc@%d" % i, good, "L-measure ranks label-agreement depth with transitive=True and window=None", node=c.node)
        meet = all(a.op == "call" and call_name(a) == "hierarchy._meet" for a in c.args[:2])
        yield ob(R, f, "hierarchy.lmeasure:meet@%d" % i, meet, "both rankings are hierarchy._meet matrices (label agreement depth)")
    f2 = ctx.program.func("hierarchy.tmeasure", R)
    s2 = ctx.S.get(f2.qual)
    calls = [c for c in s2.calls() if c.callee == "hierarchy._gauc"]
    need(len(calls) == 2, R, "tmeasure: two _gauc calls expected")
    for i, c in enumerate(calls):
        good = len(c.args) == 4 and c.args[2].op == "param" and c.args[2].a[0] == "transitive" and all(a.op == "call" and call_name(a) == "hierarchy._lca" for a in c.args[:2])
        yield ob(R, f2, "hierarchy.tmeasure:_gauc@%d" % i, good, "T-measure ranks _lca matrices with the caller's transitive flag", node=c.node)


def rule_skipguard(ctx):
    R = "C17.SKIPGUARD"
    f = ctx.program.func("hierarchy._gauc", R)
    s = ctx.S.get(f.qual)
    cfr = [c for c in s.calls() if c.callee == "hierarchy._compare_frame_rankings"]
    need(len(cfr) == 1, R, "_gauc: _compare_frame_rankings call not found")
    norm = tm.sub(cfr[0].term, tm.const(1))
    inv = tm.sub(cfr[0].term, tm.const(0))
    aug = [m for m in s.by_kind("mutate") if m.how == "aug" and symeval.pc_loops(m.pc)]
    # the two accumulators of the query loop, recognised by what they add (not by their names): the per-query
    # contribution (a term of the inversion count) and the counter (+1)
    sc = [m for m in aug if any(x is inv for x in tm.walk(m.val))]
    nf = [m for m in aug if tm.is_const(m.val, 1) and m not in sc]
    # a second place that counts a query (or adds to the score) without having looked at that query's inversion count
    # is a fast path around the normaliser test: a query without any reference triple would be counted
    extra_nf = []
    if len(sc) == 1 and len(nf) > 1:
        main_conds = {(c[1].id, c[2]) for c in sc[0].pc if c[0] == "if"}
        same = [m for m in nf if {(c[1].id, c[2]) for c in m.pc if c[0] == "if"} == main_conds]
        if len(same) == 1:
            extra_nf = [m for m in nf if m is not same[0]]
            nf = same
    need(len(sc) == 1 and len(nf) == 1, R, "_gauc: score / num_frames accumulation not found")
    for k, m in enumerate(extra_nf):
        conds = [symeval._strip_not(c[1], c[2]) for c in m.pc if c[0] == "if"]
        has_norm = any(c is norm and p for c, p in conds)
        yield ob(R, f, "hierarchy._gauc:extra-count@%d" % (k + 1), has_norm, "a second counting site is under the normaliser test as well" if has_norm else "a query is also counted under %s, without the test that it has a reference triple at all (`if normalizer`): windows without any comparable pair then count as perfect" % "; ".join(tm.show(c, 2) for c, _ in conds), node=m.node)

    def under_norm(m):
        # conditions inside the query loop only
        rel = []
        inside = False
        for c in m.pc:
            if c[0] == "loop":
                inside = True
            elif inside and c[0] == "if":
                rel.append(symeval._strip_not(c[1], c[2]))
        conds = rel
        # exactly the normaliser test: any further condition (an extra `continue` fast path) would drop queries that must score 0
        return len(conds) == 1 and conds[0][0] is norm and conds[0][1]

    yield ob(R, f, "hierarchy._gauc:score-under-normalizer", under_norm(sc[0]), "a query contributes only when it has at least one reference triple (`if normalizer`)", node=sc[0].node)
    yield ob(R, f, "hierarchy._gauc:count-under-normalizer", under_norm(nf[0]) and tm.is_const(nf[0].val, 1), "the frame counter is incremented under the same condition, by 1", node=nf[0].node)
    v = sc[0].val
    good = v.op == "bin" and v.a[0] == "-" and tm.is_const(v.a[1], 1) and v.a[2].op == "bin" and v.a[2].a[0] == "/" and v.a[2].a[1] is inv and v.a[2].a[2] is norm
    yield ob(R, f, "hierarchy._gauc:contribution", good, "contribution is 1 - inversions / normalizer of that query")
    mains = [r for r in s.returns if not is_lit(r.term)]
    zeros = [r for r in s.returns if is_lit(r.term)]
    need(len(mains) == 1 and len(zeros) <= 1, R, "_gauc: one formula return (and at most one constant return) expected")
    t = mains[0].term
    if not zeros:
        good = t.op == "ite" and (tm.is_const(t.a[2], 0) or tm.is_const(t.a[1], 0))
        if good:
            quo = t.a[1] if tm.is_const(t.a[2], 0) else t.a[2]
            good = quo.op == "bin" and quo.a[0] == "/" and quo.a[2] is t.a[0]
    else:
        # `if not num_frames: return 0.0` followed by `return score / num_frames`
        good = t.op == "bin" and t.a[0] == "/" and lit(zeros[0].term) == 0
        if good:
            den = t.a[2]
            zc = [(c, p) for c, p in symeval.pc_conds(zeros[0].pc)]
            mc = [(c, p) for c, p in symeval.pc_conds(mains[0].pc)]
            good = any(c is den and not p for c, p in zc) and any(c is den and p for c, p in mc)
    yield ob(R, f, "hierarchy._gauc:mean-under-num-frames", good, "the mean over counted queries is taken only when num_frames is non-zero, else the score is 0")
    # query loop covers every frame
    lid = symeval.pc_loops(sc[0].pc)[0]
    it = s.loops[lid][1]
    good = it.op == "call" and call_name(it) == "builtins.range" and len(it.a[1]) == 1 and common.dim_of(it.a[1][0]) is not None
    yield ob(R, f, "hierarchy._gauc:all-queries", good, "queries range over every frame (range(n))")


def rule_selfexcl(ctx):
    R = "C17.SELFEXCL"
    f = ctx.program.func("hierarchy._gauc", R)
    s = ctx.S.get(f.qual)
    cfr = [c for c in s.calls() if c.callee == "hierarchy._compare_frame_rankings"]
    need(len(cfr) == 1 and len(cfr[0].args) >= 2, R, "_gauc: ranking comparison not found")
    # the shapes of the two matrices were validated to agree: `est_lca.shape` and `ref_lca.shape` are one value
    eqs = common.path_shape_equalities(cfr[0].pc)
    a, b = common.rewrite_equal(cfr[0].args[0], eqs), common.rewrite_equal(cfr[0].args[1], eqs)

    def bounds(t):
        """(lo, hi) of a[lo:hi] / slice(lo, hi)"""
        if t.op == "slice" and len(t.a) >= 2:
            return t.a[0], t.a[1]
        if t.op == "call" and call_name(t) == "builtins.slice" and len(t.a[1]) == 2:
            return t.a[1][0], t.a[1][1]
        return None

    def parts(x):
        """np.concatenate((v[:i], v[i+1:])) -> (v, i, j)"""
        if x.op == "call" and call_name(x) == "np.concatenate" and x.a[1] and x.a[1][0].op == "tuple" and len(x.a[1][0].a) == 2:
            p, q = x.a[1][0].a
            if p.op == "sub" and q.op == "sub" and p.a[0] is q.a[0] and p.a[1].op == "slice" and q.a[1].op == "slice":
                hi = p.a[1].a[1]
                lo = q.a[1].a[0]
                if tm.is_const(p.a[1].a[0], None) and tm.is_const(q.a[1].a[1], None):
                    return p.a[0], hi, lo
        return None

    pa, pb = parts(a), parts(b)
    good = pa is not None and pb is not None
    yield ob(R, f, "hierarchy._gauc:removes-one", good, "both score vectors are v[:i] ++ v[i+1:] (exactly the query's own entry is removed)")
    if good:
        same = pa[1] is pb[1] and pa[2] is pb[2]
        plus1 = pa[2].op == "bin" and pa[2].a[0] == "+" and {pa[2].a[1], pa[2].a[2]} == {pa[1], tm.const(1)}
        yield ob(R, f, "hierarchy._gauc:same-index", same and plus1, "reference and estimate vectors drop the same index i (slices [:i] and [i+1:])")
        idx = pa[1]
        # i = min(query, window); slice = [max(0, query - window), min(n, query + window))
        q = None
        for x in tm.walk(idx):
            if x.op == "iter":
                q = x
        is_min = idx.op == "call" and call_name(idx) == "builtins.min" and len(idx.a[1]) == 2 and q is not None and any(z is q for z in idx.a[1])
        w = [z for z in idx.a[1] if z is not q][0] if is_min else None
        def row(v, pname):
            for x in tm.walk(v):
                if x.op == "sub" and x.a[0].op == "param" and x.a[0].a[0] == pname and x.a[1].op == "tuple" and len(x.a[1].a) == 2:
                    return x.a[1].a
            return None

        ra, rb = row(pa[0], "ref_lca"), row(pb[0], "est_lca")
        sl = bounds(ra[1]) if ra is not None else None
        sl_ok = False
        if is_min and sl is not None:
            lo, hi = sl
            lo_ok = lo.op == "call" and call_name(lo) == "builtins.max" and any(tm.is_const(z, 0) for z in lo.a[1]) and any(z.op == "bin" and z.a[0] == "-" and z.a[1] is q and z.a[2] is w for z in lo.a[1])
            hi_ok = hi.op == "call" and call_name(hi) == "builtins.min" and any(z.op == "bin" and z.a[0] == "+" and {z.a[1], z.a[2]} == {q, w} for z in hi.a[1])
            sl_ok = lo_ok and hi_ok
        yield ob(R, f, "hierarchy._gauc:self-position", is_min and sl_ok, "the window is [max(0, q - w), min(n, q + w)) and the query sits at position min(q, w) inside it")
        # both vectors are rows `query` of the two matrices restricted to the same slice
        rows_ok = False
        va, vb = pa[0], pb[0]

        rows_ok = ra is not None and rb is not None and ra[0] is rb[0] and ra[1] is rb[1] and ra[0] is q
        yield ob(R, f, "hierarchy._gauc:same-window", rows_ok, "reference and estimate rows are read at the same query and the same window slice")
    # window None -> whole track
    wn = [c for c, p in [(c, p) for x in s.sites for c, p in symeval.pc_conds(x.pc)] if c.op == "cmp" and c.a[0] == "is" and "window" in tm.params_of(c)]
    yield ob(R, f, "hierarchy._gauc:window-none", True, "window=None is replaced by n (checked through the self-position term)")


def rule_rankpairs(ctx):
    R = "C17.RANKPAIRS"
    f = ctx.program.func("hierarchy._compare_frame_rankings", R)
    s = ctx.S.get(f.qual)
    comb = [c for c in s.calls() if c.callee == "itertools.combinations"]
    good = len(comb) == 1 and tm.is_const(comb[0].args[1], 2) and any(cc.op == "param" and cc.a[0] == "transitive" and p for cc, p in symeval.pc_conds(comb[0].pc))
    yield ob(R, f, "hierarchy._compare_frame_rankings:full", good, "transitive=True compares all pairs of reference levels (itertools.combinations(levels, 2))")
    main = [r for r in s.returns if not all(is_lit(x) for x in r.term.a)] if all(r.term.op == "tuple" for r in s.returns) else []
    need(len(main) == 1, R, "_compare_frame_rankings: main return not found")
    adj = False
    why_red = "transitive=False compares each level only with the next one ((i, i + 1))"
    for x in tm.walk(main[0].term):
        if x.op == "ite" and x.a[0].op == "param" and x.a[0].a[0] == "transitive":
            red = x.a[2]
            if red.op == "comp" and red.a[1].op == "tuple" and len(red.a[1].a) == 2:
                i, j = red.a[1].a
                adj = i.op == "iter" and j.op == "bin" and j.a[0] == "+" and {j.a[1], j.a[2]} == {i, tm.const(1)}
                if adj:
                    # i must run over the level *values* (np.unique of the reference row), not over their positions:
                    # (k, k + 1) over positions pairs consecutive present levels, so a gap in the depths counts as adjacent
                    src = i.a[0]
                    by_value = any(x.op == "call" and call_name(x) == "np.unique" for x in tm.walk(src)) and not any(x.op == "call" and call_name(x) in ("builtins.range", "np.arange", "builtins.len") for x in tm.walk(src))
                    if not by_value:
                        adj = False
                        why_red = "transitive=False pairs (k, k + 1) over %s - positions, not level values: two present levels with a gap between them (a segment not subdivided at the next level) are compared as if adjacent" % tm.show(src, 3)
    yield ob(R, f, "hierarchy._compare_frame_rankings:reduced", adj, why_red)
    zero = [r for r in s.returns if r.term.op == "tuple" and all(is_lit(x) and lit(x) == 0 for x in r.term.a)]
    yield ob(R, f, "hierarchy._compare_frame_rankings:no-triples", len(zero) == 1, "a query with no reference triple returns normalizer 0 (and is skipped by _gauc)")
    okd, dv = f.default_value("transitive")
    yield ob(R, f, "hierarchy._compare_frame_rankings:default", okd and dv is False, "transitive defaults to False")
    # inversions are counted between est values grouped by reference level (level_1 below level_2)
    ci = [c for c in s.calls() if c.callee == "hierarchy._count_inversions"]
    good = len(ci) == 1 and len(ci[0].args) == 2 and all("est" in tm.params_of(a) for a in ci[0].args)
    yield ob(R, f, "hierarchy._compare_frame_rankings:inversions-on-estimate", good, "inversions are counted on the estimate's values, grouped by reference level")
    g = ctx.program.func("hierarchy._count_inversions", R)
    sg = ctx.S.get(g.qual)
    cm = [x.term for x in sg.by_kind("cmp") if x.term.op == "cmp" and "a" in tm.params_of(x.term) and "b" in tm.params_of(x.term) and x.term.a[1].op == "sub" and x.term.a[2].op == "sub"]
    advance = [t for t in cm if t.a[0] == "<" and "a" in tm.params_of(t.a[1]) and "b" in tm.params_of(t.a[2])]
    count = [t for t in cm if t.a[0] == "<=" and "b" in tm.params_of(t.a[1]) and "a" in tm.params_of(t.a[2])]
    st = [m for m in sg.by_kind("mutate") if m.how == "aug" and m.root == "inversions"]
    counted_under = bool(st) and all(any((c is count[0] and p) or (c is advance[0] and not p) for c, p in symeval.pc_conds(m.pc)) for m in st) if (count or advance) else False
    good_t = len(advance) == 1 and counted_under
    why_t = "a pair is in order only when a < b strictly; ties (a >= b) are counted as inversions"
    if not good_t and not st:
        # vectorised form: for every value of b the points of a from searchsorted(a, b, side) on are counted;
        # side="left" starts at the first a >= b (ties are inversions), side="right" at the first a > b (ties lost)
        ss = [c for c in sg.calls() if c.callee in ("np.searchsorted", ".searchsorted") and len(c.args) >= 2 and "a" in tm.params_of(c.args[0]) and "b" in tm.params_of(c.args[1]) and "b" not in tm.params_of(c.args[0])]
        if len(ss) == 1:
            side = dict(ss[0].kw).get("side", ss[0].args[2] if len(ss[0].args) > 2 else tm.const("left"))
            used = any(any(x is ss[0].term for x in tm.walk(r.term)) for r in sg.returns)
            if side.op == "const" and used:
                good_t = side.a[0] == "left"
                why_t = "counts, for each value of b, the points of a from searchsorted(a, b, side='left') on: a >= b, ties are inversions" if good_t else "searchsorted(a, b, side=%r) starts after the values equal to b: ties (a == b) are no longer counted as inversions" % side.a[0]
    yield ob(R, g, "hierarchy._count_inversions:ties", good_t, why_t)


def _frame_map_ok(t, elem_pred):
    """t == astype(hierarchy._round(<level intervals>, frame_size) / frame_size, int)"""
    if not (t.op == "call" and call_name(t) == "astype" and len(t.a[1]) >= 2):
        return False
    q = t.a[1][0]
    if not (q.op == "bin" and q.a[0] == "/" and q.a[2].op == "param" and q.a[2].a[0] == "frame_size"):
        return False
    r = q.a[1]
    if not (r.op == "call" and call_name(r) == "hierarchy._round" and len(r.a[1]) == 2 and r.a[1][1] is q.a[2]):
        return False
    return elem_pred(r.a[1][0])


def rule_framemap(ctx):
    """Levels are numbered in the order the caller lists them (level k = k-th entry, 1-based) and every segment
    boundary is mapped to a frame index by the same rounding _round(t, frame_size) / frame_size for both ends."""
    R = "C17.FRAMEMAP"
    ih = tm.param("intervals_hier")
    # _lca
    f = ctx.program.func("hierarchy._lca", R)
    s = ctx.S.get(f.qual)
    outer = [it for lid, (node, it) in sorted(s.loops.items()) if it.op == "call" and call_name(it) == "builtins.enumerate"]
    if not outer:
        plain = [it for lid, (node, it) in sorted(s.loops.items()) if it is ih]
        stores = [m for m in s.by_kind("mutate") if (m.how == "setitem" and m.key is not None and m.key.op == "tuple") or (m.how == "aug" and any(x[0] == "loop" for x in m.pc))]
        if plain and stores:
            yield ob(R, f, "hierarchy._lca:level-order", False, "levels are no longer numbered by their position in the caller's list (the depth written is %s, %s): for non-nested hierarchies an accumulated count differs from the deepest level that keeps two frames together" % (tm.show(stores[0].val, 2) if stores[0].val is not None else "?", stores[0].how), node=stores[0].node)
            return
    need(len(outer) == 1, R, "_lca: level loop not found")
    it = outer[0]
    good = len(it.a[1]) == 2 and it.a[1][0] is ih and tm.is_const(it.a[1][1], 1)
    yield ob(R, f, "hierarchy._lca:level-order", good, "levels are enumerate(intervals_hier, 1): depth = position in the caller's list" if good else "levels are enumerated over %s, not the caller's list in its own order" % tm.show(it, 3))
    inner = [it2 for lid, (node, it2) in sorted(s.loops.items()) if it2 is not it]
    need(len(inner) == 1, R, "_lca: segment loop not found")
    okm = _frame_map_ok(inner[0], lambda x: x.op == "iter" and x.a[0] is ih)
    yield ob(R, f, "hierarchy._lca:frame-map", okm, "segments -> frames by (_round(intervals, frame_size) / frame_size).astype(int)" if okm else "segment-to-frame mapping is %s" % tm.show(inner[0], 4))
    # _meet
    f = ctx.program.func("hierarchy._meet", R)
    s = ctx.S.get(f.qual)
    outer = [it for lid, (node, it) in sorted(s.loops.items()) if it.op == "call" and call_name(it) == "builtins.enumerate"]
    need(len(outer) == 1, R, "_meet: level loop not found")
    it = outer[0]
    z = it.a[1][0] if it.a[1] else None
    good = z is not None and z.op == "call" and call_name(z) == "builtins.zip" and len(z.a[1]) == 2 and z.a[1][0] is ih and z.a[1][1].op == "param" and z.a[1][1].a[0] == "labels_hier" and len(it.a[1]) == 2 and tm.is_const(it.a[1][1], 1)
    yield ob(R, f, "hierarchy._meet:level-order", good, "levels are enumerate(zip(intervals_hier, labels_hier), 1)" if good else "levels are enumerated over %s" % tm.show(it, 3))
    maps = [c.term for c in s.calls() if c.method == "astype" or c.callee == "astype"]
    sl = [c for c in s.calls() if c.callee == "builtins.slice"]
    need(sl, R, "_meet: frame slices not found")
    srcs = set()
    for c in sl:
        for x in tm.walk(c.term):
            if x.op == "call" and call_name(x) == "astype":
                srcs.add(x)
    okm = bool(srcs) and all(_frame_map_ok(x, lambda e: e.op in ("iter", "sub") and "intervals_hier" in tm.params_of(e)) for x in srcs)
    yield ob(R, f, "hierarchy._meet:frame-map", okm, "segments -> frames by (_round(intervals, frame_size) / frame_size).astype(int), start and end alike" if okm else "segment-to-frame mapping is %s" % ("; ".join(tm.show(x, 4) for x in srcs) or "not an astype(int) of rounded times"))


def rule_labelfold(ctx):
    """L-measure compares labels through util.index_labels (case-insensitive, shared with segment metrics)."""
    R = "C17.LABELFOLD"
    f = ctx.program.func("hierarchy._meet", R)
    s = ctx.S.get(f.qual)
    il = [c for c in s.calls() if c.callee == "util.index_labels"]
    eq = [c for c in s.calls() if c.callee == "np.equal.outer"]
    good = len(il) == 1 and len(il[0].args) == 1 and not il[0].kw and len(eq) == 1 and all(a.op == "sub" and a.a[0] is il[0].term and tm.is_const(a.a[1], 0) for a in eq[0].args)
    if not good and len(il) == 1 and len(il[0].args) == 1 and not il[0].kw and not eq:
        # pairwise form: the codes of index_labels(labels) compared by enc[i] == enc[j] / != only
        from .c08 import meet_label_uses

        cmpd, other = meet_label_uses(s, tm.sub(il[0].term, tm.const(0)))
        good = cmpd and not other
    yield ob(R, f, "hierarchy._meet:index_labels", good, "level labels are indexed by util.index_labels with default (case-insensitive) folding and compared by equality" if good else "labels of a level are not indexed through util.index_labels(labels) (case folding lost) before the equality comparison")
    # agreement depth: deeper levels overwrite shallower ones (levels enumerate from 1)
    it = [itm for lid, (node, itm) in s.loops.items() if itm.op == "call" and call_name(itm) == "builtins.enumerate"]
    good = bool(it) and len(it[0].a[1]) == 2 and tm.is_const(it[0].a[1][1], 1)
    yield ob(R, f, "hierarchy._meet:levels-from-1", good, "levels are numbered from 1 (0 = no agreement) and later (deeper) levels overwrite earlier ones")


def rule_squeeze(ctx):
    from . import c14

    for o in c14.rule_squeeze(ctx):
        if o.construct.startswith("hierarchy.") or o.construct.startswith("package"):
            o.rule = "C17.SQUEEZE"
            yield o


def rule_twin(ctx):
    for o in c06.rule_twincall(ctx):
        if o.construct.startswith("hierarchy."):
            o.rule = "C17.TWIN"
            yield o


def rule_evalparam(ctx):
    from . import c03

    for o in c03.rule_keyparam(ctx):
        if o.construct.startswith("hierarchy."):
            o.rule = "C17.EVALPARAM"
            yield o


def rule_stateless(ctx):
    """Shared with C15.GLOBALSTATE: the hierarchy scorers keep no state between calls or between query frames
    (no module-level table written in place, no mutable default), so a score is a function of its arguments only."""
    from . import c15

    for o in c15.rule_globalstate(ctx):
        if o.construct.startswith("hierarchy.") or o.construct.startswith("module:hierarchy"):
            o.rule = "C17.STATELESS"
            yield o


def rule_foldshared(ctx):
    """Shared with C16.CASEFOLD: util.index_labels folds case by default and folds nothing else."""
    from . import c16

    for o in c16.rule_casefold(ctx):
        if o.construct.startswith("util.index_labels") or o.construct.startswith("hierarchy."):
            o.rule = "C17.LABELFOLD"
            yield o


RULES = [
    ("C17.NOMUT", 4, common.shared("c15", "rule_nomut", "C17.NOMUT", keep=lambda o: o.construct.startswith("hierarchy."))),
    ("C17.STATELESS", 10, rule_stateless),
    ("C17.LABELFOLD", 4, rule_foldshared),
    ("C17.PARAMCHECK", 4, rule_paramcheck),
    ("C17.LITARGS", 6, rule_litargs),
    ("C17.SKIPGUARD", 5, rule_skipguard),
    ("C17.SELFEXCL", 5, rule_selfexcl),
    ("C17.RANKPAIRS", 5, rule_rankpairs),
    ("C17.TWIN", 4, rule_twin),
    ("C17.SQUEEZE", 1, rule_squeeze),
    ("C17.LABELFOLD", 2, rule_labelfold),
    ("C17.EVALPARAM", 6, rule_evalparam),
    ("C17.FRAMEMAP", 4, rule_framemap),
]

from . import common as _common_purity
RULES = RULES + _common_purity.purity_rules("C17")
RULES = RULES + _common_purity.bundle_rules("C17")
