"""C18 - multipitch error accounting is exhaustive and consistent (structural clauses)."""

from __future__ import annotations

from .. import terms as tm
from ..model import AnalysisError
from .common import ob, need, call_name, resolve_ite_free, is_lit, lit, linear_form, count_form
from . import common
from .. import symeval

PROP = "C18"
EXPLANATION = (
    "Static decision of C18's accounting identities: the four numerators of compute_err_score are normalised to min(R,E) - T, (R-E)^+, "
    "(E-R)^+ and max(R,E) - T over one common denominator, so total = substitution + miss + false alarm follows from max = min + (a-b)^+ + (b-a)^+ "
    "and each clipped numerator is >= 0; accuracy is T / sum(E + R - T); raw and chroma scores are computed by the same two functions from "
    "the same per-frame counts; resampling uses nearest-neighbour interpolation of frame indices with bounds_error=False and a fill index that "
    "points at the one empty array appended to the value list, and both empty early exits keep the list-of-arrays shape.  TP <= min per "
    "frame and chroma >= raw are matcher facts (C05/C07) and are not decided as values."
)
RULE_TEXT = "one obligation per numerator / formula / argument binding / interpolation facet"


def _clip_pos(t):
    """(a, b) when t is (a - b)^+ written as x = a - b; x[x < 0] = 0, np.maximum(a - b, 0) or np.clip(a - b, 0, None)."""
    if t.op == "upd" and t.a[1] == "setitem" and tm.is_const(t.a[3], 0):
        base, key = t.a[0], t.a[2]
        if key.op == "cmp" and key.a[0] == "<" and key.a[1] is base and tm.is_const(key.a[2], 0) and base.op == "bin" and base.a[0] == "-":
            return base.a[1], base.a[2]
    if t.op == "call" and call_name(t) == "np.maximum" and len(t.a[1]) == 2:
        for x, z in ((t.a[1][0], t.a[1][1]), (t.a[1][1], t.a[1][0])):
            if tm.is_const(z, 0) and x.op == "bin" and x.a[0] == "-":
                return x.a[1], x.a[2]
    if t.op == "call" and call_name(t) == "np.clip" and len(t.a[1]) >= 2 and tm.is_const(t.a[1][1], 0):
        x = t.a[1][0]
        if x.op == "bin" and x.a[0] == "-" and (len(t.a[1]) == 2 or tm.is_const(t.a[1][2], None)):
            return x.a[1], x.a[2]
    return None


def _minmax(t, which):
    """set of the two operands when t is element-wise min/max of two arrays."""
    if t.op == "call" and call_name(t) == ("np.min" if which == "min" else "np.max") and t.a[1] and t.a[1][0].op == "list" and len(t.a[1][0].a) == 2:
        ax = dict(t.a[2]).get("axis")
        if ax is not None and tm.is_const(ax, 0):
            return set(t.a[1][0].a)
    if t.op == "call" and call_name(t) == ("np.minimum" if which == "min" else "np.maximum") and len(t.a[1]) == 2:
        return set(t.a[1])
    return None


def _sum_linear(t):
    """Linear form of a numerator with np.sum distributed over +/-: {atom id: (coef, per-frame atom)}."""
    from .common import linear_form

    out = {}
    for c, x in linear_form(t).values():
        if x.op == "call" and call_name(x) == "np.sum" and len(x.a[1]) == 1 and not x.a[2]:
            for c2, y in linear_form(x.a[1][0]).values():
                cur = out.get(y.id, (0.0, y))
                out[y.id] = (cur[0] + c * c2, y)
        else:
            cur = out.get(("raw", x.id), (0.0, tm.mk("notsum", x)))
            out[("raw", x.id)] = (cur[0] + c, tm.mk("notsum", x))
    return {k: v for k, v in out.items() if abs(v[0]) > 1e-12}


def rule_ident(ctx):
    R = "C18.IDENT"
    f = ctx.program.func("multipitch.compute_err_score", R)
    s = ctx.S.get(f.qual)
    main = [r for r in s.returns if r.term.op == "tuple" and not all(is_lit(x) for x in r.term.a)]
    need(len(main) == 1 and len(main[0].term.a) == 4, R, "compute_err_score: (e_sub, e_miss, e_fa, e_tot) not found")
    comps = main[0].term.a
    nr, ne, tp = tm.param("n_ref"), tm.param("n_est"), tm.param("true_positives")
    dens = []
    forms = []
    for c in comps:
        if c.op == "bin" and c.a[0] == "/":
            dens.append(c.a[2])
            forms.append(_sum_linear(c.a[1]))
        else:
            dens.append(None)
            forms.append(None)
    need(all(d is not None for d in dens), R, "error scores are not ratios")
    common = all(d is dens[0] for d in dens) and dens[0].op == "call" and call_name(dens[0]) == "np.sum" and dens[0].a[1][0] is nr
    yield ob(R, f, "multipitch.compute_err_score:common-denominator", common, "all four error scores are normalised by sum(n_ref)")

    def is_mm_minus_tp(form, which):
        # sum(minmax(R, E)) - sum(T)
        if form is None or len(form) != 2:
            return False
        got_tp = got_mm = False
        for c, x in form.values():
            if x is tp and c == -1.0:
                got_tp = True
            elif c == 1.0 and _minmax(x, which) == {nr, ne}:
                got_mm = True
        return got_tp and got_mm

    def is_clip(form, a, b):
        if form is None or len(form) != 1:
            return False
        (c, x), = form.values()
        cp = _clip_pos(x)
        return c == 1.0 and cp is not None and cp[0] is a and cp[1] is b

    yield ob(R, f, "multipitch.compute_err_score:substitution", is_mm_minus_tp(forms[0], "min"), "substitution numerator is sum over frames of min(n_ref, n_est) - true_positives")
    yield ob(R, f, "multipitch.compute_err_score:miss", is_clip(forms[1], nr, ne), "miss numerator is the per-frame (n_ref - n_est) clipped at 0")
    yield ob(R, f, "multipitch.compute_err_score:false-alarm", is_clip(forms[2], ne, nr), "false-alarm numerator is the per-frame (n_est - n_ref) clipped at 0")
    yield ob(R, f, "multipitch.compute_err_score:total", is_mm_minus_tp(forms[3], "max"), "total numerator is sum over frames of max(n_ref, n_est) - true_positives; with the three above, total = sub + miss + fa by max = min + (a-b)^+ + (b-a)^+ frame by frame")
    # zero special case returns four zeros
    z = [r for r in s.returns if r.term.op == "tuple" and all(is_lit(x) and lit(x) == 0 for x in r.term.a)]
    yield ob(R, f, "multipitch.compute_err_score:empty-reference", len(z) == 1 and len(z[0].term.a) == 4, "an all-empty reference returns four zeros")


def rule_accform(ctx):
    R = "C18.ACCFORM"
    f = ctx.program.func("multipitch.compute_accuracy", R)
    s = ctx.S.get(f.qual)
    need(len(s.returns) == 1 and s.returns[0].term.op == "tuple" and len(s.returns[0].term.a) == 3, R, "compute_accuracy: (precision, recall, accuracy) expected")
    p, r, acc = s.returns[0].term.a
    nr, ne, tp = tm.param("n_ref"), tm.param("n_est"), tm.param("true_positives")

    def ratio(t):
        alts = [x for x in resolve_ite_free(t) if not is_lit(x)]
        zero = [x for x in resolve_ite_free(t) if is_lit(x)]
        if len(alts) == 1 and alts[0].op == "bin" and alts[0].a[0] == "/" and all(lit(z) == 0 for z in zero):
            return alts[0].a[1], alts[0].a[2]
        return None, None

    tsum = tm.call(tm.ext("np.sum"), (tp,))
    n, d = ratio(acc)
    good = False
    if n is not None and n is tsum and d.op == "call" and call_name(d) == "np.sum":
        lf = linear_form(d.a[1][0])
        want = {nr.id: 1.0, ne.id: 1.0, tp.id: -1.0}
        good = {k: v[0] for k, v in lf.items()} == want
    yield ob(R, f, "multipitch.compute_accuracy:accuracy", good, "accuracy = sum(TP) / sum(n_est + n_ref - TP), 0 when the denominator is 0")
    n, d = ratio(p)
    yield ob(R, f, "multipitch.compute_accuracy:precision", n is tsum and d is tm.call(tm.ext("np.sum"), (ne,)), "precision = sum(TP) / sum(n_est), 0 when no estimate")
    n, d = ratio(r)
    yield ob(R, f, "multipitch.compute_accuracy:recall", n is tsum and d is tm.call(tm.ext("np.sum"), (nr,)), "recall = sum(TP) / sum(n_ref), 0 when no reference")


def rule_twinargs(ctx):
    R = "C18.TWINARGS"
    f = ctx.program.func("multipitch.metrics", R)
    s = ctx.S.get(f.qual)
    acc = [c for c in s.calls() if c.callee == "multipitch.compute_accuracy"]
    err = [c for c in s.calls() if c.callee == "multipitch.compute_err_score"]
    need(len(acc) == 2 and len(err) == 2, R, "metrics: two accuracy and two error computations expected")
    same_counts = all(c.args[1] is acc[0].args[1] and c.args[2] is acc[0].args[2] for c in acc + err)
    yield ob(R, f, "multipitch.metrics:same-counts", same_counts, "raw and chroma scores use the same n_ref and n_est")
    tps = {c.args[0] for c in acc}
    tpe = {c.args[0] for c in err}
    yield ob(R, f, "multipitch.metrics:same-tp", tps == tpe and len(tps) == 2, "accuracy and error scores of each kind share one true-positive vector")
    nr, ne = acc[0].args[1], acc[0].args[2]
    good = nr.op == "call" and call_name(nr) == "multipitch.compute_num_freqs" and ne.op == "call" and call_name(ne) == "multipitch.compute_num_freqs"
    yield ob(R, f, "multipitch.metrics:counts", good, "n_ref / n_est are compute_num_freqs of the two frame lists")
    # return order: the 7 raw scores then the 7 chroma scores
    need(len(s.returns) == 1 and s.returns[0].term.op == "tuple" and len(s.returns[0].term.a) == 14, R, "metrics: 14-tuple expected")
    t = s.returns[0].term.a

    def src(x):
        if x.op == "sub" and x.a[0].op == "call":
            return (call_name(x.a[0]), x.a[0].a[1][0], int(x.a[1].a[0]))
        return None

    srcs = [src(x) for x in t]
    raw_tp = [c for c in acc if not (c.args[0].op == "call" and any(n == "chroma" for n, _ in c.args[0].a[2]))]
    good = all(x is not None for x in srcs)
    if good and raw_tp:
        rtp = raw_tp[0].args[0]
        exp = [("multipitch.compute_accuracy", k) for k in range(3)] + [("multipitch.compute_err_score", k) for k in range(4)]
        good = [(a[0], a[2]) for a in srcs[:7]] == exp and [(a[0], a[2]) for a in srcs[7:]] == exp and all(a[1] is rtp for a in srcs[:7]) and all(a[1] is not rtp for a in srcs[7:])
    yield ob(R, f, "multipitch.metrics:return-order", good, "positions 0-6 are the raw (precision, recall, accuracy, sub, miss, fa, total), positions 7-13 the same from the chroma true positives")
    # per-frame counts
    g = ctx.program.func("multipitch.compute_num_freqs", R)
    sg = ctx.S.get(g.qual)
    t2 = sg.returns[0].term
    good = t2.op == "call" and call_name(t2) == "np.array" and t2.a[1][0].op == "comp" and count_form(t2.a[1][0].a[1]) is not None and count_form(t2.a[1][0].a[1])[1].op == "iter"
    yield ob(R, g, "multipitch.compute_num_freqs:sizes", good, "per-frame count is the size of each frame's frequency array")


def rule_resample(ctx):
    R = "C18.RESAMPLE"
    f = ctx.program.func("multipitch.resample_multipitch", R)
    s = ctx.S.get(f.qual)
    ip = [c for c in s.calls() if c.callee == "scipy.interpolate.interp1d"]
    if not ip:
        # another nearest-frame lookup: both out-of-range sides must be sent to the empty frame explicitly
        sides = set()
        for m in s.by_kind("mutate"):
            if m.how == "setitem" and m.key is not None and m.key.op == "cmp" and "target_times" in tm.params_of(m.key) and "times" in tm.params_of(m.key):
                a, b = m.key.a[1], m.key.a[2]
                if "target_times" in tm.params_of(a):
                    sides.add("below")  # target < times[k]
                else:
                    sides.add("above")  # times[k] < target
        # out-of-range detection through insertion points: searchsorted(times, t, side) == 0 means t < times[0] only for
        # side="right" (side="left" also catches t == times[0]); == len(times) means t > times[-1] only for side="left"
        for m in s.by_kind("mutate"):
            if m.how != "setitem" or m.key is None:
                continue
            for x in tm.walk(m.key):
                if x.op == "cmp" and x.a[0] == "==":
                    for pos, k in ((x.a[1], x.a[2]), (x.a[2], x.a[1])):
                        if pos.op == "call" and call_name(pos) in ("np.searchsorted", ".searchsorted") and len(pos.a[1]) >= 2 and pos.a[1][0].op == "param" and pos.a[1][0].a[0] == "times" and "target_times" in tm.params_of(pos.a[1][1]):
                            side = dict(pos.a[2]).get("side", pos.a[1][2] if len(pos.a[1]) > 2 else tm.const("left"))
                            if side.op != "const":
                                continue
                            if tm.is_const(k, 0):
                                okb = side.a[0] == "right"
                                if not okb:
                                    yield ob(R, f, "multipitch.resample_multipitch:bounds", False, "searchsorted(times, t, side='left') == 0 also holds for t == times[0]: a reference time equal to the first estimate time gets the empty frame", node=m.node)
                                    return
                            elif "times" in tm.params_of(k) or "frequencies" in tm.params_of(k):
                                okb = side.a[0] == "left"
                                if not okb:
                                    yield ob(R, f, "multipitch.resample_multipitch:bounds", False, "searchsorted(times, t, side='right') == len(times) also holds for t == times[-1]: a reference time equal to the last estimate time gets the empty frame instead of the last frame", node=m.node)
                                    return
        # np.interp on the frame index: interp clamps to the end values unless `left=` / `right=` say otherwise, so each
        # out-of-range side needs its own sentinel
        for c in s.calls():
            if c.callee == "np.interp" and len(c.args) >= 3 and "target_times" in tm.params_of(c.args[0]) and c.args[1].op == "param" and c.args[1].a[0] == "times":
                kw_ = dict(c.kw)
                missing = [k_ for k_ in ("left", "right") if k_ not in kw_]
                yield ob(R, f, "multipitch.resample_multipitch:bounds", not missing, "np.interp sends both out-of-range sides to a sentinel" if not missing else "np.interp(..., %s) clamps target times %s the estimate's range to the %s estimate frame instead of the empty frame (no `%s=` sentinel)" % (", ".join("%s=.." % k_ for k_ in kw_), "before" if "left" in missing else "after", "first" if "left" in missing else "last", missing[0]), node=c.node)
                if missing:
                    return
        if sides and sides != {"below", "above"}:
            yield ob(R, f, "multipitch.resample_multipitch:bounds", False, "the nearest-frame lookup was re-implemented and only target times %s the estimate's range are sent to the empty frame: times on the other side receive the first/last estimate frame" % ("above" if "above" in sides else "below"), node=None)
            return
    need(len(ip) == 1, R, "resample_multipitch: interp1d call not found")
    kw = dict(ip[0].kw)
    yield ob(R, f, "multipitch.resample_multipitch:kind", "kind" in kw and tm.is_const(kw["kind"], "nearest"), "frames are taken from the nearest estimate time (kind=%s)" % (tm.show(kw.get("kind"), 1) if "kind" in kw else "default linear"), node=ip[0].node)
    yield ob(R, f, "multipitch.resample_multipitch:bounds", "bounds_error" in kw and tm.is_const(kw["bounds_error"], False), "reference times outside the estimate's range do not raise", node=ip[0].node)
    xs, ys = ip[0].args[0], ip[0].args[1]
    idx_ok = xs.op == "param" and xs.a[0] == "times" and ys.op == "call" and call_name(ys) == "np.arange"
    yield ob(R, f, "multipitch.resample_multipitch:index-interp", idx_ok, "what is interpolated is the frame index over the estimate times")
    # the interpolator is evaluated at the caller's target times themselves: clipping / rounding them first maps times
    # outside the estimate's range onto its first / last frame instead of the empty one
    uses = [c for c in s.calls() if c.fn is not None and c.fn.op == "call" and call_name(c.fn) == "scipy.interpolate.interp1d" and c.args]
    if uses:
        at = uses[0].args[0]
        raw = at.op == "param" and at.a[0] == "target_times"
        yield ob(R, f, "multipitch.resample_multipitch:query-times", raw, "the interpolator is evaluated at target_times as given" if raw else "the interpolator is evaluated at %s, not at target_times as given: reference times outside the estimate's range no longer reach the out-of-range sentinel" % tm.show(at, 3), node=uses[0].node)
    # sentinel: fill_value == len(frequencies) == index of the single empty array appended
    fill = kw.get("fill_value")
    main = [r for r in s.returns if r.term.op == "comp"]
    need(len(main) == 1, R, "resample_multipitch: main return not found")
    elt = main[0].term.a[1]
    good = False
    why = "sentinel not recognised"
    if elt.op == "sub" and elt.a[0].op == "bin" and elt.a[0].a[0] == "+":
        vals = elt.a[0]
        lists = [z for z in (vals.a[1], vals.a[2]) if z.op == "list"]
        base = [z for z in (vals.a[1], vals.a[2]) if z.op != "list"]
        if len(lists) == 1 and len(lists[0].a) == 1 and len(base) == 1:
            empty = lists[0].a[0]
            is_empty = empty.op == "call" and call_name(empty) == "np.array" and empty.a[1][0].op == "list" and not empty.a[1][0].a
            appended_last = vals.a[2] is lists[0] or (vals.a[1] is lists[0] and False)
            n = tm.call(tm.mk("builtin", "len"), (base[0],))
            good = is_empty and fill is not None and fill is n and base[0].op == "param" and base[0].a[0] == "frequencies"
            # NB: terms sort commutative '+' operands; list concatenation order is read from the syntax tree below
            why = "fill_value = len(frequencies) indexes the single empty array appended to the frame list"
    yield ob(R, f, "multipitch.resample_multipitch:sentinel", good, why)
    import ast

    order_ok = False
    for n_ in ast.walk(f.node):
        if isinstance(n_, ast.BinOp) and isinstance(n_.op, ast.Add) and isinstance(n_.right, ast.List) and isinstance(n_.left, ast.Name) and n_.left.id == "frequencies":
            order_ok = True
    yield ob(R, f, "multipitch.resample_multipitch:sentinel-last", order_ok, "the empty array is appended after the frames (frequencies + [empty])")
    idx = elt.a[1] if elt.op == "sub" else None
    cast = idx is not None and idx.op == "iter" and idx.a[0].op == "call" and (call_name(idx.a[0]) == "astype" or (call_name(idx.a[0]) == "np.asarray" and any(k == "dtype" for k, _ in idx.a[0].a[2])))
    yield ob(R, f, "multipitch.resample_multipitch:int-index", cast, "interpolated indices are cast to int before indexing")
    e1 = [r for r in s.returns if r.term.op == "list" and not r.term.a]
    e2 = [r for r in s.returns if r.term.op == "bin" and r.term.a[0] == "*"]
    yield ob(R, f, "multipitch.resample_multipitch:empty-target", len(e1) == 1, "no target times -> empty list")
    good = len(e2) == 1 and any(z.op == "list" and len(z.a) == 1 for z in (e2[0].term.a[1], e2[0].term.a[2])) and "target_times" in tm.params_of(e2[0].term)
    yield ob(R, f, "multipitch.resample_multipitch:empty-source", good, "no estimate frames -> one empty array per target time")
    # metrics resamples the estimate onto the reference time base, only when they differ
    g = ctx.program.func("multipitch.metrics", R)
    sg = ctx.S.get(g.qual)
    rc = [c for c in sg.calls() if c.callee == "multipitch.resample_multipitch"]
    good = len(rc) == 1 and [a.a[0] if a.op == "param" else None for a in rc[0].args] == ["est_time", "est_freqs", "ref_time"] and bool(symeval.pc_conds(rc[0].pc))
    yield ob(R, g, "multipitch.metrics:resample-call", good, "the estimate is resampled onto the reference times (est_time, est_freqs, ref_time) when the time bases differ")


def rule_samewindow(ctx):
    """Shared with C05/C07: raw and chroma matching use the same closed window predicate, so the chroma count cannot fall below the raw count at a tie."""
    from . import c05, c07

    for o in c05.rule_edgepred(ctx):
        if o.construct.startswith("util.match_events"):
            o.rule = "C18.SAMEWINDOW"
            yield o
    for o in c05.rule_windowsides(ctx):
        if o.rule == "C05.WINDOWSIDES":
            o.rule = "C18.SAMEWINDOW"
            yield o
    for o in c07.rule_chromatwin(ctx):
        if o.construct.startswith("multipitch."):
            o.rule = "C18.SAMEWINDOW"
            yield o


def rule_countform(ctx):
    """n_ref / n_est are the plain per-frame sizes ([f.size for f in frequencies]): duplicates inside a frame are counted,
    exactly as the matcher sees them, so TP <= min(n_ref, n_est) per frame."""
    R = "C18.COUNTFORM"
    f = ctx.program.func("multipitch.compute_num_freqs", R)
    s = ctx.S.get(f.qual)
    need(len(s.returns) == 1, R, "compute_num_freqs: single return expected")
    t = s.returns[0].term
    if t.op == "call" and call_name(t) in ("np.array", "np.asarray") and t.a[1]:
        t = t.a[1][0]
    good = False
    why = "per-frame count is %s" % tm.show(t, 4)
    if t.op == "comp" and len(t.a[2]) == 1 and t.a[2][0].op == "param" and t.a[2][0].a[0] == "frequencies" and not t.a[3]:
        e = t.a[1]
        cf = count_form(e)
        good = cf is not None and cf[1].op == "iter" and cf[1].a[0] is t.a[2][0]
        why = "number of frequencies per frame = size of the frame itself" if good else "per-frame count %s is not the size of the frame itself (a de-duplicated or filtered count breaks TP <= min(n_ref, n_est))" % tm.show(e, 3)
    yield ob(R, f, "multipitch.compute_num_freqs:size", good, why, node=s.returns[0].node)


def rule_matchsrc(ctx):
    """Shared with C05.MATCHSRC: every return of util.match_events is the one-to-one matching, so a frame's true positives
    never exceed min(#ref, #est)."""
    from . import c05

    for o in c05.rule_matchsrc(ctx):
        if o.construct.startswith("util.match_events") or "multipitch" in o.what:
            o.rule = "C18.MATCHSRC"
            yield o




RULES = [
    ("C18.TIMEBASE", 1, common.shared("c08", "rule_affine", "C18.TIMEBASE", keep=lambda o: o.construct.startswith("multipitch."))),
    ("C18.KWVIEW", 3, common.shared("c03", "rule_kwview", "C18.KWVIEW", keep=lambda o: o.construct.startswith("multipitch."))),
    ("C18.NOMUT", 4, common.shared("c15", "rule_nomut", "C18.NOMUT", keep=lambda o: o.construct.startswith("multipitch."))),
    ("C18.MATCHSRC", 2, rule_matchsrc),
    ("C18.FRAMECOUNT", 5, common.shared("c05", "rule_framecount", "C18.FRAMECOUNT", keep=lambda o: o.construct.startswith("multipitch."))),
    ("C18.COUNTFORM", 1, rule_countform),
    ("C18.SAMEWINDOW", 8, rule_samewindow),
    ("C18.IDENT", 6, rule_ident),
    ("C18.ACCFORM", 3, rule_accform),
    ("C18.TWINARGS", 5, rule_twinargs),
    ("C18.RESAMPLE", 9, rule_resample),
]

from . import common as _common_purity
RULES = RULES + _common_purity.purity_rules("C18")
RULES = RULES + _common_purity.bundle_rules("C18")
