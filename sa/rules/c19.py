"""C19 - BSS-eval decomposition, framewise consistency, arity (structural clauses)."""

from __future__ import annotations

from .. import terms as tm
from ..arity import Arity, length
from ..model import AnalysisError
from .common import ob, need, call_name, resolve_ite_free, linear_form, linear_sum, is_lit
from . import common
from .. import symeval
from . import c15, common

PROP = "C19"
EXPLANATION = (
    "Static decision of C19's structural clauses: in both decompositions the artifact term has the linear form -s_true - e_spat - e_interf "
    "plus an in-place addition of the estimate on the leading samples, so the four returned components sum to the zero-padded estimate "
    "identically; e_spat and e_interf are successive projections minus what was already explained; the four public functions return the "
    "documented number of arrays on every path including empty input; in the framewise variants every result buffer is assigned in the "
    "silent-window branch (NaN) and in the normal branch from the non-framewise function applied to reference and estimate cut with the same "
    "window slice and the caller's compute_permutation, and fewer than two windows fall back to the non-framewise result; the permutation is "
    "the argmax of mean SIR over all itertools.permutations, arange(nsrc) when not requested; validate() rejects silent sources.  Scale "
    "invariance, permutation equivariance and SDR values are numerical linear algebra and are not decided."
)
RULE_TEXT = "one obligation per decomposition identity / return path / buffer / framewise call / permutation clause"

PUBLIC = {
    "separation.bss_eval_sources": 4,
    "separation.bss_eval_sources_framewise": 4,
    "separation.bss_eval_images": 5,
    "separation.bss_eval_images_framewise": 5,
}


def rule_linear(ctx):
    R = "C19.LINEAR"
    for q in ("separation._bss_decomp_mtifilt", "separation._bss_decomp_mtifilt_images"):
        f = ctx.program.func(q, R)
        s = ctx.S.get(q)
        need(s.returns, R, "%s: no return" % q)
        for i, r in enumerate(s.returns):
            t = r.term
            need(t.op == "tuple" and len(t.a) >= 4, R, "%s: (s_true, e_spat, e_interf, e_artif, ...) expected" % q)
            s_true, e_spat, e_interf, e_artif = t.a[:4]
            base = e_artif
            adds = []
            while base.op == "upd" and base.a[1] == "setitem":
                adds.append((base.a[2], base.a[3]))
                base = base.a[0]
            # e_spat / e_interf may be merges over the saveg flag: check each alternative combination by linear forms
            tot = linear_sum([linear_form(base), linear_form(s_true), linear_form(e_spat), linear_form(e_interf)])
            zero = not tot
            if not zero:
                # flag-correlated alternatives (ite(saveg, a, b)): resolve pairwise with the same flag polarity
                zero = _zero_under_flags(base, s_true, e_spat, e_interf)
            yield ob(R, f, "%s:remainder@%d" % (q, i), zero, "e_artif is -(s_true + e_spat + e_interf) before the estimate is added (components cancel identically)", node=r.node)
            good_add = False
            why = "in-place addition of the estimate not found"
            if len(adds) == 1:
                key, val = adds[0]
                # val = base[key] + estimate (possibly transposed for images)
                if val.op == "bin" and val.a[0] == "+":
                    parts = [val.a[1], val.a[2]]
                    cur = [p for p in parts if p.op == "sub" and p.a[1] is key]
                    est = [p for p in parts if p not in cur]
                    if len(cur) == 1 and len(est) == 1:
                        e = est[0]
                        if e.op == "call" and call_name(e) == "np.transpose":
                            e = e.a[1][0]
                        lead = key if key.op == "slice" else (key.a[-1] if key.op == "tuple" else None)
                        is_lead = lead is not None and lead.op == "slice" and tm.is_const(lead.a[0], None) and "estimated_source" in tm.params_of(lead.a[1])
                        good_add = e.op == "param" and e.a[0] == "estimated_source" and is_lead
                        why = "e_artif[..., :nsampl] += estimated_source: the four components sum to the zero-padded estimate"
            yield ob(R, f, "%s:plus-estimate@%d" % (q, i), good_add, why, node=r.node)
            # successive projections
            sp = linear_sum([linear_form(e_spat), linear_form(s_true)])
            it = linear_sum([linear_form(e_interf), linear_form(s_true), linear_form(e_spat)])
            proj_j = [x for _, x in sp.values()]
            proj_all = [x for _, x in it.values()]
            pj_ok = _is_projection(proj_j, single=True)
            pa_ok = _is_projection(proj_all, single=False)
            yield ob(R, f, "%s:projections@%d" % (q, i), pj_ok and pa_ok, "s_true + e_spat is the projection on source j alone, s_true + e_spat + e_interf the projection on all sources")


def _alts(t):
    return resolve_ite_free(t)


def _zero_under_flags(base, s_true, e_spat, e_interf):
    """Resolve ite(flag, a, b) consistently: substitute every ite by its then-branch, then by its else-branch."""
    for pick in (1, 2):

        def f(x, pick=pick):
            if x.op == "ite":
                return tm.rebuild(x.a[pick], f)
            return None

        tot = linear_sum([linear_form(tm.rebuild(z, f)) for z in (base, s_true, e_spat, e_interf)])
        if tot:
            return False
    return True


def _is_projection(atoms, single):
    if len(atoms) != 1:
        # with the saveg flag the projection appears as ite(flag, proj(...)[0], proj(...))
        return False
    ok_all = True
    for x in resolve_ite_free(atoms[0]):
        if x.op == "sub" and tm.is_const(x.a[1], 0):
            x = x.a[0]
        if not (x.op == "call" and call_name(x) in ("separation._project", "separation._project_images")):
            return False
        ref = x.a[1][0]
        whole = ref.op == "param" and ref.a[0] == "reference_sources"
        one = ref.op == "sub" and ref.a[0].op == "param" and ref.a[0].a[0] == "reference_sources" and "j" in tm.params_of(ref.a[1])
        ok_all = ok_all and (one if single else whole)
    return ok_all


def rule_arity(ctx):
    R = "C19.ARITY"
    ar = Arity(ctx)
    for q, n in sorted(PUBLIC.items()):
        f = ctx.program.func(q, R)
        rets = ar.returns_of(q)
        need(rets, R, "%s has no return" % q)
        ndoc = len(f.docinfo["returns"])
        for i, (r, a) in enumerate(rets):
            k = length(a)
            good = k == n
            guard = "; ".join(("" if p else "not ") + tm.show(c, 3) for c, p in symeval.pc_conds(r.pc)) or "unconditional"
            yield ob(R, f, "%s:return-arity" % q if not good else "%s:return@%d" % (q, i), good, "return at line %d yields %s arrays; documented arity is %d (path: %s)" % (r.lineno, k, n, guard), node=r.node)
        yield ob(R, f, "%s:documented" % q, ndoc == n, "numpydoc Returns lists %d values" % ndoc)


def rule_nanfill(ctx):
    R = "C19.NANFILL"
    for q in ("separation.bss_eval_sources_framewise", "separation.bss_eval_images_framewise"):
        f = ctx.program.func(q, R)
        s = ctx.S.get(q)
        # buffers: np.empty results returned by the main path
        bufs = {}
        prefilled = {}
        for m in s.by_kind("mutate"):
            if m.how == "setitem" and m.root:
                base = m.old
                while base.op in ("upd", "loopvar", "ite"):
                    base = base.a[0] if base.op == "upd" else (base.a[2] if base.op == "loopvar" else base.a[1])
                if base.op == "call" and call_name(base) == "np.empty":
                    bufs.setdefault(m.root, []).append(m)
                elif base.op == "call" and call_name(base) == "np.full" and len(base.a[1]) >= 2 and base.a[1][1].op == "ext" and base.a[1][1].a[0] in ("np.nan", "np.NaN"):
                    prefilled.setdefault(m.root, []).append(m)
        if len(prefilled) >= 4 and not bufs:
            # buffers that start out as NaN: a window that is skipped keeps NaN, so every store of computed values
            # must sit behind the silent-source test
            for name, ms in sorted(prefilled.items()):
                guarded = all(any((call_name(c) == "separation._any_source_silent" or any(call_name(x) == "separation._any_source_silent" for x in tm.walk(c))) for c, p in symeval.pc_conds(m.pc)) for m in ms)
                yield ob(R, f, "%s:%s" % (q, name), guarded, "result buffer %r starts as np.full(.., np.nan) and receives values only behind the silent-source test" % name if guarded else "result buffer %r starts as NaN but is also written for windows with a silent source" % name, node=ms[0].node)
            continue
        if len(bufs) == 1:
            # anonymous buffers: a tuple of n allocations written through one loop variable (`for buf in buffers:`),
            # unrolled into one store per buffer - as many NaN stores under the silent-source test as buffers returned
            (name, ms), = bufs.items()
            main = [r.term for r in s.returns if r.term.op == "tuple" and r.term.a and all(z.op == "call" and call_name(z) == "np.empty" for z in r.term.a)]
            need(len(main) == 1 and len(main[0].a) >= 4, R, "%s: result buffers not found" % q)
            nbuf = len(main[0].a)
            nan = [m for m in ms if m.val.op == "ext" and m.val.a[0] in ("np.nan", "np.NaN")]
            silent = [m for m in nan if any((call_name(c) == "separation._any_source_silent" or any(call_name(x) == "separation._any_source_silent" for x in tm.walk(c))) for c, p in symeval.pc_conds(m.pc))]
            for i in range(nbuf):
                yield ob(R, f, "%s:buffer#%d" % (q, i), len(silent) == nbuf, "each of the %d result buffers is set to NaN for a window with a silent source (%d NaN stores)" % (nbuf, len(silent)), node=(silent or ms)[0].node)
            continue
        need(len(bufs) >= 4, R, "%s: result buffers not found" % q)
        for name, ms in sorted(bufs.items()):
            nan = [m for m in ms if m.val.op == "ext" and m.val.a[0] in ("np.nan", "np.NaN")]
            silent = [m for m in nan if any((call_name(c) == "separation._any_source_silent" or any(call_name(x) == "separation._any_source_silent" for x in tm.walk(c))) for c, p in symeval.pc_conds(m.pc))]
            yield ob(R, f, "%s:%s" % (q, name), bool(silent), "result buffer %r is set to NaN for a window with a silent source" % name, node=(silent or ms)[0].node)
    # the EMPTYFILL rule of C15 covers 'every path of the filling loop'
    for o in c15.rule_emptyfill(ctx):
        if o.construct.startswith("separation."):
            o.rule = "C19.NANFILL"
            yield o


def rule_framecall(ctx):
    R = "C19.FRAMECALL"
    for q, inner in (("separation.bss_eval_sources_framewise", "separation.bss_eval_sources"), ("separation.bss_eval_images_framewise", "separation.bss_eval_images")):
        f = ctx.program.func(q, R)
        s = ctx.S.get(q)
        calls = [c for c in s.calls() if c.callee == inner]
        need(len(calls) == 2, R, "%s: window call and fallback call of %s expected" % (q, inner))
        inloop = [c for c in calls if symeval.pc_loops(c.pc)]
        fallback = [c for c in calls if not symeval.pc_loops(c.pc)]
        need(len(inloop) == 1 and len(fallback) == 1, R, "%s: call structure changed" % q)
        c = inloop[0]
        ref, est, perm = c.args[0], c.args[1], (c.args[2] if len(c.args) > 2 else dict(c.kw).get("compute_permutation"))

        def cut(x, pname):
            """x == <pname normalised>[:, win_slice(, :)] -> the slice term"""
            if x.op == "sub" and x.a[1].op == "tuple" and len(x.a[1].a) >= 2 and pname in tm.params_of(x.a[0]):
                idx = x.a[1].a
                if idx[0].op == "slice" and all(tm.is_const(z, None) for z in idx[0].a):
                    return idx[1]
            return None

        sr, se = cut(ref, "reference_sources"), cut(est, "estimated_sources")
        same = sr is not None and sr is se
        shape = False
        if same and sr.op == "call" and call_name(sr) == "builtins.slice" and len(sr.a[1]) == 2:
            lo, hi = sr.a[1]
            # slice(k*hop, k*hop + window)
            # (the step is the caller's hop itself: k * hop with hop the parameter, not min(hop, window) or the like)
            hop_raw = lo.op == "bin" and lo.a[0] == "*" and any(z.op == "param" and z.a[0] == "hop" for z in lo.a[1:]) and any(z.op in ("iter", "idx") for z in lo.a[1:])
            shape = hop_raw and lo.op == "bin" and lo.a[0] == "*" and "hop" in tm.params_of(lo) and hi.op == "bin" and hi.a[0] == "+" and any(z is lo for z in (hi.a[1], hi.a[2])) and any(z.op == "param" and z.a[0] == "window" for z in (hi.a[1], hi.a[2]))
        yield ob(R, f, "%s:same-window" % q, same and shape, "reference and estimate are cut with the same slice(k*hop, k*hop + window)", node=c.node)
        yield ob(R, f, "%s:permutation-flag" % q, perm is not None and perm.op == "param" and perm.a[0] == "compute_permutation", "the caller's compute_permutation is passed to every window", node=c.node)
        # results of the window call go to column k of each buffer, in order
        un = [u for u in s.by_kind("unpack") if u.value is c.term]
        ncols = PUBLIC[q]
        good_un = len(un) == 1 and un[0].n == ncols
        if not un:
            # for buf, values in zip(buffers, result): buf[:, k] = values  - component i goes to the i-th buffer
            stores = [m for m in s.by_kind("mutate") if m.how == "setitem" and m.pc == c.pc and any(m.val is tm.proj(c.term, i) for i in range(16))]
            good_un = sorted(i for m in stores for i in range(16) if m.val is tm.proj(c.term, i)) == list(range(ncols))
        yield ob(R, f, "%s:unpacks-all" % q, good_un, "the window result is unpacked into all %d buffers" % ncols)
        # fallback: fewer than two windows -> non-framewise result expanded
        fb = fallback[0]
        cond = symeval.pc_conds(fb.pc)
        nwin_guard = any(cc.op == "cmp" and cc.a[0] == "<" and tm.is_const(cc.a[2], 2) and p for cc, p in cond)
        fargs = [_unnorm(a) for a in fb.args]
        good = nwin_guard and [a.a[0] if a.op == "param" else None for a in fargs] == ["reference_sources", "estimated_sources", "compute_permutation"]
        yield ob(R, f, "%s:fallback" % q, good, "with fewer than two windows the non-framewise function is applied to the whole signal", node=fb.node)
        rets = [r for r in s.returns if r.term.op == "comp"]
        good = len(rets) == 1 and rets[0].term.a[2][0] is fb.term and rets[0].term.a[1].op == "call" and call_name(rets[0].term.a[1]) == "np.expand_dims"
        yield ob(R, f, "%s:fallback-shape" % q, good, "the fallback result is returned as one column per score (np.expand_dims(score, -1))")
        # number of windows
        nw = [x for x in s.by_kind("div") if "hop" in tm.params_of(x.den)]
        good = bool(nw) and {"window", "hop", "reference_sources"} <= tm.params_of(nw[0].num)
        yield ob(R, f, "%s:nwin" % q, good, "nwin = floor((nsampl - window + hop) / hop)")


def _unnorm(a):
    for _ in range(6):
        if a.op == "ite":
            x, y = _unnorm(a.a[1]), _unnorm(a.a[2])
            return x if x is y else a
        if a.op == "call" and call_name(a) in ("np.atleast_3d",) and a.a[1]:
            a = a.a[1][0]
            continue
        if a.op == "sub" and a.a[1].op == "tuple" and any(z.op == "ext" and z.a[0] == "np.newaxis" for z in a.a[1].a):
            a = a.a[0]
            continue
        break
    return a


def rule_permexh(ctx):
    R = "C19.PERMEXH"
    for q in ("separation.bss_eval_sources", "separation.bss_eval_images"):
        f = ctx.program.func(q, R)
        s = ctx.S.get(q)
        pc = [c for c in s.calls() if c.callee == "itertools.permutations"]
        need(len(pc) == 1, R, "%s: itertools.permutations call not found" % q)
        arg = pc[0].args[0]
        full = any(x.op == "call" and call_name(x) == "builtins.range" and "estimated_sources" in tm.params_of(x) for x in tm.walk(arg))
        r_only = len(pc[0].args) == 1
        yield ob(R, f, "%s:all-permutations" % q, full and r_only, "candidates are all permutations of range(nsrc)", node=pc[0].node)
        # the argument of np.argmax is the per-permutation score: either a buffer filled in a loop over the permutations
        # or a comprehension over them; each entry is mean(SIR[perm, arange(nsrc)]) with SIR the buffer that receives
        # the `sir` component of the crit function (position of 'sir' in its documented Returns / return tuple)
        am = [c for c in s.calls() if c.callee == "np.argmax"]
        crit = "separation._bss_source_crit" if q.endswith("sources") else "separation._bss_image_crit"
        sir_pos = 1 if q.endswith("sources") else 2

        def is_sir_buffer(base):
            # one (3, n, n) array filled by  B[:, i, j] = crit(...)  and read as B[sir position]
            if base.op == "sub" and base.a[1].op == "const" and not isinstance(base.a[1].a[0], bool) and base.a[1].a[0] == sir_pos:
                nm0 = _buffer_name(s, base.a[0])
                if nm0 is not None:
                    st0 = [m for m in s.by_kind("mutate") if m.how == "setitem" and m.root == nm0]
                    if st0 and all(m.val.op == "call" and call_name(m.val) == crit and m.key.op == "tuple" and len(m.key.a) == 3 and m.key.a[0].op == "slice" and all(tm.is_const(z, None) for z in m.key.a[0].a) for m in st0):
                        return True
            nm = _buffer_name(s, base)
            if nm is None:
                return False
            vals = [m.val for m in s.by_kind("mutate") if m.how == "setitem" and m.root == nm]
            return bool(vals) and all(v.op == "sub" and v.a[0].op == "call" and call_name(v.a[0]) == crit and tm.is_const(v.a[1], sir_pos) for v in vals)

        def score_ok(v):
            if not (v.op == "call" and call_name(v) == "np.mean" and v.a[1][0].op == "sub"):
                return False
            base, idx = v.a[1][0].a
            idx_ok = idx.op == "tuple" and len(idx.a) == 2 and idx.a[0].op in ("iter", "sub") and idx.a[1].op == "call" and call_name(idx.a[1]) == "np.arange" and any(x.op == "call" and call_name(x) == "itertools.permutations" for x in tm.walk(idx.a[0]))
            return idx_ok and base.op in ("loop", "loopvar", "upd", "sub") and is_sir_buffer(base)

        good = False
        scores = None
        if len(am) == 1:
            A = am[0].args[0]
            if A.op == "call" and call_name(A) in ("np.array", "np.asarray") and A.a[1]:
                A = A.a[1][0]
            if A.op == "comp" and A.a[0] in ("list", "gen") and len(A.a[2]) == 1 and not A.a[3]:
                scores = [A.a[1]]
            else:
                nm = _buffer_name(s, A)
                scores = [m.val for m in s.by_kind("mutate") if m.how == "setitem" and nm is not None and m.root == nm]
            good = bool(scores) and all(score_ok(v) for v in scores)
        yield ob(R, f, "%s:mean-sir" % q, good, "each permutation is scored by mean(sir[perm, arange(nsrc)])")
        yield ob(R, f, "%s:argmax" % q, len(am) == 1 and bool(scores), "the chosen permutation maximises the mean SIR (np.argmax over the per-permutation scores)")
        # orientation of the score matrices: entry [i, j] holds the criteria of estimate i decomposed against true
        # source j (rows are searched over by the permutation, columns are the true sources) - a transposed store makes
        # the returned permutation the inverse one for three or more sources
        decomp = "separation._bss_decomp_mtifilt" if q.endswith("sources") else "separation._bss_decomp_mtifilt_images"
        n_or = 0
        for m in s.by_kind("mutate"):
            if m.how != "setitem" or m.val is None or m.key is None:
                continue
            v0 = m.val.a[0] if m.val.op == "sub" else m.val
            if not (v0.op == "call" and call_name(v0) == crit):
                continue
            D = [z for z in tm.walk(v0) if z.op == "call" and call_name(z) == decomp and len(z.a[1]) >= 3]
            if not D:
                continue
            key = m.key
            comps = [z for z in key.a if z.op != "slice"] if key.op == "tuple" else [key]
            def loop_index(z):
                return z.op in ("iter", "idx", "loopvar") or (z.op == "sub" and z.a[0].op == "iter" and z.a[1].op == "const")

            est_ix = {z.a[1] for d in D for z in tm.walk(d.a[1][1]) if z.op == "sub" and z.a[0].op in ("param", "ite", "call") and "estimated_sources" in tm.params_of(z.a[0]) and loop_index(z.a[1])}
            true_ix = {d.a[1][2] for d in D}
            if not est_ix:
                # `for j, est in enumerate(estimated_sources)`: the element of iteration j *is* estimated_sources[j]
                for d in D:
                    for z in tm.walk(d.a[1][1]):
                        if z.op == "iter" and "estimated_sources" in tm.params_of(z.a[0]) and len(z.a) > 1:
                            for c_ in comps:
                                if c_.op == "idx" and c_.a[0] == z.a[1]:
                                    est_ix.add(c_)
            if len(comps) == 1:
                K = comps[0]
                if est_ix == {K} and true_ix == {K}:
                    comps = [K, K]  # the diagonal: estimate j against true source j
                else:
                    comps = [tm.sub(K, tm.const(0)), tm.sub(K, tm.const(1))]  # one index pair (i, j) used as the key
            if len(comps) != 2:
                continue
            n_or += 1
            good_o = est_ix == {comps[0]} and true_ix == {comps[1]}
            yield ob(R, f, "%s:orientation@%d" % (q, n_or), good_o, "score entry [%s, %s] holds estimate %s against true source %s" % (tm.show(comps[0], 1), tm.show(comps[1], 1), "/".join(tm.show(z, 1) for z in est_ix) or "?", "/".join(tm.show(z, 1) for z in true_ix) or "?"), node=m.node)
        need(n_or >= 2, R, "%s: stores of the decomposition criteria into the score matrices not found" % q)
        rets = [r for r in s.returns if r.term.op == "tuple"]
        from .common import facts as _facts

        perm_ret = [r for r in rets if any(cc.op == "param" and cc.a[0] == "compute_permutation" and p for cc, p in _facts(r.pc))]
        noperm_ret = [r for r in rets if any(cc.op == "param" and cc.a[0] == "compute_permutation" and not p for cc, p in _facts(r.pc))]
        if not noperm_ret:
            # `if not compute_permutation or nsrc == 1`: a single source admits only the identity permutation, so it may
            # share the direct route
            def single_source(z):
                return z.op == "cmp" and z.a[0] == "==" and any(tm.is_const(y, 1) for y in z.a[1:]) and any(common.dim_of(y) is not None or (y.op == "call" and call_name(y) == "builtins.len") for y in z.a[1:])

            def disjuncts(cc, p):
                """the alternatives of a condition that holds as a disjunction: `a or b` true, `a and b` false"""
                if p and cc.op == "bool" and cc.a[0] == "or":
                    return [(z, True) for z in cc.a[1:]]
                if (not p) and cc.op == "bool" and cc.a[0] == "and":
                    return [(z, False) for z in cc.a[1:]]
                return None

            def lit_is(z, pol, test):
                while z.op == "un" and z.a[0] == "not":
                    z, pol = z.a[1], not pol
                return test(z, pol)

            no_perm = lambda z, pol: z.op == "param" and z.a[0] == "compute_permutation" and not pol
            one_src = lambda z, pol: (single_source(z) and pol) or (z.op == "cmp" and z.a[0] == "!=" and (not pol) and single_source(tm.cmp("==", z.a[1], z.a[2])))
            for r in rets:
                for cc, p in symeval.pc_conds(r.pc):
                    ds = disjuncts(cc, p)
                    if ds and any(lit_is(z, q_, no_perm) for z, q_ in ds) and all(lit_is(z, q_, no_perm) or lit_is(z, q_, one_src) for z, q_ in ds):
                        noperm_ret.append(r)
        good = len(perm_ret) == 1 and len(noperm_ret) == 1
        if good:
            last = perm_ret[0].term.a[-1]
            good = last.op == "call" and call_name(last) in ("np.asarray", "np.array") or (last.op == "sub" and last.a[0].op == "call" and call_name(last.a[0]) == "builtins.list") or last.op == "sub"
            npl = noperm_ret[0].term.a[-1]
            # (the identity permutation 0 .. nsrc-1: np.arange with the count as its only argument)
            good = good and npl.op == "call" and call_name(npl) == "np.arange" and len(npl.a[1]) == 1 and not npl.a[2]
            # the scores returned with the permutation are gathered with the same (popt, arange) index
            idxs = {x.a[1] for x in perm_ret[0].term.a[:-1] if x.op == "sub"}
            good = good and len(idxs) == 1
        yield ob(R, f, "%s:returns" % q, good, "with compute_permutation the scores are gathered at (best permutation, arange(nsrc)); without it the identity arange(nsrc) is returned")


def _buffer_name(s, t):
    """name of the local whose store chain ``t`` is (by matching mutation sites)."""
    for m in s.by_kind("mutate"):
        nw = m.d.get("new")
        if nw is not None and m.root:
            x = t
            for _ in range(50):
                if x is nw:
                    return m.root
                if x.op == "loop":
                    x = x.a[3]
                elif x.op == "ite":
                    # either branch
                    if _buffer_name_in(s, x.a[1], nw) or _buffer_name_in(s, x.a[2], nw):
                        return m.root
                    break
                else:
                    break
    return None


def _buffer_name_in(s, x, nw):
    for _ in range(50):
        if x is nw:
            return True
        if x.op == "loop":
            x = x.a[3]
        elif x.op == "upd":
            x = x.a[0]
        else:
            return False
    return False


def rule_cachekey(ctx):
    """The cached Gram matrices are reused only for the projection they were computed for."""
    R = "C19.CACHEKEY"
    f = ctx.program.func("separation.bss_eval_images", R)
    s = ctx.S.get(f.qual)
    calls = [c for c in s.calls() if c.callee == "separation._bss_decomp_mtifilt_images" and len(c.args) >= 6]
    need(len(calls) == 1, R, "bss_eval_images: cached decomposition call not found")
    c = calls[0]
    j, gj, g = c.args[2], c.args[4], c.args[5]
    per_source = gj.op == "sub" and gj.a[1] is j and j.op == "iter"
    yield ob(R, f, "separation.bss_eval_images:per-source-cache", per_source, "the single-source Gram matrix passed for source j is the cache entry of that same j (Gj[j])", node=c.node)
    # ... and the returned matrix is stored back under the same j
    st = [m for m in s.by_kind("mutate") if m.how == "setitem" and m.root is not None and m.key is j and m.val.op == "sub" and m.val.a[0] is c.term and tm.is_const(m.val.a[1], 4)]
    yield ob(R, f, "separation.bss_eval_images:cache-store", len(st) == 1, "the matrix returned for source j is stored as Gj[j]")
    shared = g.op in ("loopvar", "loop", "call", "sub") and not (g.op == "sub" and g.a[1] is j)
    yield ob(R, f, "separation.bss_eval_images:shared-all-sources-cache", shared, "the all-sources Gram matrix G does not depend on j and is carried through the loop")
    d = ctx.program.func("separation._bss_decomp_mtifilt_images", R)
    sd = ctx.S.get(d.qual)
    pj = [x for x in sd.calls() if x.callee == "separation._project_images" and len(x.args) == 4]
    good = len(pj) == 2
    if good:
        single = [x for x in pj if x.args[0].op == "sub"]
        allsrc = [x for x in pj if x.args[0].op == "param"]
        def _cached(a):
            # `Gj if saveg else None`: the cache, or nothing
            alts = [x for x in resolve_ite_free(a) if not tm.is_const(x, None)]
            return alts[0] if len(alts) == 1 else a

        good = len(single) == 1 and len(allsrc) == 1
        if good:
            cs, ca = _cached(single[0].args[3]), _cached(allsrc[0].args[3])
            good = cs.op == "param" and cs.a[0] == "Gj" and ca.op == "param" and ca.a[0] == "G"
    yield ob(R, d, "separation._bss_decomp_mtifilt_images:cache-roles", good, "Gj is used with the projection on source j alone, G with the projection on all sources")
    # a cached matrix that is handed in is only read: the projection never writes the G it received (in-place solvers,
    # overwrite_a=True, out=G), otherwise every later source is projected with a destroyed Gram matrix
    for qp in ("separation._project_images", "separation._project"):
        fp = ctx.program.func(qp, R)
        sp = ctx.S.get(qp)
        if "G" not in fp.all_params:
            continue
        bad = []
        for m in sp.by_kind("mutate"):
            old = m.d.get("old")
            if old is None or not hasattr(old, "op"):
                continue
            o = old
            for _ in range(60):
                if o.op == "upd":
                    o = o.a[0]
                elif o.op in ("loop", "loopvar"):
                    o = o.a[2]
                else:
                    break
            if any(z.op == "param" and z.a[0] == "G" for z in resolve_ite_free(o)):
                bad.append(m)
        yield ob(R, fp, "%s:cache-read-only" % qp, not bad, "the Gram matrix received from the caller is never written" if not bad else "the Gram matrix received from the caller is written in place (%s at line %d): the cached matrix is destroyed for the sources that follow" % (bad[0].how, bad[0].lineno), node=bad[0].node if bad else None)
    pi = ctx.program.func("separation._project_images", R)
    sp = ctx.S.get(pi.qual)
    recompute = any(any(call_name(z) == "np.all" for z in tm.walk(cnd)) and p for m in sp.by_kind("mutate") if m.root == "G" for cnd, p in symeval.pc_conds(m.pc))
    yield ob(R, pi, "separation._project_images:recompute-iff-zero", recompute, "a passed-in G is recomputed only when it is all zeros (the 'not yet computed' marker)")


def rule_silent(ctx):
    R = "C19.SILENT"
    f = ctx.program.func("separation.validate", R)
    s = ctx.S.get(f.qual)
    for side in ("reference_sources", "estimated_sources"):
        hit = False
        for r in s.by_kind("raise"):
            if r.exc != "ValueError":
                continue
            for c, p in symeval.pc_conds(r.pc):
                if p and c.op == "call" and call_name(c) == "separation._any_source_silent" and c.a[1][0].op == "param" and c.a[1][0].a[0] == side:
                    hit = True
        yield ob(R, f, "separation.validate:silent-%s" % side, hit, "a silent %s raises ValueError" % side)
    g = ctx.program.func("separation._any_source_silent", R)
    sg = ctx.S.get(g.qual)
    t = sg.returns[0].term
    good = t.op == "call" and call_name(t) == "np.any" and any(x.op == "call" and call_name(x) == "np.all" for x in tm.walk(t)) and any(x.op == "cmp" and x.a[0] == "==" for x in tm.walk(t))
    # one verdict per *source*: the all() runs over time (axis 1) of a (nsrc, nsampl) array - the channels of an image
    # have been reduced before (summed / or-ed over axes 2..), otherwise a source with one silent channel counts as silent
    per_source = False
    for x in tm.walk(t):
        if x.op == "call" and call_name(x) == "np.all" and x.a[1]:
            ax = dict(x.a[2]).get("axis", x.a[1][1] if len(x.a[1]) > 1 else None)
            inner = x.a[1][0]
            reduced = any(z.op == "call" and call_name(z) in ("np.sum", "np.any", "np.all", "np.max", "np.abs") and any(k_ == "axis" and ("ndim" in tm.show(v_, 6) or v_.op == "tuple" or tm.is_const(v_, 2) or tm.is_const(v_, -1)) for k_, v_ in z.a[2]) for z in tm.walk(inner))
            if ax is not None and (tm.is_const(ax, 1) and reduced) or (ax is not None and ax.op == "tuple"):
                per_source = True
            if ax is not None and ax.op == "call":
                per_source = True  # tuple(range(1, ndim)): every axis but the source axis
    yield ob(R, g, "separation._any_source_silent:form", good and per_source, "a source is silent when all its samples sum to zero along time (any over sources of all-zero)" if good and per_source else "silence is decided by %s: not one verdict per source over all of its samples and channels (a stereo source with one silent channel would count as silent)" % tm.show(t, 4))
    for q in PUBLIC:
        f2 = ctx.program.func(q, R)
        s2 = ctx.S.get(q)
        v = [c for c in s2.calls() if c.callee == "separation.validate"]
        yield ob(R, f2, "%s:validates" % q, len(v) == 1 and not symeval.pc_conds(v[0].pc), "validate() is called unconditionally")


def rule_safedb(ctx):
    """_safe_db(num, den) returns +inf exactly when den == 0 and 10*log10(num/den) otherwise: the zero test is exact,
    so multiplying estimate and reference energies by one constant never flips a finite ratio to inf."""
    R = "C19.SAFEDB"
    f = ctx.program.func("separation._safe_db", R)
    s = ctx.S.get(f.qual)
    lits = [r for r in s.returns if r.term.op in ("attr", "const", "glob", "ext") or tm.show(r.term, 2) in ("np.inf", "inf")]
    main = [r for r in s.returns if r not in lits]
    need(len(main) == 1 and len(lits) == 1, R, "_safe_db: (inf, ratio) returns not found")
    conds = list(symeval.pc_conds(lits[0].pc))
    exact = len(conds) == 1 and conds[0][1] and conds[0][0].op == "cmp" and conds[0][0].a[0] == "==" and any(tm.is_const(z, 0) for z in conds[0][0].a[1:]) and any(z.op == "param" and z.a[0] == "den" for z in conds[0][0].a[1:])
    yield ob(R, f, "separation._safe_db:exact-zero-test", exact, "inf is returned iff den == 0 (exact)" if exact else "inf is returned under %s: a tolerance-based zero test makes quiet but non-silent signals score inf" % "; ".join(tm.show(c, 3) for c, _ in conds), node=lits[0].node)
    from . import c01

    for o in c01.rule_guardtable(ctx):
        if o.construct.startswith("separation._safe_db"):
            o.rule = R
            yield o


def rule_evalkw(ctx):
    """separation.evaluate hands the caller's keyword arguments to the four metric families as they are: it neither
    injects nor overrides one (compute_permutation defaults to True for the whole-signal metrics and to False for the
    framewise ones - a default forced in evaluate() changes one family's documented behaviour)."""
    R = "C19.EVALKW"
    f = ctx.program.func("separation.evaluate", R)
    s = ctx.S.get(f.qual)
    need(f.kwarg, R, "separation.evaluate has no **kwargs")
    writes = [m for m in s.by_kind("mutate") if m.root == f.kwarg]
    yield ob(R, f, "separation.evaluate:kwargs-untouched", not writes, "evaluate() forwards **kwargs unchanged" if not writes else "evaluate() writes its keyword arguments (%s at line %d) before forwarding them: a default injected here overrides the documented default of a metric family" % (writes[0].how, writes[0].lineno), node=writes[0].node if writes else None)
    fams = [c for c in s.calls() if c.via_filter]
    need(len(fams) >= 4, R, "separation.evaluate: the four filter_kwargs calls were not found")
    for i, c in enumerate(fams):
        kws = [v for n, v in c.kw if n == "**"]
        ok = len(kws) == 1 and kws[0].op == "param" and kws[0].a[0] == f.kwarg
        yield ob(R, f, "separation.evaluate:forward@%d" % i, ok, "%s receives the caller's **kwargs" % c.callee, node=c.node)


def rule_extnames(ctx):
    """the projection helpers fall back to a least-squares solve when the Gram matrix is singular (a hard-panned or
    duplicated reference): the exception class named in that handler must exist in the installed NumPy"""
    yield from common.rule_extnames(ctx, "C19.EXTNAMES", ("separation.py", "util.py"))


RULES = [
    ("C19.EVALKW", 4, rule_evalkw),
    ("C19.EXTNAMES", 20, rule_extnames),
    ("C19.SAFEDB", 2, rule_safedb),
    ("C19.LINEAR", 9, rule_linear),
    ("C19.ARITY", 14, rule_arity),
    ("C19.NANFILL", 30, rule_nanfill),
    ("C19.FRAMECALL", 12, rule_framecall),
    ("C19.PERMEXH", 22, rule_permexh),
    ("C19.SILENT", 7, rule_silent),
    ("C19.CACHEKEY", 5, rule_cachekey),
]

from . import common as _common_purity
RULES = RULES + _common_purity.purity_rules("C19")
RULES = RULES + _common_purity.bundle_rules("C19")
