"""C20 - annotation files load back to exactly what they encode (structural clauses)."""

from __future__ import annotations

from .. import terms as tm
from ..model import AnalysisError
from .common import ob, need, call_name, resolve_ite_free, facts, count_form, decompose, nonempty_bases
from .. import symeval

PROP = "C20"
EXPLANATION = (
    "Static decision of the loader discipline C20 describes: each loader hands load_delimited the documented per-column converters and builds "
    "arrays at default precision; a row is split on the delimiter with maxsplit = n_columns - 1 after stripping, so the last column keeps inner "
    "whitespace; every conversion of file text (converter call, float(), np.array(., dtype), positional access to a split row) lies inside a try "
    "whose handler raises ValueError formatted with the row number, or after a column-count check that does; rows are numbered by enumerate; "
    "each validator call in io.py is wrapped in try/except ValueError -> warnings.warn with no re-raise, while the tempo weight and one-line checks "
    "raise; every loader reads through io._open, which accepts readable objects and str paths; the comment pattern is anchored and applied "
    "with .match.  Bit-identity of parsed floats (CPython float()) and Unicode handling are not decided."
)
RULE_TEXT = "one obligation per loader / per conversion site / per validator call"

LOADERS = {
    "io.load_events": ["float"],
    "io.load_labeled_events": ["float", "str"],
    "io.load_intervals": ["float", "float"],
    "io.load_labeled_intervals": ["float", "float", "str"],
    "io.load_time_series": ["float", "float"],
    "io.load_valued_intervals": ["float", "float", "float"],
    "io.load_key": ["str", "str"],
    "io.load_tempo": ["float", "float", "float"],
}


def rule_converters(ctx):
    R = "C20.CONVERTERS"
    for q, want in sorted(LOADERS.items()):
        f = ctx.program.func(q, R)
        s = ctx.S.get(q)
        c = [x for x in s.calls() if x.callee == "io.load_delimited"]
        need(len(c) == 1, R, "%s: single load_delimited call expected" % q)
        a = c[0].args
        conv = a[1] if len(a) > 1 else dict(c[0].kw).get("converters")
        got = [x.a[0] if x.op == "builtin" else tm.show(x, 2) for x in conv.a] if conv is not None and conv.op == "list" else None
        first = a[0] if a else None
        fwd = first is not None and first.op == "param" and first.a[0] == f.params[0]
        kw = dict(c[0].kw)
        g_ld = ctx.program.func("io.load_delimited", R)
        for i_, a_ in enumerate(a):
            if i_ < len(g_ld.params):
                kw.setdefault(g_ld.params[i_], a_)
        fwd_opts = all(k in kw and kw[k].op == "param" and kw[k].a[0] == k for k in ("delimiter", "comment"))
        yield ob(R, f, "%s:converters" % q, got == want and fwd and fwd_opts, "columns are converted with %s (documented %s); filename, delimiter and comment are forwarded" % (got, want), node=c[0].node)
        # arrays at default precision
        for i, x in enumerate(y for y in s.calls() if y.callee in ("np.array", "np.asarray", "np.concatenate")):
            # dtype=float / np.float64 spells the default precision out
            dts = [v for n, v in x.kw if n == "dtype"] + (list(x.args[1:2]) if x.callee in ("np.array", "np.asarray") else [])
            narrowing = any(not ((v.op == "builtin" and v.a[0] == "float") or (v.op == "ext" and v.a[0] in ("np.float64", "np.double", "np.float_")) or (v.op == "const" and v.a[0] in ("float64", "float", "f8", "d"))) for v in dts)
            yield ob(R, f, "%s:array@%d" % (q, i), not narrowing, "array built with %s at default precision" % x.callee, node=x.node)
    # load_delimited: split(line.strip(), n_columns - 1) with the compiled delimiter; enumerate(file, 1)
    f = ctx.program.func("io.load_delimited", R)
    s = ctx.S.get(f.qual)
    sp = [x for x in s.calls() if x.method == "split"]
    need(len(sp) == 1, R, "load_delimited: row split not found")
    x = sp[0]
    base_ok = x.base.op == "call" and call_name(x.base) == "re.compile" and x.base.a[1][0].op == "param" and x.base.a[1][0].a[0] == "delimiter"
    ms = x.args[1] if len(x.args) == 2 else dict(x.kw).get("maxsplit")
    arg_ok = len(x.args) + len(x.kw) == 2 and ms is not None and x.args and x.args[0].op == "call" and call_name(x.args[0]) == ".strip" and len(x.args[0].a[1]) == 1
    ms_ok = ms is not None and ms.op == "bin" and ms.a[0] == "-" and tm.is_const(ms.a[2], 1) and ms.a[1].op == "call" and call_name(ms.a[1]) == "builtins.len" and ms.a[1].a[1][0].op == "param" and ms.a[1].a[1][0].a[0] == "converters"
    yield ob(R, f, "io.load_delimited:split", base_ok and arg_ok and ms_ok, "row = re.compile(delimiter).split(line.strip(), len(converters) - 1): the last column keeps its inner whitespace", node=x.node)
    en = [y for y in s.calls() if y.callee == "builtins.enumerate"]
    start = None
    if len(en) == 1:
        start = en[0].args[1] if len(en[0].args) == 2 else dict(en[0].kw).get("start")
    good = len(en) == 1 and start is not None and tm.is_const(start, 1)
    yield ob(R, f, "io.load_delimited:row-numbers", good, "rows are numbered by enumerate(file, 1)")
    # load_patterns reports row numbers too and counts from 1 as well (load_ragged_time_series numbers from 0 or 1
    # depending on `header`, as published: not judged here)
    for q2 in ("io.load_patterns",):
        f2 = ctx.program.func(q2, R)
        s2 = ctx.S.get(q2)
        en2 = [y for y in s2.calls() if y.callee == "builtins.enumerate" and y.args and any(z.op == "with" for z in tm.walk(y.args[0]))]
        need(len(en2) >= 1, R, "%s: the loop over the file's lines was not found" % q2)
        for y in en2:
            st2 = y.args[1] if len(y.args) == 2 else dict(y.kw).get("start")
            ok2 = st2 is not None and tm.is_const(st2, 1)
            yield ob(R, f2, "%s:row-numbers" % q2, ok2, "rows are numbered from 1 (the number an error message reports is the line an editor shows)" if ok2 else "rows are numbered from %s: the row an error message names is one line before the malformed one" % (tm.show(st2, 1) if st2 is not None else "0 (enumerate's default)"), node=y.node)
    src = en[0].args[0] if en else None
    direct = src is not None and (src.op == "with" or (src.op == "call" and call_name(src) == ".readlines" and src.a[1][0].op == "with"))
    yield ob(R, f, "io.load_delimited:rows-are-file-lines", direct, "rows are the file object's own lines (iteration / readlines), not a re-split of its text (str.splitlines also breaks on U+2028, form feed, ...)")
    # the converted value itself is what is stored
    ap = [m for m in s.by_kind("mutate") if m.how == "method:append"]
    if not ap and any(c.fn is not None and c.fn.op == "iter" and any(z.op == "comp" and any(y.op == "attr" and y.a[1] == "append" for y in tm.walk(z.a[1])) for z in tm.walk(c.fn)) for c in s.calls()):
        raise AnalysisError(R, "load_delimited: the columns are filled through a list of bound append methods; which column receives which value is not read")
    def through_helper(v):
        """converter(value) made inside a private helper that was not evaluated in place (it wraps the call in its own
        try / except): the helper returns <its converter parameter>(<its value parameter>) on every path"""
        if not (v.op == "call" and v.a[0].op in ("func", "localfunc") and ctx.program.has_func(call_name(v))):
            return v
        g = ctx.program.func(call_name(v))
        hs = ctx.S.get(g.qual)
        if not hs.returns:
            return v
        bound = {}
        for i_, a_ in enumerate(v.a[1]):
            if i_ < len(g.params):
                bound[g.params[i_]] = a_
        for n_, a_ in v.a[2]:
            bound[n_] = a_
        outs = set()
        for r_ in hs.returns:
            t_ = r_.term
            if t_.op == "call" and t_.a[0].op == "param" and len(t_.a[1]) == 1 and t_.a[1][0].op == "param" and not t_.a[2] and t_.a[0].a[0] in bound and t_.a[1][0].a[0] in bound:
                outs.add(tm.call(bound[t_.a[0].a[0]], (bound[t_.a[1][0].a[0]],)))
            else:
                return v
        return outs.pop() if len(outs) == 1 else v

    good = bool(ap) and all(m.val.op == "tuple" and len(m.val.a) == 1 and through_helper(m.val.a[0]).op == "call" and through_helper(m.val.a[0]).a[0].op == "iter" for m in ap)
    if not good and ap:
        # values may travel through intermediate lists (rows first, columns afterwards): every appended value is either
        # converter(value) itself or read back, unchanged, from a list that only ever received such values
        def is_conv(v):
            return v.op == "call" and v.a[0].op == "iter" and len(v.a[1]) == 1

        by_root = {}
        for m in ap:
            v = m.val.a[0] if m.val.op == "tuple" and len(m.val.a) == 1 else None
            by_root.setdefault(m.root, []).append(v)
        ok_roots = set()
        changed = True
        while changed:
            changed = False
            for rt, vals in by_root.items():
                if rt in ok_roots:
                    continue

                def val_ok(v, depth=0):
                    if v is None or depth > 10:
                        return False
                    if is_conv(v):
                        return True
                    if v.op == "comp" and v.a[0] == "list" and not v.a[3]:
                        return val_ok(v.a[1], depth + 1)
                    if v.op in ("list", "tuple"):
                        return all(val_ok(z, depth + 1) for z in v.a)
                    if v.op == "iter":
                        return val_ok(v.a[0], depth + 1)
                    if v.op in ("loop", "loopvar"):
                        return v.a[1] in (ok_roots | {rt})
                    if v.op == "ite":
                        return val_ok(v.a[1], depth + 1) and val_ok(v.a[2], depth + 1)
                    return False

                def has_source(v, depth=0):
                    if v is None or depth > 10:
                        return False
                    if is_conv(v):
                        return True
                    if v.op == "comp":
                        return has_source(v.a[1], depth + 1)
                    if v.op in ("list", "tuple", "ite"):
                        return any(has_source(z, depth + 1) for z in v.a if hasattr(z, "op"))
                    if v.op == "iter":
                        return has_source(v.a[0], depth + 1)
                    if v.op in ("loop", "loopvar"):
                        return v.a[1] in ok_roots
                    return False

                if all(val_ok(v) for v in vals) and any(is_conv(v) or True for v in vals):
                    # a root whose values only refer to itself has no source: require at least one outside source
                    srcs = [v for v in vals if has_source(v)]
                    if srcs:
                        ok_roots.add(rt)
                        changed = True
        good = set(by_root) <= ok_roots
    yield ob(R, f, "io.load_delimited:store", good, "each column receives converter(value) unchanged, in file order (append)")
    # single column returns the list itself
    # ragged time series: first field float, rest np.array(., dtype=dtype)
    f = ctx.program.func("io.load_ragged_time_series", R)
    s = ctx.S.get(f.qual)
    fl = [y for y in s.calls() if y.callee is None and False]
    arr = [y for y in s.calls() if y.callee == "np.array" and any(n == "dtype" for n, _ in y.kw)]
    good = len(arr) == 1 and dict(arr[0].kw)["dtype"].op == "param" and arr[0].args[0].op == "sub" and tm.show(arr[0].args[0].a[1], 2) == "1::"
    okd, dv = f.default_value("dtype")
    dd = f.defaults.get("dtype")
    import ast as _ast

    yield ob(R, f, "io.load_ragged_time_series:values", good and dd is not None and _ast.unparse(dd) == "float", "values are np.array(row[1:], dtype=dtype) with dtype defaulting to float")


def _row_numbered_valueerror(site, s):
    """site is a raise: ValueError(<format ...>) whose message mentions a row index (idx of an enumerate loop)."""
    if site.exc != "ValueError":
        return False
    node = site.node
    # find the call site of ValueError at that statement
    for c in s.calls():
        near = c.lineno >= site.lineno and c.lineno <= site.lineno + 12
        inlined = bool(s.inlined) and not near  # the message is built by a helper evaluated in place (same path condition)
        if c.callee == "builtins.ValueError" and (near or inlined) and c.pc == site.pc:
            for a in c.args:
                if any(x.op == "idx" for x in tm.walk(a)) or any(x.op == "sub" and x.a[0].op == "iter" and tm.is_const(x.a[1], 0) and _from_enumerate(x.a[0]) for x in tm.walk(a)):
                    return True
    return False


def _from_enumerate(it):
    t = it.a[0]
    return t.op == "call" and call_name(t) == "builtins.enumerate"


def rule_errdisc(ctx):
    R = "C20.ERRDISC"
    for q in ("io.load_delimited", "io.load_ragged_time_series", "io.load_patterns"):
        f = ctx.program.func(q, R)
        s = ctx.S.get(q)
        raises = s.by_kind("raise")
        # conversions of file text
        convs = []
        for c in s.calls():
            line_dep = any(x.op == "with" for a in c.args for x in tm.walk(a))
            if not line_dep:
                continue
            if c.fn is not None and c.fn.op == "iter":
                if c.fn.a[0].op != "param" and any(z.op == "comp" and any(y.op == "attr" and y.a[1] in ("append", "extend", "add") for y in tm.walk(z.a[1])) for z in tm.walk(c.fn)):
                    continue  # an element of [column.append for column in columns]: storing, not converting
                convs.append(("converter call", c))
            elif c.callee == "builtins.float":
                convs.append(("float()", c))
            elif c.callee == "np.array" and any(n == "dtype" for n, _ in c.kw):
                convs.append(("np.array(., dtype)", c))
        # float(x) is normalised away in terms; find it syntactically
        import ast

        # ... in the function and in the helpers that were evaluated in place
        fnodes = [f.node] + [ctx.program.func(h).node for h in sorted(set(s.inlined)) if ctx.program.has_func(h)]
        for fn_ in fnodes:
            for n in ast.walk(fn_):
                if isinstance(n, ast.Call) and isinstance(n.func, ast.Name) and n.func.id == "float" and n.args:
                    convs.append(("float()", n))
        seen = set()
        k = 0
        for kind, c in convs:
            node = c if isinstance(c, ast.AST) else c.node
            if id(node) in seen:
                continue
            seen.add(id(node))
            tryinfo = _enclosing_try(fnodes, node)
            good = False
            why = "conversion outside any try"
            if tryinfo is not None:
                hs = tryinfo.handlers
                # every handler raises ValueError naming the row
                hr = []
                for h in hs:
                    rs = [r for r in raises if _inside(h, r.node)]
                    hr.append(bool(rs) and all(_row_numbered_valueerror(r, s) for r in rs))
                good = bool(hr) and all(hr)
                why = "inside try whose handler(s) raise ValueError naming the row" if good else "handler does not raise a row-numbered ValueError"
            k += 1
            yield ob(R, f, "%s:conversion@%d" % (q, k), good, "%s: %s" % (kind, why), node=node)
        # positional access to the split row
        j = 0
        for sb in s.by_kind("subscript"):
            if sb.index.op == "const" and isinstance(sb.index.a[0], float) and sb.index.a[0] != 0 and sb.base.op == "call" and call_name(sb.base) == ".split":
                # (field 0 of a split always exists; only later fields can be missing)
                tryinfo = _enclosing_try(fnodes, sb.node)
                counted = any(c.op == "cmp" and any(x is sb.base for x in tm.walk(c)) for c, _ in symeval.pc_conds(sb.pc))
                good = counted
                if tryinfo is not None:
                    hs = tryinfo.handlers
                    catches = any(h.type is None or "IndexError" in ast.unparse(h.type) or ast.unparse(h.type) in ("Exception", "BaseException") or (int(sb.index.a[0]) == 0) for h in hs)
                    rs_ok = all(all(_row_numbered_valueerror(r, s) for r in raises if _inside(h, r.node)) and any(_inside(h, r.node) for r in raises) for h in hs)
                    good = good or (catches and rs_ok)
                j += 1
                yield ob(R, f, "%s:field[%d]@%d" % (q, int(sb.index.a[0]), j), good, "field %d of the split row is read %s" % (int(sb.index.a[0]), "under a row-numbered error discipline" if good else "with no column-count check and no handler for a short row (IndexError)"), node=sb.node)
        if q == "io.load_patterns":
            # an (onset, midi) pair needs both columns: field 1 of the split row is demanded explicitly
            second = [sb for sb in s.by_kind("subscript") if sb.index.op == "const" and sb.index.a[0] == 1 and sb.base.op == "call" and call_name(sb.base) == ".split"]
            counted = any(c.op == "cmp" and any(x.op == "call" and call_name(x) == "builtins.len" and x.a[1][0].op == "call" and call_name(x.a[1][0]) == ".split" for x in tm.walk(c)) for r in raises for c, _ in symeval.pc_conds(r.pc))
            yield ob(R, f, "io.load_patterns:pair-needs-two-fields", bool(second) or counted, "the pair is built from fields [0] and [1] of the row (a one-column row fails and is reported)" if second or counted else "the pair no longer demands a second column (no read of field 1, no column count test): a one-column row is silently accepted as a 1-tuple")
        # column-count check in load_delimited
        if q == "io.load_delimited":
            cc = [r for r in raises if any(c.op == "cmp" and c.a[0] == "!=" and p for c, p in symeval.pc_conds(r.pc)[-1:])]
            good = bool(cc) and all(_row_numbered_valueerror(r, s) for r in cc)
            yield ob(R, f, "io.load_delimited:column-count", good, "a row with the wrong number of columns raises ValueError naming the row")


def _enclosing_try(fnode, target):
    import ast

    best = None
    for fn_ in fnode if isinstance(fnode, list) else [fnode]:
        for n in ast.walk(fn_):
            if isinstance(n, ast.Try):
                for st in n.body:
                    for x in ast.walk(st):
                        if x is target:
                            best = n
    return best


def _inside(h, node):
    import ast

    for x in ast.walk(h):
        if x is node:
            return True
    return False


VALIDATOR_CALLS = {
    "io.load_events": "util.validate_events",
    "io.load_labeled_events": "util.validate_events",
    "io.load_intervals": "util.validate_intervals",
    "io.load_labeled_intervals": "util.validate_intervals",
    "io.load_valued_intervals": "util.validate_intervals",
    "io.load_key": "key.validate_key",
    "io.load_tempo": "tempo.validate_tempi",
}


def rule_warnwrap(ctx):
    R = "C20.WARNWRAP"
    for q, v in sorted(VALIDATOR_CALLS.items()):
        f = ctx.program.func(q, R)
        s = ctx.S.get(q)
        c = [x for x in s.calls() if x.callee == v]
        if not c:
            yield ob(R, f, "%s:%s" % (q, v), False, "%s is no longer applied to the loaded data" % v)
            continue
        x = c[0]
        tr = [p for p in x.pc if p[0] == "try"]
        good = False
        why = "validator call is not inside try/except ValueError"
        if tr:
            tid = tr[-1][1]
            types = tr[-1][2]
            catches = all(t is not None and "ValueError" in t for t in types) and bool(types)
            warn = [w for w in s.calls() if w.callee == "warnings.warn" and any(p[0] == "except" and p[1] == tid for p in w.pc)]
            reraise = [r for r in s.by_kind("raise") if any(p[0] == "except" and p[1] == tid for p in r.pc)]
            good = catches and bool(warn) and not reraise
            why = "%s is wrapped in try/except %s -> warnings.warn%s" % (v, types, "" if not reraise else " but re-raises")
        yield ob(R, f, "%s:%s" % (q, v), good, why, node=x.node)
        # the returned object is the loaded one (not replaced after validation failure)
    # hard errors
    f = ctx.program.func("io.load_tempo", R)
    s = ctx.S.get(f.qual)
    rs = s.by_kind("raise")
    one = any(r.exc == "ValueError" and any(c.op == "cmp" and c.a[0] == "!=" and tm.is_const(c.a[1], 1) or (c.op == "cmp" and c.a[0] == "!=" and tm.is_const(c.a[2], 1)) for c, p in symeval.pc_conds(r.pc)) for r in rs)
    yield ob(R, f, "io.load_tempo:one-line", one, "a tempo file with more than one line raises ValueError")
    wt = False
    for r in rs:
        if r.exc != "ValueError" or symeval.pc_in_try(r.pc):
            continue
        for c, p in symeval.pc_conds(r.pc):
            ks = {z.a[0] for x in tm.walk(c) if x.op == "cmp" for z in x.a[1:] if z.op == "const"}
            if {0, 1} <= ks:
                wt = True  # the exact range is WEIGHTRANGE's obligation
    yield ob(R, f, "io.load_tempo:weight-range", wt, "a tempo weight outside [0, 1] raises ValueError")
    f = ctx.program.func("io.load_key", R)
    s = ctx.S.get(f.qual)
    one = any(r.exc == "ValueError" and any(c.op == "cmp" and c.a[0] == "!=" for c, p in symeval.pc_conds(r.pc)) for r in s.by_kind("raise"))
    yield ob(R, f, "io.load_key:one-line", one, "a key file with more than one line raises ValueError")


def rule_openboth(ctx):
    R = "C20.OPENBOTH"
    f = ctx.program.func("io._open", R)
    s = ctx.S.get(f.qual)
    ys = s.by_kind("yield")
    need(len(ys) == 2, R, "io._open: two yield sites expected")
    readable = any(y.term.op == "param" and any(c.op == "call" and call_name(c) == "builtins.hasattr" and tm.is_const(c.a[1][1], "read") and p for c, p in symeval.pc_conds(y.pc)) for y in ys)
    path = any(y.term.op == "with" and any(c.op == "call" and call_name(c) == "builtins.isinstance" and p for c, p in symeval.pc_conds(y.pc)) for y in ys)
    yield ob(R, f, "io._open:readable", readable, "an object with a read attribute is yielded as is")
    yield ob(R, f, "io._open:path", path, "a str path is opened and the file object yielded")
    yield ob(R, f, "io._open:else-raises", any(r.exc in ("IOError", "OSError") for r in s.by_kind("raise")), "anything else raises IOError")
    for q in ("io.load_delimited", "io.load_patterns", "io.load_ragged_time_series"):
        g = ctx.program.func(q, R)
        sg = ctx.S.get(q)
        c = [x for x in sg.calls() if x.callee == "io._open"]
        opens = [x for x in sg.calls() if x.callee == "builtins.open"]
        good = len(c) == 1 and c[0].args and c[0].args[0].op == "param" and not opens
        yield ob(R, g, "%s:uses-_open" % q, good, "the file is read through io._open(filename, ...)")


def rule_comment(ctx):
    R = "C20.COMMENT"
    for q in ("io.load_delimited", "io.load_ragged_time_series"):
        f = ctx.program.func(q, R)
        s = ctx.S.get(q)
        m = [x for x in s.calls() if x.method in ("match", "search", "fullmatch") and any(xx.op == "call" and call_name(xx) == "re.compile" for xx in tm.walk(x.base))]
        if not m:
            # documented as a regular expression: a plain string test is a definite defect, not an unknown shape
            plain = [x for x in s.calls() if x.method in ("startswith", "find", "index") and any("comment" in tm.params_of(a) for a in x.args)]
            plain += [x for x in s.by_kind("cmp") if x.d.get("term") is not None and x.d["term"].op == "cmp" and x.d["term"].a[0] in ("==", "in") and "comment" in tm.params_of(x.d["term"]) and not any(tm.is_const(z, None) for z in x.d["term"].a[1:])]
            if plain:
                yield ob(R, f, "%s:comment-anchored" % q, False, "the comment marker is documented as a regular expression but lines are tested with a plain string operation: markers such as '[#%]' or '\\s*#' no longer match", node=plain[0].node)
                continue
        need(len(m) == 1, R, "%s: comment test not found" % q)
        x = m[0]
        alts = [a for a in resolve_ite_free(x.base) if not tm.is_const(a, None)]
        anchored = False
        for a in alts:
            if a.op == "call" and call_name(a) == "re.compile":
                pat = a.a[1][0]
                # the pattern is [^] + comment: `.match` anchors at the start of the line by itself, `.search` needs the ^
                pre = None
                if pat.op == "param" and pat.a[0] == "comment":
                    pre = ""
                if pat.op == "call" and call_name(pat) == ".format" and pat.a[1][0].op == "const" and str(pat.a[1][0].a[0]) in ("^{}", "{}", "^{0}", "{0}") and len(pat.a[1]) == 2 and pat.a[1][1].op == "param" and pat.a[1][1].a[0] == "comment":
                    pre = "^" if str(pat.a[1][0].a[0]).startswith("^") else ""
                if pat.op == "fstr" and len(pat.a) == 2 and tm.is_const(pat.a[0], "^") and pat.a[1].op == "param" and pat.a[1].a[0] == "comment":
                    pre = "^"  # "^{}".format(comment) / f"^{comment}"
                if pat.op == "fstr" and len(pat.a) == 1 and pat.a[0].op == "param" and pat.a[0].a[0] == "comment":
                    pre = ""
                if pat.op == "bin" and pat.a[0] == "+" and tm.is_const(pat.a[1], "^") and pat.a[2].op == "param" and pat.a[2].a[0] == "comment":
                    pre = "^"
                if pat.op == "bin" and pat.a[0] == "%" and pat.a[1].op == "const" and pat.a[1].a[0] in ("^%s", "%s") and pat.a[2].op in ("param", "tuple") and tm.params_of(pat.a[2]) == {"comment"}:
                    pre = "^" if pat.a[1].a[0].startswith("^") else ""
                # (`.search` is not the same test even with the ^: in '^a|b' the anchor binds to the first alternative only)
                if pre is not None and x.method in ("match", "fullmatch"):
                    anchored = True
        on_line = len(x.args) == 1 and x.args[0].op in ("iter", "sub")
        guard = any(c.op == "cmp" and c.a[0] in ("is", "isnot") and "comment" in tm.params_of(c) for c, p in symeval.pc_conds(x.pc)) or True
        yield ob(R, f, "%s:comment-anchored" % q, anchored and x.method in ("match", "fullmatch") and on_line, "comment lines are those matching '^' + comment at the start of the raw line (.%s)" % x.method, node=x.node)
        # skipped lines are skipped entirely (continue) and the rest parsed
        okd, dv = f.default_value("comment")
        yield ob(R, f, "%s:comment-default" % q, okd and dv == "#", "default comment marker is %r" % (dv,))


def rule_validatortotal(ctx):
    """Validators that io.py wraps raise only ValueError: explicit raises (C14.RAISETYPES) and no unguarded table lookup."""
    R = "C20.VALIDATORTOTAL"
    from . import c14

    targets = {"key.validate_key", "tempo.validate_tempi", "util.validate_events", "util.validate_intervals"}
    for o in c14.rule_raisetypes(ctx):
        if o.construct.split(":")[0] in targets:
            o.rule = R
            yield o
    for o in c14.rule_totallookup(ctx):
        if o.construct.split(":")[0] in targets:
            o.rule = R
            yield o
    # the documented checks themselves (C14.FACETS) of the validators io.py turns into warnings
    for o in c14.rule_facets(ctx):
        if o.construct.split(":")[0] in targets:
            o.rule = R
            yield o


def rule_oneline(ctx):
    """Single-line formats (key, tempo): the line count is tested (ValueError) before any column is indexed, so an
    empty or multi-line file is rejected cleanly instead of failing with IndexError."""
    R = "C20.ONELINE"
    for q in ("io.load_key", "io.load_tempo"):
        f = ctx.program.func(q, R)
        s = ctx.S.get(q)
        n = 0
        for st in s.by_kind("subscript"):
            t = st.d.get("term")
            if t is None or t.op != "sub" or not _is_num_const(t.a[1]):
                continue
            col = t.a[0]
            if not (col.op == "sub" and col.a[0].op == "call" and call_name(col.a[0]) == "io.load_delimited"):
                continue
            n += 1
            guarded = False
            for c, pol in facts(st.pc):
                if c.op == "cmp" and c.a[0] == "!=" and not pol:
                    sides = [c.a[1], c.a[2]]
                    if any(tm.is_const(z, 1) for z in sides) and any(count_form(z) is not None and count_form(z)[1].op == "sub" and count_form(z)[1].a[0] is col.a[0] for z in sides):
                        guarded = True
                if c.op == "cmp" and c.a[0] == "==" and pol:
                    sides = [c.a[1], c.a[2]]
                    if any(tm.is_const(z, 1) for z in sides) and any(count_form(z) is not None and count_form(z)[1].op == "sub" and count_form(z)[1].a[0] is col.a[0] for z in sides):
                        guarded = True
            yield ob(R, f, "%s:first-row@%d" % (q, n), guarded, "column element [0] is read only after the `exactly one line` test" if guarded else "column element %s is read before the line count is tested: an empty file raises IndexError instead of ValueError" % tm.show(t, 3), node=st.node)
        need(n >= 1, R, "%s: no first-row read found" % q)


def _is_num_const(t):
    return t.op == "const" and isinstance(t.a[0], (int, float)) and not isinstance(t.a[0], bool)


def _weight_semantic(c, pol):
    """(good, witness) when the condition is a comparison formula over one operand and the constants {0, 1}; else None"""
    from .. import finmodel

    m = finmodel.Model([c])
    ks = {k[1] for k in m.consts if k[0] == "n"}
    if len(m.vars) != 1 or not ({0, 1} <= ks) or any(k[0] != "n" for k in m.consts):
        return None
    w = m.vars[0]
    undecided = False
    for val in m.valuations():
        got = m.truth(c, val)
        if got is None:
            undecided = True
            continue
        if not pol:
            got = not got
        x = val[w.id]
        want = x < 0 or x > 1
        if got != want:
            return False, (x, got)
    if undecided or not m.ok:
        return None
    # a weight that is not a number lies outside [0, 1] as well: every ordering test on NaN is false
    got = m.truth(c, {w.id: float("nan")})
    if got is None:
        return None
    if not pol:
        got = not got
    if not got:
        return False, ("nan", False)
    return True, None


def rule_weightrange(ctx):
    """load_tempo rejects exactly the weights outside the closed interval [0, 1]."""
    R = "C20.WEIGHTRANGE"
    f = ctx.program.func("io.load_tempo", R)
    s = ctx.S.get(f.qual)
    found = False
    caught = []
    for r in s.by_kind("raise"):
        conds = list(symeval.pc_conds(r.pc))
        if not conds:
            continue
        if symeval.pc_in_try(r.pc):
            # raised inside a try block of load_tempo: the surrounding handler turns it into a warning, it is not an error
            last = conds[-1][0]
            ks = {z.a[0] for x in tm.walk(last) if x.op == "cmp" for z in x.a[1:] if z.op == "const"}
            if {0, 1} <= ks:
                caught.append(r)
            continue
        c, pol = conds[-1]
        # semantic reading first: the condition compares one operand with the constants 0 and 1 only, so it is a
        # Boolean function of the operand's position relative to them; it must equal  w < 0 or 1 < w
        sem = _weight_semantic(c, pol)
        if sem is not None:
            found = True
            good, wit = sem
            yield ob(R, f, "io.load_tempo:weight-closed-range", good, "the raise fires exactly for weight < 0 or weight > 1 (both bounds accepted; decided on the orderings of the weight relative to 0 and 1)" if good else "the weight test does not reject exactly the weights outside the closed interval [0, 1]: it %s weight = %s" % ("rejects" if wit[1] else "accepts", wit[0]), node=r.node)
            continue
        atoms = []
        decompose(c, pol, atoms)
        # collect the comparisons that make the raise fire; a raise under `not (a and b)` fires when either fails
        cmps = []

        def collect(t, positive):
            if t.op == "un" and t.a[0] == "not":
                collect(t.a[1], not positive)
            elif t.op == "bool":
                for z in t.a[1:]:
                    collect(z, positive)
            elif t.op == "cmp":
                cmps.append((t, positive))

        collect(c, pol)
        w = [(t, p) for t, p in cmps if any(z.op == "sub" and _is_num_const(z.a[1]) for z in t.a[1:]) and any(_is_num_const(z) for z in t.a[1:])]
        if len(w) < 2:
            continue
        found = True
        lo = hi = None
        for t, p in w:
            op, a, b2 = t.a
            # normalised orientation: a < b or a <= b; p False means the negation fires the raise
            const_left = _is_num_const(a)
            k = a.a[0] if const_left else b2.a[0]
            if p:
                fires = (op, const_left)
            else:
                fires = ({"<": ">=", "<=": ">"}.get(op, op), const_left)
            # rejects weight when: const OP' weight (const_left) or weight OP' const
            if k == 0:
                # accepted closed at 0 iff the raise fires for weight < 0 only: (0 > weight) or (weight < 0)
                lo = fires in ((">", True), ("<", False))
            if k == 1:
                hi = fires in (("<", True), (">", False))
        yield ob(R, f, "io.load_tempo:weight-closed-range", bool(lo) and bool(hi), "the raise fires exactly for weight < 0 or weight > 1 (both bounds accepted)" if lo and hi else "the weight test rejects a bound of the closed interval [0, 1] (lower ok: %s, upper ok: %s)" % (lo, hi), node=r.node)
    if not found and caught:
        yield ob(R, f, "io.load_tempo:weight-closed-range", False, "the weight range test only raises inside the try block whose handler turns ValueError into a warning: a weight outside [0, 1] is returned instead of being rejected", node=caught[0].node)
        return
    if not found:
        # bounds that are almost 0 and 1 (-1e-6, 1 + 1e-6): a widened range accepts weights the format forbids
        for r in s.by_kind("raise"):
            if symeval.pc_in_try(r.pc):
                continue
            for c, pol in symeval.pc_conds(r.pc):
                near = []
                for x in tm.walk(c):
                    if x.op == "cmp" and x.a[0] in ("<", "<="):
                        for z in x.a[1:]:
                            zz = z
                            if zz.op == "bin" and zz.a[0] in ("+", "-") and all(_is_num_const(y) for y in zz.a[1:]):
                                v = zz.a[1].a[0] + zz.a[2].a[0] if zz.a[0] == "+" else zz.a[1].a[0] - zz.a[2].a[0]
                                near.append(v)
                            elif zz.op == "un" and zz.a[0] == "-" and _is_num_const(zz.a[1]):
                                near.append(-zz.a[1].a[0])
                            elif _is_num_const(zz):
                                near.append(zz.a[0])
                odd = [v for v in near if v not in (0, 1) and (-0.5 < v < 0.5 or 0.5 < v < 1.5)]
                if len(near) >= 2 and odd:
                    found = True
                    yield ob(R, f, "io.load_tempo:weight-closed-range", False, "the weight test compares with %s instead of 0 and 1: weights outside the closed interval [0, 1] are accepted" % ", ".join(repr(v) for v in sorted(set(near))), node=r.node)
                    break
            if found:
                break
    need(found, R, "load_tempo: weight range test not found")


def rule_emptyindex(ctx):
    """The validators the loaders call accept an empty array: no element is read by a constant position unless a
    test on the path proves the array non-empty (an empty annotation file must load as an empty array)."""
    R = "C20.EMPTYINDEX"
    for q in ("util.validate_events", "util.validate_intervals", "key.validate_key", "tempo.validate_tempi"):
        f = ctx.program.func(q, R)
        s = ctx.S.get(q)
        bad = []
        for st in s.by_kind("subscript"):
            t = st.d.get("term")
            if t is None or t.op != "sub":
                continue
            base, idx = t.a
            if base.op == "attr" and base.a[1] in ("shape", "args"):
                continue
            consts = [idx] if _is_num_const(idx) else ([z for z in idx.a if _is_num_const(z)] if idx.op == "tuple" else [])
            if not consts or base.op != "param":
                continue
            if idx.op == "tuple" and idx.a and idx.a[0].op == "slice":
                continue  # column projection x[:, k] of an n-by-2 array is fine for n == 0
            ne = [b for k, b in nonempty_bases(st.pc)]
            if not any(b is base for b in ne):
                bad.append(tm.show(t, 2))
        yield ob(R, f, "%s:no-unguarded-positional-read" % q, not bad, "no element is read by constant position without a non-emptiness test" if not bad else "reads %s without testing that the array is non-empty: an empty annotation raises IndexError" % ", ".join(sorted(set(bad))))


def rule_patternflush(ctx):
    """load_patterns keeps a pending occurrence and a pending pattern; whenever a pattern is handed over to the result
    list (at a `pattern` header and at end of file) its pending occurrence must already have been attached, and the
    non-emptiness test must look at the pattern *after* that: otherwise a pattern whose only occurrence is still
    pending is dropped, or survives only through list aliasing."""
    R = "C20.PATTERNFLUSH"
    f = ctx.program.func("io.load_patterns", R)
    s = ctx.S.get(f.qual)

    def root_name(t):
        n = 0
        while t is not None and n < 80:
            n += 1
            if t.op in ("loop", "loopvar"):
                return t.a[1]
            if t.op == "upd":
                t = t.a[0]
            elif t.op == "ite":
                t = t.a[1] if t.a[1].op != "list" else t.a[2]
            else:
                return None
        return None

    need(len(s.returns) >= 1, R, "load_patterns: no return")
    res = root_name(s.returns[-1].term)
    need(res is not None, R, "load_patterns: the returned list is not a loop-built variable")
    flushes = [m for m in s.by_kind("mutate") if m.how == "method:append" and m.root == res]
    need(len(flushes) >= 1, R, "load_patterns: no append to the result list %s" % res)
    n = 0
    appended_to = {x.root for x in s.by_kind("mutate") if x.how == "method:append" and x.root}
    pending = [m for m in flushes if root_name(m.val.a[0] if m.val.op == "tuple" and len(m.val.a) == 1 else m.val) in appended_to]
    if not pending:
        # another algorithm (e.g. everything is opened eagerly and the empty entries are dropped at the end): there is no
        # pending pattern whose pending occurrence could be forgotten
        yield ob(R, f, "io.load_patterns:flush", True, "not applicable: the patterns handed to %s are not a pending list that is filled incrementally" % res)
        return
    for m in pending:
        n += 1
        v = m.val.a[0] if m.val.op == "tuple" and len(m.val.a) == 1 else m.val
        attached = [x for x in tm.walk(v) if x.op == "upd" and x.a[1] == "method:append"]
        good = bool(attached)
        guard_ok = True
        for c, pol in symeval.pc_conds(m.pc):
            # an emptiness test of the pending pattern on this path must see the flushed value
            if c.op == "cmp" and any(z.op == "list" and not z.a for z in c.a[1:]):
                other = [z for z in c.a[1:] if not (z.op == "list" and not z.a)]
                if other and root_name(other[0]) == root_name(v) and other[0] is not v:
                    guard_ok = False
        yield ob(R, f, "io.load_patterns:flush#%d" % n, good and guard_ok, "the pattern appended to %s already carries its pending occurrence, and its emptiness is tested after that" % res if good and guard_ok else ("the pattern is appended to %s before its pending occurrence is attached (value %s)" % (res, tm.show(v, 2)) if not good else "the emptiness of the pending pattern is tested before its pending occurrence is attached: a pattern with a single occurrence is dropped"), node=m.node)


def rule_extnames(ctx):
    """loaders report malformed files through their own handlers: the names those handlers and converters rely on exist"""
    from . import common

    yield from common.rule_extnames(ctx, "C20.EXTNAMES", ("io.py", "util.py", "key.py", "tempo.py"))


def rule_formatsafe(ctx):
    from . import common

    yield from common.rule_formatsafe(ctx, "C20.FORMATSAFE", ("io.py", "util.py", "key.py", "tempo.py"))




def _helperdefaults():
    from . import common as _c

    return _c.rule_helperdefaults("C20.HELPERDEFAULTS")


RULES = [
    ("C20.HELPERDEFAULTS", 3, _helperdefaults()),
    ("C20.EXTNAMES", 20, rule_extnames),
    ("C20.FORMATSAFE", 1, rule_formatsafe),
    ("C20.PATTERNFLUSH", 1, rule_patternflush),
    ("C20.VALIDATORTOTAL", 10, rule_validatortotal),
    ("C20.CONVERTERS", 14, rule_converters),
    ("C20.ERRDISC", 5, rule_errdisc),
    ("C20.WARNWRAP", 10, rule_warnwrap),
    ("C20.OPENBOTH", 6, rule_openboth),
    ("C20.COMMENT", 4, rule_comment),
    ("C20.ONELINE", 3, rule_oneline),
    ("C20.WEIGHTRANGE", 1, rule_weightrange),
    ("C20.EMPTYINDEX", 4, rule_emptyindex),
]

from . import common as _common_purity
RULES = RULES + _common_purity.purity_rules("C20")
RULES = RULES + _common_purity.bundle_rules("C20")
